"""Histories on long-lived objects for C01 (state vectors) and C02 (density matrices).

Families A/B/C of STRENGTHEN_GUIDE.md: the same observation (execution, Circuit.unitary, gate.matrix) after a HISTORY of
operations on long-lived gate / circuit objects must equal the observation on freshly built equivalent objects.

A history is a JSON list of operations (grammar below) interpreted twice, in lock step:
  * on the REAL qibo objects;
  * on a SHADOW: the abstract state the public API documents (class, qubits, CURRENT parameter values, trainable flag,
    extra controls, dagger) of every gate object by identity, and for every circuit the list of gate identities it holds
    (alias circuits - fuse / shallow copy / `+` - share identities; derived objects - controlled_by, dagger, on_qubits,
    invert, deep copy - are snapshots with a fresh identity).
Every observation is compared with the operator of a FROM-SCRATCH rebuild of the shadow: fresh gate objects of the shadow's
class at the shadow's current parameters give the documented matrices (tied to Spec/GateSpec.v by the table obligations),
and the circuit operator is Base/Mat.circ_mat of those matrices on the declared controls / qubits:
  * exact histories (Gaussian-integer `Unitary` matrices, parametrised classes at the parameter points where their matrix
    is Gaussian-integer, exact named gates): compared inside Coq (vm_compute) with circ_mat AND with the observations of the
    history machine C01/History.v (`run_history`), whose theorems (C01/PropsHistory.v) say that every observation is the
    Spec operator of the current store;
  * float histories (random angles, near-degenerate angles, random complex matrices; TEST level, labelled): compared at
    1e-12 with a Python transliteration of Base/Mat.cembed, which is itself compared with the Coq result on every exact
    observation of the run.
Family B: every user-supplied array (initial states, Unitary matrices, parameter containers) is snapshotted before the call
and compared afterwards; every returned state is snapshotted and compared again at the end of the history.

Operations (gid / cid are names chosen by the generator):
  ["gate", gid, cls, qubits, params, trainable]     construct (cls "Unitary": params = [matrix])
  ["circ", cid, n, [gid...]]                        Circuit(n, density_matrix=mode) holding these objects (repeats allowed)
  ["exec", cid, init] ["unitary", cid] ["matrix", gid] ["fmatrix", cid]      observations / cache fillers
  ["setc", cid, fmt, [params...]]                   Circuit.set_parameters (fmt list / flat / array / dict)
  ["setg", gid, params]                             gate.parameters = ...
  ["fuse", new, cid, max_qubits] ["copy", new, cid, deep] ["invert", new, cid] ["add", new, c1, c2]
  ["onq", new, cid, n_new, qubits]                  Circuit(n_new).add(c.on_qubits(*qubits))
  ["ctrl", new_gid, gid, controls] ["dag", new_gid, gid] ["gonq", new_gid, gid, {q: q'}]
Objects created by circuit-level derivations are named "<new>.<k>" (k = position in the new queue).
"""
import copy
import math
import random
from concurrent.futures import ThreadPoolExecutor

import numpy as np

from harness import c01
from harness.c01 import cmat, cvec, cnats, cbool, cz, backend, np_matrix, NAMED, NAMED_ARITY

HEADER = c01.HEADER.replace("C01.Spec.", "C01.Spec C01.History.") + """
Definition H := hop (T:=Zi).
Definition obs_eqb (a b : obs (T:=Zi)) : bool :=
  match a, b with
  | OVec (Some u), OVec (Some v) => veqb u v
  | OMat (Some A), OMat (Some B) => meqb A B
  | _, _ => false
  end.
Fixpoint obs_eqbs (a b : list (obs (T:=Zi))) : list bool :=
  match a, b with
  | x :: a', y :: b' => obs_eqb x y :: obs_eqbs a' b'
  | [], [] => []
  | _, _ => [false]
  end.
"""

TOL = 1e-12
FMT = ["list", "list", "flat", "array", "dict"]


class HistoryError(Exception):
    """the history itself is ill-formed (generator / shrinker bug), not a property violation"""


# ------------------------------------------------------------------ catalogue of classes
_CAT = None


def cat():
    """{"param": {cls: (nq, nparams)}, "exact": {cls: [param tuples with Gaussian-integer matrix]}, "builtin": set of classes with
    built-in controls}"""
    global _CAT
    if _CAT is not None:
        return _CAT
    import itertools
    from lib import qtrace
    ang = [0.0, math.pi, -math.pi, 2 * math.pi, math.pi / 2, -math.pi / 2, 3 * math.pi / 2]
    param, exact, builtin = {}, {}, set()
    for nm, nq, ps in qtrace.catalogue():
        try:
            g0 = qtrace.make_gate(nm, list(range(nq)), [0.0] * len(ps))
        except Exception:
            continue
        if g0.control_qubits:
            builtin.add(nm)
        if not ps:
            continue
        param[nm] = (nq, len(ps))
        pts, seen = [], set()
        for tup in itertools.product(ang, repeat=len(ps)):
            try:
                M = np.asarray(qtrace.make_gate(nm, list(range(nq)), list(tup)).matrix(backend()))
            except ValueError:
                continue
            R = np.round(M.real) + 1j * np.round(M.imag)
            if np.abs(M - R).max() < 1e-9 and R.tobytes() not in seen:
                seen.add(R.tobytes())
                pts.append(list(tup))
        if len(pts) >= 3:
            exact[nm] = pts[:12]
    # not in qtrace.catalogue (matrix-valued parameter): GeneralizedfSim(q0, q1, unitary 2x2, phi), own parameter setter
    param["GeneralizedfSim"] = (2, 2)
    exact["GeneralizedfSim"] = "special"
    _CAT = {"param": param, "exact": exact, "builtin": builtin}
    return _CAT


def doc_matrix(cls, p):
    """documented formulas of the most used classes, written out independently (cross-check of the fresh gates)"""
    c, s, e = math.cos, math.sin, lambda x: complex(math.cos(x), math.sin(x))
    if cls == "RX":
        return np.array([[c(p[0] / 2), -1j * s(p[0] / 2)], [-1j * s(p[0] / 2), c(p[0] / 2)]])
    if cls == "RY":
        return np.array([[c(p[0] / 2), -s(p[0] / 2)], [s(p[0] / 2), c(p[0] / 2)]], dtype=complex)
    if cls == "RZ":
        return np.array([[e(-p[0] / 2), 0], [0, e(p[0] / 2)]])
    if cls == "U1":
        return np.array([[1, 0], [0, e(p[0])]])
    if cls == "U2":
        return np.array([[e(-(p[0] + p[1]) / 2), -e(-(p[0] - p[1]) / 2)], [e((p[0] - p[1]) / 2), e((p[0] + p[1]) / 2)]]) / math.sqrt(2)
    if cls == "U3":
        t, ph, la = p
        return np.array([[e(-(ph + la) / 2) * c(t / 2), -e(-(ph - la) / 2) * s(t / 2)],
                         [e((ph - la) / 2) * s(t / 2), e((ph + la) / 2) * c(t / 2)]])
    if cls == "GeneralizedfSim":
        M = np.eye(4, dtype=complex)
        M[1:3, 1:3] = np_matrix(p[0])
        M[3, 3] = e(-p[1])
        return M
    if cls in ("CRX", "CRY", "CRZ", "CU1", "CU2", "CU3"):
        M = np.eye(4, dtype=complex)
        M[2:, 2:] = doc_matrix(cls[1:], p)
        return M
    return None


def ctor_values(cls, params):
    """python constructor / setter values of a shadow parameter tuple"""
    if cls == "GeneralizedfSim":
        return [np_matrix(params[0]), params[1]]
    return list(params)


def fresh_gate(cls, qubits, params):
    from qibo import gates
    return getattr(gates, cls)(*qubits, *ctor_values(cls, params))


# ------------------------------------------------------------------ python reference (transliteration of Base/Mat.cembed)
def py_cembed(n, cs, ts, M):
    d, k = 2 ** n, len(ts)
    U = np.zeros((d, d), dtype=complex)
    for j in range(d):
        bits = [(j >> (n - 1 - q)) & 1 for q in range(n)]
        if not all(bits[q] for q in cs):
            U[j, j] = 1
            continue
        col = sum(bits[t] << (k - 1 - a) for a, t in enumerate(ts))
        for row in range(2 ** k):
            b2 = list(bits)
            for a, t in enumerate(ts):
                b2[t] = (row >> (k - 1 - a)) & 1
            U[sum(b << (n - 1 - q) for q, b in enumerate(b2)), j] += M[row, col]
    return U


def py_circ(n, intents):
    U = np.eye(2 ** n, dtype=complex)
    for cs, ts, M in intents:
        U = py_cembed(n, cs, ts, M) @ U
    return U


# ------------------------------------------------------------------ the two worlds
def is_param(sh):
    return sh["cls"] == "Unitary" or sh["cls"] in cat()["param"]


class World:
    def __init__(self, mode, real=True):
        self.mode, self.real = mode, real
        self.g, self.sh = {}, {}            # gid -> real gate / shadow dict (shared dict objects = shared identity)
        self.c, self.csh = {}, {}           # cid -> real circuit / shadow {n, queue, train, fused, settable}
        self.obs = []                       # observations
        self.inputs = []                    # (label, array object, snapshot bytes)
        self.outputs = []                   # (label, array object, snapshot copy)
        self.issues = []                    # (kind, label) family-B problems and raised exceptions
        # Coq history machine
        self.reg, self.keep, self.hops, self.cidx = {}, [], [], {}
        self.forced = set()                 # store indices modelled in controlled_by form although the real object is a dedicated class
        self.model_ok = True

    # ---------------------------------------------------------------- shadow -> intent
    def intent(self, gid):
        """(sorted controls, base qubits, documented matrix at the CURRENT shadow parameters) from a fresh gate"""
        sh = self.sh[gid]
        if sh["cls"] == "Unitary":
            M, qs = np_matrix(sh["params"][0]), list(sh["qubits"])
        else:
            fresh = fresh_gate(sh["cls"], sh["qubits"], sh["params"])
            M, qs = np.asarray(fresh.matrix(backend()), dtype=complex), [int(q) for q in fresh.qubits]
            D = doc_matrix(sh["cls"], sh["params"])
            if D is not None and np.abs(D - M).max() > TOL:
                self.issues.append(("fresh-matrix", f"{sh['cls']}{tuple(sh['params'])}"))
        if sh["dag"]:
            M = M.conj().T
        return sorted(sh["ctrl"]), qs, M

    def intents(self, cid):
        return [self.intent(g) for g in self.csh[cid]["queue"]]

    # ---------------------------------------------------------------- real helpers
    def track_in(self, label, arr):
        self.inputs.append((label, arr, arr.tobytes()))
        return arr

    def value(self, sh_params, cls):
        """python value handed to the real API for a parameter tuple"""
        if cls == "Unitary":
            return self.track_in("Unitary matrix", np_matrix(sh_params[0]))
        if cls == "GeneralizedfSim":
            return (self.track_in("GeneralizedfSim rotation", np_matrix(sh_params[0])), sh_params[1])
        return sh_params[0] if len(sh_params) == 1 else tuple(sh_params)

    def register(self, gid, obj, hop):
        """a real gate object enters the Coq store (HNew / HDerive) unless it is already there (in-place controlled_by)"""
        if id(obj) not in self.reg:
            self.reg[id(obj)] = len(self.keep)
            self.keep.append(obj)
            self.hops.append(hop)

    def view(self, obj):
        return cbool(bool(obj.is_controlled_by)), cnats([int(q) for q in obj._control_qubits]), cnats([int(q) for q in obj.target_qubits])

    def zi(self, M):
        if not self.exact:
            return None
        return c01.zmat(np.round(M.real) + 1j * np.round(M.imag))

    exact = True

    def hnew(self, gid):
        if not (self.real and self.exact):
            return
        obj = self.g[gid]
        f, cs, ts = self.view(obj)
        self.register(gid, obj, f"HNew ((({f}, {cs}), {ts}), {cmat(self.zi(self.intent(gid)[2]))})")

    def hderive(self, gid, src_obj, dag):
        if not (self.real and self.exact):
            return
        obj = self.g[gid]
        if id(src_obj) not in self.reg:
            self.model_ok = False
            return
        f, cs, ts = self.view(obj)
        src = self.reg[id(src_obj)]
        if not obj.is_controlled_by and obj._control_qubits and (not src_obj._control_qubits or src in self.forced):
            # fall-back of controlled_by to a dedicated class (CRX, CU1, CNOT, TOFFOLI, ...) and objects derived from it:
            # modelled in controlled_by form with the base matrix (same operator by apply_gate_ok)
            f = "true"
            if id(obj) not in self.reg:
                self.forced.add(len(self.keep))
        self.register(gid, obj, f"HDerive {src}%nat {cbool(dag)} {f} {cs} {ts}")

    def hcirc(self, cid):
        if not (self.real and self.exact):
            return
        from qibo import gates
        c = self.c[cid]
        refs = []
        for g in c.queue:
            if isinstance(g, gates.FusedGate):
                ids = [self.reg.get(id(x)) for x in g.gates]
                if None in ids:
                    self.model_ok = False
                    ids = [i for i in ids if i is not None]
                refs.append(f"RFused {cnats([int(q) for q in g.target_qubits])} {cnats(ids)}")
            elif id(g) in self.reg:
                refs.append(f"RGate {self.reg[id(g)]}%nat")
            else:
                self.model_ok = False
        train = [self.reg.get(id(g)) for g in c.trainable_gates]
        if None in train:
            self.model_ok = False
            train = [i for i in train if i is not None]
        self.cidx[cid] = len(self.cidx)
        q = "[" + "; ".join(refs) + "]" if refs else "(@nil qref)"
        self.hops.append(f"HCirc {{| c_n := {c.nqubits}%nat; c_queue := {q}; c_train := {cnats(train)} |}}")

    # ---------------------------------------------------------------- operations
    def new_circuit(self, cid, n, gids):
        self.csh[cid] = {"n": n, "queue": list(gids), "fused": False, "settable": True,
                         "train": [g for g in gids if is_param(self.sh[g]) and self.sh[g]["trainable"]]}
        if self.real:
            from qibo import Circuit
            c = Circuit(n, density_matrix=(self.mode == "dm"))
            for g in gids:
                c.add(self.g[g])
            self.c[cid] = c
            self.hcirc(cid)

    def make(self, gid, cls, qubits, params, trainable):
        self.sh[gid] = {"cls": cls, "qubits": list(qubits), "params": copy.deepcopy(params), "trainable": bool(trainable),
                        "ctrl": [], "dag": False}
        if not self.real:
            return
        from qibo import gates
        if cls == "Unitary":
            obj = gates.Unitary(self.value(params, cls), *qubits, trainable=trainable, check_unitary=False)
        elif cls in cat()["param"]:
            obj = getattr(gates, cls)(*qubits, *ctor_values(cls, params), trainable=trainable)
        else:
            obj = getattr(gates, cls)(*qubits)
        self.g[gid] = obj
        self.hnew(gid)

    def set_shadow(self, gid, params):
        sh = self.sh[gid]
        if not is_param(sh):
            raise HistoryError("parameters of a fixed gate")
        sh["params"] = copy.deepcopy(params)
        if sh["dag"]:                       # documented: the action of dagger is overwritten by a parameter update
            sh["dag"] = False
            if self.real:
                # the dagger of every parametrised class is an object of the same class; a one-control fall-back object
                # (CRX, CU1, ...) keeps its shadow (base class + control)
                name = type(self.g[gid]).__name__
                if name != sh["cls"] and name not in cat()["builtin"] and (name in cat()["param"] or name == "Unitary"):
                    sh["cls"] = name

    def apply(self, op):
        kind = op[0]
        gids = {"circ": op[3] if kind == "circ" else [], "setg": [op[1]], "matrix": [op[1]], "ctrl": [op[2]] if kind == "ctrl" else [],
                "dag": [op[2]] if kind == "dag" else [], "gonq": [op[2]] if kind == "gonq" else []}.get(kind, [])
        cids = {"exec": [op[1]], "unitary": [op[1]], "fmatrix": [op[1]], "setc": [op[1]], "fuse": [op[2]] if kind == "fuse" else [],
                "copy": [op[2]] if kind == "copy" else [], "invert": [op[2]] if kind == "invert" else [],
                "add": op[2:4] if kind == "add" else [], "onq": [op[2]] if kind == "onq" else []}.get(kind, [])
        if any(g not in self.sh for g in gids) or any(c not in self.csh for c in cids):
            raise HistoryError(f"dangling reference in {kind}")
        getattr(self, "op_" + kind)(*op[1:])

    def op_gate(self, gid, cls, qubits, params, trainable):
        self.make(gid, cls, qubits, params, trainable)

    def op_circ(self, cid, n, gids):
        self.new_circuit(cid, n, gids)

    def op_setg(self, gid, params):
        self.set_shadow(gid, params)
        if self.real:
            self.g[gid].parameters = self.value(params, self.sh[gid]["cls"])
            if self.exact and id(self.g[gid]) in self.reg:
                self.hops.append(f"HSet {self.reg[id(self.g[gid])]}%nat {cmat(self.zi(self.base_matrix(gid)))}")

    def base_matrix(self, gid):
        return self.intent(gid)[2]

    def op_setc(self, cid, fmt, plist):
        cs = self.csh[cid]
        if not cs["settable"] or len(plist) != len(cs["train"]):
            raise HistoryError("setc")
        for g, p in zip(cs["train"], plist):
            self.set_shadow(g, p)
        if not self.real:
            return
        classes = [self.sh[g]["cls"] for g in cs["train"]]
        if fmt in ("flat", "array") and ("Unitary" in classes or "GeneralizedfSim" in classes):
            fmt = "list"
        if fmt == "dict" and len(set(cs["train"])) != len(cs["train"]):
            fmt = "list"
        c = self.c[cid]
        if cs["fused"] and c.trainable_gates.nparams != sum(g.nparams for g in c.trainable_gates):
            # older trees: Circuit._shallow_copy rebuilt trainable_gates with an empty .set and nparams = 0, so a fused circuit
            # rejected the dict / flat formats with KeyError / ValueError (raises, outside the property text; repaired since)
            fmt = "list"
        vals = [self.value(p, k) for p, k in zip(plist, classes)]
        if fmt == "list":
            c.set_parameters(vals)
        elif fmt == "dict":
            c.set_parameters({self.g[g]: v for g, v in zip(cs["train"], vals)})
        else:
            flat = [x for p in plist for x in p]
            c.set_parameters(self.track_in("parameter array", np.array(flat)) if fmt == "array" else flat)
        if self.exact:
            Ms = "[" + "; ".join(cmat(self.zi(self.base_matrix(g))) for g in cs["train"]) + "]" if cs["train"] else "(@nil (mat Zi))"
            self.hops.append(f"HSetCirc {self.cidx[cid]}%nat {Ms}")

    def op_fuse(self, new, cid, maxq):
        s = self.csh[cid]
        self.csh[new] = {"n": s["n"], "queue": list(s["queue"]), "train": list(s["train"]), "fused": True, "settable": s["settable"]}
        if self.real:
            self.c[new] = self.c[cid].fuse(max_qubits=maxq)
            self.hcirc(new)

    def derived_circuit(self, new, n, src_gids, transform, real_circuit, src_objs, dag):
        gids = []
        for k, g in enumerate(src_gids):
            sh = copy.deepcopy(self.sh[g])
            transform(sh)
            gid = f"{new}.{k}"
            self.sh[gid] = sh
            gids.append(gid)
        self.csh[new] = {"n": n, "queue": gids, "fused": False, "settable": True,
                         "train": [g for g in gids if is_param(self.sh[g]) and self.sh[g]["trainable"]]}
        if self.real:
            if len(real_circuit.queue) != len(gids):
                raise RuntimeError("derived circuit has a different number of gates")
            for gid, obj, src in zip(gids, real_circuit.queue, src_objs):
                self.g[gid] = obj
                self.hderive(gid, src, dag)
            self.c[new] = real_circuit
            self.hcirc(new)

    def op_copy(self, new, cid, deep):
        s = self.csh[cid]
        if not deep:
            if s["fused"]:
                self.csh[new] = {"n": s["n"], "queue": list(s["queue"]), "train": [], "fused": True, "settable": False}
                if self.real:
                    self.c[new] = self.c[cid].copy(deep=False)
                    self.hcirc(new)
            else:
                self.csh[new] = {"n": s["n"], "queue": list(s["queue"]), "fused": False, "settable": True,
                                 "train": [g for g in s["queue"] if is_param(self.sh[g]) and self.sh[g]["trainable"]]}
                if self.real:
                    self.c[new] = self.c[cid].copy(deep=False)
                    self.hcirc(new)
            return
        if s["fused"]:
            raise HistoryError("deep copy of a fused circuit")
        rc = self.c[cid].copy(deep=True) if self.real else None
        self.derived_circuit(new, s["n"], s["queue"], lambda sh: None, rc, [self.g[g] for g in s["queue"]] if self.real else [], False)

    def op_invert(self, new, cid):
        s = self.csh[cid]
        if s["fused"]:
            raise HistoryError("invert of a fused circuit")

        def tr(sh):
            sh["dag"] = not sh["dag"]
        rc = self.c[cid].invert() if self.real else None
        src = s["queue"][::-1]
        self.derived_circuit(new, s["n"], src, tr, rc, [self.g[g] for g in src] if self.real else [], True)

    def op_add(self, new, c1, c2):
        a, b = self.csh[c1], self.csh[c2]
        if a["fused"] or b["fused"] or a["n"] != b["n"]:
            raise HistoryError("add")
        q = a["queue"] + b["queue"]
        self.csh[new] = {"n": a["n"], "queue": q, "fused": False, "settable": True,
                         "train": [g for g in q if is_param(self.sh[g]) and self.sh[g]["trainable"]]}
        if self.real:
            self.c[new] = self.c[c1] + self.c[c2]
            self.hcirc(new)

    def op_onq(self, new, cid, n_new, qubits):
        s = self.csh[cid]
        if s["fused"] or len(qubits) != s["n"]:
            raise HistoryError("onq")

        def tr(sh):
            sh["qubits"] = [qubits[q] for q in sh["qubits"]]
            sh["ctrl"] = [qubits[q] for q in sh["ctrl"]]
        rc = None
        if self.real:
            from qibo import Circuit
            rc = Circuit(n_new, density_matrix=(self.mode == "dm"))
            rc.add(self.c[cid].on_qubits(*qubits))
        self.derived_circuit(new, n_new, s["queue"], tr, rc, [self.g[g] for g in s["queue"]] if self.real else [], False)

    def op_ctrl(self, new, gid, controls):
        src = self.sh[gid]
        if src["ctrl"] or src["cls"] in cat()["builtin"] or set(controls) & set(src["qubits"]):
            raise HistoryError("ctrl")
        if not self.real:
            sh = copy.deepcopy(src)
            sh["ctrl"] = list(controls)
            self.sh[new] = sh
            self.consumed = getattr(self, "consumed", set()) | {gid}
            return
        obj = self.g[gid]
        res = obj.controlled_by(*controls)
        if res is obj:
            src["ctrl"] = list(controls)
            self.sh[new] = src
            self.g[new] = obj
            if self.exact and id(obj) in self.reg:
                self.hops.append(f"HCtrlInPlace {self.reg[id(obj)]}%nat {cnats([int(q) for q in obj._control_qubits])}")
        else:
            sh = copy.deepcopy(src)
            sh["ctrl"] = list(controls)
            self.sh[new] = sh
            self.g[new] = res
            self.hderive(new, obj, False)

    def op_dag(self, new, gid):
        sh = copy.deepcopy(self.sh[gid])
        sh["dag"] = not sh["dag"]
        self.sh[new] = sh
        if self.real:
            self.g[new] = self.g[gid].dagger()
            if is_param(sh):
                sh["trainable"] = bool(getattr(self.g[new], "trainable", True))
            self.hderive(new, self.g[gid], True)

    def op_gonq(self, new, gid, qmap):
        qmap = {int(k): int(v) for k, v in qmap.items()}
        sh = copy.deepcopy(self.sh[gid])
        sh["qubits"] = [qmap[q] for q in sh["qubits"]]
        sh["ctrl"] = [qmap[q] for q in sh["ctrl"]]
        self.sh[new] = sh
        if self.real:
            self.g[new] = self.g[gid].on_qubits(qmap)
            self.hderive(new, self.g[gid], False)

    # ---------------------------------------------------------------- observations
    def op_exec(self, cid, init):
        if not self.real:
            return
        n = self.csh[cid]["n"]
        if self.mode == "dm":
            st0 = np_matrix(init)
        else:
            st0 = np.array([complex(a, b) for a, b in init], dtype=complex)
        snap = st0.tobytes()
        res = self.c[cid](initial_state=st0)
        got = np.asarray(res.state())
        if st0.tobytes() != snap:
            self.issues.append(("input-mutated", f"initial state of exec {cid}"))
        self.outputs.append((f"state returned by exec {cid}", got, got.copy()))
        self.obs.append({"kind": "exec", "cid": cid, "n": n, "init": init, "got": got.copy(), "intents": self.intents(cid),
                         "at": len(self.hops)})
        if self.exact:
            self.hops.append((f"HExecDM {self.cidx[cid]}%nat {cmat(init)}" if self.mode == "dm"
                              else f"HExec {self.cidx[cid]}%nat {cvec(init)}"))

    def op_unitary(self, cid):
        if not self.real:
            return
        got = np.asarray(self.c[cid].unitary(backend()))
        self.outputs.append((f"matrix returned by unitary {cid}", got, got.copy()))
        self.obs.append({"kind": "unitary", "cid": cid, "n": self.csh[cid]["n"], "got": got.copy(), "intents": self.intents(cid),
                         "at": len(self.hops)})
        if self.exact:
            self.hops.append(f"HUnitary {self.cidx[cid]}%nat")

    def op_matrix(self, gid):
        if not self.real:
            return
        got = np.asarray(self.g[gid].matrix(backend()))
        self.outputs.append((f"matrix returned by gate {gid}", got, got.copy()))
        cs, qs, M = self.intent(gid)
        obj = self.g[gid]
        if obj.is_controlled_by or not self.sh[gid]["ctrl"]:
            exp = M
        else:                               # fall-back object of a dedicated controlled class: full matrix on (control, target)
            exp = py_cembed(len(cs) + len(qs), list(range(len(cs))), list(range(len(cs), len(cs) + len(qs))), M)
        self.obs.append({"kind": "matrix", "gid": gid, "got": got.copy(), "exp": exp})

    def op_fmatrix(self, cid):
        if not self.real:
            return
        from qibo import gates
        for g in self.c[cid].queue:
            if isinstance(g, gates.FusedGate):
                g.matrix(backend())

    def finish(self):
        for label, arr, snap in self.inputs:
            if arr.tobytes() != snap:
                self.issues.append(("input-mutated", label))
        for label, arr, snap in self.outputs:
            if arr.shape != snap.shape or arr.tobytes() != snap.tobytes():
                self.issues.append(("output-changed-later", label))


def run_history(hist, real=True):
    w = World(hist["mode"], real)
    w.exact = bool(hist["exact"])
    for op in hist["ops"]:
        w.apply(op)
    if real:
        w.finish()
    return w


# ------------------------------------------------------------------ judging one history
def expected(ob, mode):
    """python reference for one observation"""
    if ob["kind"] == "matrix":
        return ob["exp"]
    U = py_circ(ob["n"], ob["intents"])
    if ob["kind"] == "unitary":
        return U
    if mode == "dm":
        rho = np_matrix(ob["init"])
        return U @ rho @ U.conj().T
    return U @ np.array([complex(a, b) for a, b in ob["init"]], dtype=complex)


def py_bad(w):
    """indices of observations that differ from the python reference (TEST level; used for float histories, shrinking, and as
    a cross-check of the reference itself on exact histories)"""
    bad = []
    for k, ob in enumerate(w.obs):
        exp = expected(ob, w.mode)
        got = ob["got"]
        if got.shape != exp.shape or np.abs(got - exp).max() > TOL * max(1.0, float(np.abs(exp).max())):
            bad.append(k)
    return bad


def gapp(intent, zi):
    cs, ts, M = intent
    return f"(({cnats(cs)}, {cnats(ts)}), {cmat(zi(M))})"


def round_zi(a):
    """Gaussian-integer reading of an output, None when it is off the lattice"""
    a = np.asarray(a)
    R = np.round(a.real) + 1j * np.round(a.imag)
    if np.abs(a - R).max() > 1e-9 * max(1.0, float(np.abs(a).max())) or np.abs(R).max() >= c01.LIMIT:
        return None
    return R


def coq_term(w):
    """one Coq term per exact history: [machine observation k = implementation ...] ++ [Spec k = implementation ...]
    Returns (term, indices of the observations it covers) or (None, reason)"""
    zi = w.zi
    exp_obs, specs, idxs = [], [], []
    for k, ob in enumerate(w.obs):
        if ob["kind"] == "matrix":
            continue
        R = round_zi(ob["got"])
        if R is None:
            return None, k
        its = "([" + "; ".join(gapp(i, zi) for i in ob["intents"]) + "] : list (gapp Zi))" if ob["intents"] else "(@nil (gapp Zi))"
        n = ob["n"]
        if ob["kind"] == "unitary":
            ex = cmat(c01.zmat(R))
            exp_obs.append(f"OMat (Some {ex})")
            specs.append(f"meqb (circ_mat Ziops {n}%nat {its}) {ex}")
        elif w.mode == "dm":
            ex = cmat(c01.zmat(R))
            exp_obs.append(f"OMat (Some {ex})")
            specs.append(f"meqb (sandwich Ziops zi_conj {n}%nat (circ_mat Ziops {n}%nat {its}) {cmat(ob['init'])}) {ex}")
        else:
            ex = cvec(c01.zvec(R))
            exp_obs.append(f"OVec (Some {ex})")
            specs.append(f"veqb (mvmul Ziops (circ_mat Ziops {n}%nat {its}) {cvec(ob['init'])}) {ex}")
        idxs.append(k)
    ops = "([" + ";\n   ".join(w.hops) + "] : list H)"
    exps = "([" + ";\n   ".join(exp_obs) + "] : list (obs (T:=Zi)))"
    return (f"(obs_eqbs (run_history Ziops zi_conj {ops}) {exps} ++ [{'; '.join(specs)}])"), idxs


def eval_terms(run, name, terms, chunk=7):
    """one Eval per term; returns a list of bool lists (None where Coq failed)"""
    from lib import vcore
    chunks = [terms[i:i + chunk] for i in range(0, len(terms), chunk)]

    def one(ic):
        i, ts = ic
        vals = run.coq_eval(f"{name}_{i}.v", HEADER, ts, timeout=1500)
        if vals is None:
            return [None] * len(ts)
        return [vcore.parse_bools(v) for v in vals]
    with ThreadPoolExecutor(max_workers=8) as ex:
        res = list(ex.map(one, list(enumerate(chunks))))
    return [r for rs in res for r in rs]


# ------------------------------------------------------------------ generators
def rand_unitary_params(rng, k, exact):
    d = 2 ** k
    if exact:
        while True:
            M = [[c01.rand_zi(rng, 1, 0.45) for _ in range(d)] for _ in range(d)]
            if all(any(x != [0, 0] for x in row) for row in M) and c01.row_growth(M) <= 4:
                return [M]
    A = np.array([[complex(rng.gauss(0, 1), rng.gauss(0, 1)) for _ in range(d)] for _ in range(d)])
    Q, _ = np.linalg.qr(A)
    return [[[[float(x.real), float(x.imag)] for x in row] for row in Q]]


def rand_params(rng, cls, exact):
    if cls == "GeneralizedfSim":
        phi = rng.choice([0.0, math.pi / 2, math.pi, -math.pi / 2]) if exact else round(rng.uniform(-3.0, 3.0), 4)
        return [rand_unitary_params(rng, 1, exact)[0], phi]
    if exact:
        return list(rng.choice(cat()["exact"][cls]))
    nq, npar = cat()["param"][cls]
    from lib import qtrace
    for _ in range(20):
        p = [rng.choice([1e-3, -1e-3, math.pi - 1e-3, 0.0]) if rng.random() < 0.15 else round(rng.uniform(-3.0, 3.0), 4)
             for _ in range(npar)]
        try:
            qtrace.make_gate(cls, list(range(nq)), p)
            return p
        except ValueError:
            continue
    return [0.0] * npar


# iSWAP is left out: its dagger is an open finding of C05 (dagger:iSWAP*), which `invert` would re-report here
FIXED = ["X", "Y", "Z", "S", "CNOT", "CZ", "SWAP"]


def new_params(rng, sh, exact):
    if sh["cls"] == "Unitary":
        return rand_unitary_params(rng, len(sh["qubits"]), exact)
    return rand_params(rng, sh["cls"], exact)


def rand_gate(rng, n, exact, gid, classes=None, trainable=None, max_q=2):
    """a 'gate' operation on random (non-ascending) qubits"""
    C = cat()
    pool = classes or (sorted(C["exact"]) if exact else sorted(C["param"]))
    r = rng.random()
    if classes is None and r < 0.25:
        k = rng.randint(1, min(max_q, n))
        qs = rng.sample(range(n), k)
        cls, params = "Unitary", rand_unitary_params(rng, k, exact)
    elif classes is None and r < 0.35:
        names = [nm for nm in FIXED if NAMED[nm][0] + NAMED_ARITY[nm] <= n] if exact else ["H", "X", "CNOT", "T", "SX", "CZ"]
        cls = rng.choice([nm for nm in names if (2 if nm in ("CNOT", "CZ", "SWAP") else 1) <= n])
        qs = rng.sample(range(n), 2 if cls in ("CNOT", "CZ", "SWAP") else 1)
        return ["gate", gid, cls, qs, [], True]
    else:
        cls = rng.choice([c for c in pool if C["param"][c][0] <= min(n, 3)])
        qs = rng.sample(range(n), C["param"][cls][0])
        params = rand_params(rng, cls, exact)
    tr = (rng.random() > 0.3) if trainable is None else trainable
    return ["gate", gid, cls, qs, params, tr]


def rand_init(rng, n, mode):
    if mode == "dm":
        from harness import c02
        return c02.rand_rho(rng, n, rng.choice(["hermitian", "general", "pure"]))
    return c01.rand_state(rng, n, 2)


class Gen:
    """random histories from the grammar; the shadow world says which operations are legal"""

    def __init__(self, rng, mode, exact, tag):
        self.rng, self.mode, self.exact = rng, mode, exact
        self.w = World(mode, real=False)
        self.w.exact = exact
        self.ops, self.k = [], 0
        self.tag = tag
        self.loose = []          # gate ids never put in a circuit and not consumed

    def emit(self, op):
        self.w.apply(op)
        self.ops.append(op)

    def fresh(self, p):
        self.k += 1
        return f"{p}{self.k}"

    def growth_ok(self, cid):
        if not self.exact:
            return True
        tot = 8 * 4 ** self.w.csh[cid]["n"]
        for g in self.w.csh[cid]["queue"]:
            sh = self.w.sh[g]
            f = max(2, c01.row_growth(sh["params"][0])) if sh["cls"] in ("Unitary", "GeneralizedfSim") else 2
            tot *= f * f if self.mode == "dm" else f
        return tot < c01.LIMIT // 64

    def observe(self, cid, unitary=None):
        if not self.growth_ok(cid):
            return
        self.emit(["exec", cid, rand_init(self.rng, self.w.csh[cid]["n"], self.mode)])
        if unitary if unitary is not None else self.rng.random() < 0.3:
            self.emit(["unitary", cid])

    def settable(self):
        dead = getattr(self.w, "consumed", set())
        return [c for c, s in self.w.csh.items() if s["settable"] and s["train"] and not (set(s["queue"]) & dead)]

    def setc(self, cid):
        tr = self.w.csh[cid]["train"]
        self.emit(["setc", cid, self.rng.choice(FMT), [new_params(self.rng, self.w.sh[g], self.exact) for g in tr]])

    def param_gids(self):
        used = {g for s in self.w.csh.values() for g in s["queue"]}
        return sorted(g for g in used if is_param(self.w.sh[g]) and g not in getattr(self.w, 'consumed', set()))

    def step(self):
        rng, w = self.rng, self.w
        # circuits holding a gate that was later handed to controlled_by are only observed (final()): whether controlled_by
        # mutated that gate in place or returned a new object is decided by the implementation at run time
        dead = getattr(w, "consumed", set())
        cids = sorted(c for c in w.csh if not (set(w.csh[c]["queue"]) & dead))
        plain = [c for c in cids if not w.csh[c]["fused"]]
        r = rng.choice(["exec"] * 3 + ["setc"] * 3 + ["setg"] * 3 + ["fuse"] * 2 + ["copy", "deep", "invert", "add", "onq", "unitary",
                                                                                   "ctrl", "ctrl", "dag", "matrix", "fmatrix"])
        if r == "exec":
            self.observe(rng.choice(cids))
        elif r == "unitary":
            self.emit(["unitary", rng.choice(cids)])
        elif r == "setc" and self.settable():
            self.setc(rng.choice(self.settable()))
        elif r == "setg" and self.param_gids():
            g = rng.choice(self.param_gids())
            self.emit(["setg", g, new_params(rng, w.sh[g], self.exact)])
        elif r == "fuse":
            self.emit(["fuse", self.fresh("c"), rng.choice(cids), rng.choice([1, 2, 2, 3])])
        elif r == "copy":
            self.emit(["copy", self.fresh("c"), rng.choice(cids), False])
        elif r == "deep" and plain:
            self.emit(["copy", self.fresh("c"), rng.choice(plain), True])
        elif r == "invert" and plain:
            self.emit(["invert", self.fresh("c"), rng.choice(plain)])
        elif r == "add" and plain:
            a = rng.choice(plain)
            b = rng.choice([c for c in plain if w.csh[c]["n"] == w.csh[a]["n"]])
            if len(w.csh[a]["queue"]) + len(w.csh[b]["queue"]) <= 8:
                self.emit(["add", self.fresh("c"), a, b])
        elif r == "onq" and plain:
            a = rng.choice(plain)
            n = w.csh[a]["n"]
            n_new = n + rng.choice([0, 0, 1]) if n < 4 else n
            self.emit(["onq", self.fresh("c"), a, n_new, rng.sample(range(n_new), n)])
        elif r == "ctrl":
            self.ctrl_story()
        elif r == "dag" and [g for g in self.param_gids() if w.sh[g]["trainable"]]:
            # gate-level dagger() of a trainable=False gate: some classes rebuild from init_kwargs (flag kept), others from
            # positional arguments (flag reset to True) - outside the property, so only trainable sources are used
            g = rng.choice([g for g in self.param_gids() if w.sh[g]["trainable"]])
            d = self.fresh("g")
            self.emit(["dag", d, g])
            n = max(w.sh[d]["qubits"] + w.sh[d]["ctrl"]) + 1
            c = self.fresh("c")
            self.emit(["circ", c, max(n, rng.choice([2, 3])), [d]])
            self.observe(c)
        elif r == "matrix" and self.param_gids():
            self.emit(["matrix", rng.choice(self.param_gids())])
        elif r == "fmatrix":
            self.emit(["fmatrix", rng.choice(cids)])

    def ctrl_story(self, cls=None, nctrl=None, trainable=None, pre_exec=None):
        """a loose gate: construct [-> execute in a throw-away circuit] -> update parameters in place -> controlled_by(k controls)
        -> put in a circuit -> execute"""
        rng = self.rng
        C = cat()
        pool = [c for c in (sorted(C["exact"]) if self.exact else sorted(C["param"])) if c not in C["builtin"]]
        cls = cls or rng.choice(pool + ["Unitary"] * 3)
        nctrl = nctrl or rng.choice([1, 1, 2, 3])
        nq = 1 if cls == "Unitary" else C["param"][cls][0]
        n = min(nq + nctrl + rng.choice([0, 1]), 4)
        nctrl = min(nctrl, n - nq)
        if nctrl < 1:
            return
        perm = rng.sample(range(n), n)
        qs, cs = perm[:nq], perm[nq:nq + nctrl]
        g = self.fresh("g")
        if cls == "Unitary":
            params = rand_unitary_params(rng, nq, self.exact)
        else:
            params = rand_params(rng, cls, self.exact)
        tr = (rng.random() < 0.5) if trainable is None else trainable
        self.emit(["gate", g, cls, qs, params, tr])
        if pre_exec if pre_exec is not None else rng.random() < 0.5:
            t = self.fresh("c")
            self.emit(["circ", t, n, [g]])
            self.observe(t, unitary=False)
        for _ in range(rng.choice([1, 1, 2])):
            self.emit(["setg", g, new_params(rng, self.w.sh[g], self.exact)])
        d = self.fresh("g")
        self.emit(["ctrl", d, g, cs])
        c = self.fresh("c")
        self.emit(["circ", c, n, [d]])
        self.observe(c, unitary=True)
        if rng.random() < 0.5:
            self.emit(["setg", d, new_params(rng, self.w.sh[d], self.exact)])
            self.observe(c, unitary=False)

    def base(self, n, ngates, dup=False, classes=None):
        gids = []
        for _ in range(ngates):
            g = self.fresh("g")
            self.emit(rand_gate(self.rng, n, self.exact, g, classes=classes))
            gids.append(g)
        if dup and gids:
            gids.insert(self.rng.randrange(len(gids) + 1), self.rng.choice(gids))
        c = self.fresh("c")
        self.emit(["circ", c, n, gids])
        return c

    def final(self):
        for cid in sorted(self.w.csh):
            self.observe(cid, unitary=(self.rng.random() < 0.25))

    def hist(self):
        return {"mode": self.mode, "exact": self.exact, "tag": self.tag, "ops": self.ops}


def random_history(rng, mode, exact, i):
    gen = Gen(rng, mode, exact, f"random{i}")
    n = rng.choice([2, 3, 3] if exact else [2, 3, 3, 4])
    c = gen.base(n, rng.randint(2, 4), dup=rng.random() < 0.25)
    gen.observe(c)
    for _ in range(rng.randint(4, 8)):
        for _try in range(4):
            before = len(gen.ops)
            try:
                gen.step()
            except HistoryError:
                pass
            if len(gen.ops) > before:
                break
    gen.final()
    return gen.hist()


def corpus(rng, mode, exact, rot=None):
    """deterministic stories (the shapes are fixed, the data is drawn from rng): one per family / alias route.
    rot = (k, m): exact per-class stories only for the classes with index = k mod m (quick tier: every class is covered by the
    float stories on every run and by the exact ones on every m-th seed)"""
    out = []
    C = cat()
    pool = sorted(C["exact"]) if exact else sorted(C["param"])
    keep = (lambda j: True) if rot is None else (lambda j: j % rot[1] == rot[0] % rot[1])

    # A1: execute -> update through the circuit / the gate / an alias -> execute again, for every parametrised class + Unitary
    for j, cls in enumerate(pool + ["Unitary"]):
        if not keep(j) and cls != "Unitary":
            continue
        gen = Gen(rng, mode, exact, f"alias:{cls}")
        nq = 1 if cls == "Unitary" else C["param"][cls][0]
        n = min(nq + 1, 3) if nq < 3 else 3
        g0, g1, g2 = gen.fresh("g"), gen.fresh("g"), gen.fresh("g")
        gen.emit(rand_gate(rng, n, exact, g0, classes=None if cls == "Unitary" else [cls], trainable=True) if cls != "Unitary"
                 else ["gate", g0, "Unitary", rng.sample(range(n), nq), rand_unitary_params(rng, nq, exact), True])
        gen.emit(["gate", g1, "Unitary", rng.sample(range(n), 1), rand_unitary_params(rng, 1, exact), j % 2 == 0])
        gen.emit(rand_gate(rng, n, exact, g2, classes=[rng.choice([c for c in pool if C['param'][c][0] <= n])], trainable=True))
        c = gen.fresh("c")
        gen.emit(["circ", c, n, [g0, g1, g2]])
        f = gen.fresh("c")
        gen.emit(["fuse", f, c, 2 if n < 3 else rng.choice([2, 3])])
        s = gen.fresh("c")
        gen.emit(["copy", s, c, False])
        gen.observe(c)
        gen.observe(f)
        gen.setc(c)                      # through the source: the fused and the shallow alias must follow
        gen.observe(f, unitary=True)
        gen.observe(s)
        gen.emit(["setg", g0, new_params(rng, gen.w.sh[g0], exact)])     # through the gate object
        gen.observe(f)
        gen.observe(c)
        gen.setc(f)                      # through the fused alias
        gen.observe(c)
        gen.observe(f)
        gen.setc(s)                      # through the shallow alias
        gen.observe(f, unitary=True)
        ff = gen.fresh("c")
        gen.emit(["fuse", ff, f, 3])     # fuse of a fused circuit
        gen.observe(ff)
        gen.emit(["setg", g2, new_params(rng, gen.w.sh[g2], exact)])
        gen.observe(ff)
        gen.observe(f)
        out.append(gen.hist())

    # A2 / D: trainable=False and trainable=True gates updated in place, then controlled_by with 1, 2, 3 controls
    ctrl_classes = [c for c in pool if c not in C["builtin"]] + ["Unitary"]
    for j, cls in enumerate(ctrl_classes):
        if not keep(j + 1) and cls not in ("Unitary", "RX", "U3"):
            continue
        gen = Gen(rng, mode, exact, f"ctrl-after-update:{cls}")
        for nctrl in (1, 2, 3):
            for tr in (False, True):
                if nctrl == 3 and tr and cls != "Unitary":
                    continue
                gen.ctrl_story(cls=cls, nctrl=nctrl, trainable=tr, pre_exec=(nctrl == 1))
        out.append(gen.hist())

    # A3 / C / E: derived circuits (invert, deep copy, on_qubits, +) taken AFTER an update, then the source is updated again
    for j in range(4 if exact else 6):
        gen = Gen(rng, mode, exact, f"derive{j}")
        n = rng.choice([2, 3])
        c = gen.base(n, 3, dup=(j % 2 == 1))
        gen.observe(c)
        if gen.settable():
            gen.setc(c)
        inv, dp, onq, add = gen.fresh("c"), gen.fresh("c"), gen.fresh("c"), gen.fresh("c")
        gen.emit(["invert", inv, c])
        gen.emit(["copy", dp, c, True])
        gen.emit(["onq", onq, c, n + 1 if n < 3 else n, rng.sample(range(n + 1 if n < 3 else n), n)])
        if len(gen.w.csh[c]["queue"]) <= 4:
            gen.emit(["add", add, c, c])
        for x in (inv, dp, onq, add):
            if x in gen.w.csh:
                gen.observe(x)
        if gen.settable():
            gen.setc(c)              # the source moves on: snapshots must not follow, `+` (shared objects) must
        for x in (inv, dp, onq, add, c):
            if x in gen.w.csh:
                gen.observe(x, unitary=(x == add))
        if inv in gen.settable():
            gen.setc(inv)            # documented: a parameter update overwrites the action of dagger
            gen.observe(inv)
            gen.observe(c)
        out.append(gen.hist())
    return out


def histories(run, rng, mode):
    quick = run.tier != "thorough"
    hs = []
    for exact in (True, False):
        hs += corpus(rng, mode, exact, rot=(run.seed, 3) if (quick and exact) else None)
        nrand = (24 if exact else 50) if quick else (150 if exact else 300)
        hs += [random_history(rng, mode, exact, i) for i in range(nrand)]
    return hs


# ------------------------------------------------------------------ driver
def describe_op(op):
    if op[0] == "gate":
        return f"{op[1]}={op[2]}{tuple(op[3])}" + ("" if op[5] else "[trainable=False]")
    if op[0] in ("exec",):
        return f"exec({op[1]})"
    if op[0] in ("setc", "setg"):
        return f"{op[0]}({op[1]})"
    return f"{op[0]}({','.join(str(x) for x in op[1:] if not isinstance(x, (list, dict)))})"


def story(hist, upto=None):
    return " -> ".join(describe_op(op) for op in hist["ops"][:upto])[-700:]


def failing(hist):
    """(world, list of bad observation indices, issues) by the python reference; exceptions of the real code are issues"""
    try:
        w = run_history(hist)
    except HistoryError:
        raise
    except Exception as e:       # a well-formed history must run
        return None, [], [("raises", f"{type(e).__name__}: {e}")]
    return w, py_bad(w), list(w.issues)


def shrink(hist, budget=90):
    """greedy removal of operations while the python reference still reports a failure"""
    def fails(h):
        try:
            w, bad, issues = failing(h)
        except Exception:
            return False
        return bool(bad) or bool(issues)
    cur = hist
    w, bad, issues = failing(cur)
    if w is not None and bad:      # cut after the first failing observation
        seen = -1
        for pos, op in enumerate(cur["ops"]):
            if op[0] in ("exec", "unitary", "matrix"):
                seen += 1
                if seen == bad[0]:
                    cand = dict(cur, ops=cur["ops"][:pos + 1])
                    if fails(cand):
                        cur = cand
                    break
    i = len(cur["ops"]) - 2
    while i >= 0 and budget > 0:
        cand = dict(cur, ops=cur["ops"][:i] + cur["ops"][i + 1:])
        budget -= 1
        try:
            if fails(cand):
                cur = cand
        except Exception:
            pass
        i -= 1
    for pos, op in enumerate(list(cur["ops"])):      # drop members of circuits
        if op[0] == "circ" and len(op[3]) > 1:
            j = len(op[3]) - 1
            while j >= 0 and budget > 0 and len(cur["ops"][pos][3]) > 1:
                cop = cur["ops"][pos]
                cand = dict(cur, ops=cur["ops"][:pos] + [cop[:3] + [cop[3][:j] + cop[3][j + 1:]]] + cur["ops"][pos + 1:])
                budget -= 1
                try:
                    if fails(cand):
                        cur = cand
                except Exception:
                    pass
                j -= 1
    used = {g for op in cur["ops"] if op[0] != "gate" for x in op[1:] for g in (x if isinstance(x, list) else [x]) if isinstance(g, str)}
    cand = dict(cur, ops=[op for op in cur["ops"] if op[0] != "gate" or op[1] in used])
    try:
        if fails(cand):
            cur = cand
    except Exception:
        pass
    return cur


def key_of(hist, w, k):
    sig = hist["tag"].split(":")[0].rstrip("0123456789")
    ob = w.obs[k] if w is not None and k is not None else None
    what = ob["kind"] if ob else "run"
    classes = sorted({op[2] for op in hist["ops"] if op[0] == "gate"})
    kinds = [op[0] for op in hist["ops"] if op[0] in ("fuse", "copy", "invert", "add", "onq", "ctrl", "dag", "gonq")]
    return f"history:{hist['mode']}:{what}:{'+'.join(sorted(set(kinds))) or 'plain'}:{'+'.join(classes)[:60]}"


def check(run, rng, mode):
    """run every history; exact ones are judged inside Coq, float ones by the python reference"""
    hs = histories(run, rng, mode)
    terms, metas = [], []
    nobs = nfloat = 0
    reported = set()

    groups, suppressed = {}, [0]

    def report(hist, what, concrete=True, keyhint=None):
        """at most 3 findings per (mode, observation kind, derivation route) and 8 per run are shrunk and reported; the others
        are counted in the notes"""
        if keyhint in reported or len(reported) >= 8:
            suppressed[0] += 1
            return
        small = shrink(hist) if concrete else hist
        w, bad, issues = (None, [], [])
        try:
            w, bad, issues = failing(small)
        except Exception:
            pass
        key = keyhint or key_of(small, w, bad[0] if bad else None)
        grp = key.rsplit(":", 1)[0]
        if key in reported or groups.get(grp, 0) >= 3:
            suppressed[0] += 1
            return
        reported.add(key)
        groups[grp] = groups.get(grp, 0) + 1
        run.find(key, f"{what}; history: {story(small)}", {"mechanism": "history", "history": small}, concrete=concrete)

    for hist in hs:
        try:
            w, bad, issues = failing(hist)
        except HistoryError as e:
            run.notes.setdefault("history_generator_errors", []).append(f"{hist['tag']}: {e}")
            continue
        run.case(["history", hist["mode"], hist["exact"], hist["tag"], hist["ops"]], nontrivial=True)
        for kind, label in issues:
            if kind == "raises":
                report(hist, f"a well-formed history raised {label}")
            elif kind == "input-mutated":
                report(hist, f"a user-supplied array was modified by the call ({label})", keyhint=f"history:{mode}:input-mutated:{label.split(' of ')[0]}")
            elif kind == "output-changed-later":
                report(hist, f"a returned array changed after later calls ({label})", keyhint=f"history:{mode}:output-changed:{label.split(' by ')[0]}")
            else:
                report(hist, f"the matrix of a FRESH gate differs from the documented formula ({label})", keyhint=f"history:fresh-matrix:{label.split('(')[0]}")
        if w is None:
            continue
        nobs += len(w.obs)
        if not hist["exact"]:
            nfloat += 1
            if bad:
                ob = w.obs[bad[0]]
                report(hist, f"TEST level (1e-12): observation #{bad[0]} ({ob['kind']} of {ob.get('cid', ob.get('gid'))}) after this history "
                             "differs from the operator of a from-scratch rebuild of the current parameters")
            continue
        mbad = [k for k in bad if w.obs[k]["kind"] == "matrix"]
        if mbad:
            report(hist, f"gate.matrix() after this history differs from the documented matrix at the current parameters (observation #{mbad[0]})")
        if not w.model_ok:
            run.find(f"model:history:{hist['tag']}", "an alias circuit holds gate objects that were never registered (aliasing structure differs "
                     "from the history model)", {"mechanism": "history", "history": hist}, concrete=False)
            if bad:
                report(hist, f"TEST level (1e-12): observation #{bad[0]} after this history differs from the operator of a from-scratch "
                             "rebuild of the current parameters")
            continue
        term, idxs = coq_term(w)
        if term is None:
            report(hist, f"observation #{idxs} is off the exact lattice of the from-scratch operator")
            continue
        terms.append(term)
        metas.append((hist, w, idxs, bad))
    res = eval_terms(run, f"{run.prop}_hist", terms)
    for (hist, w, idxs, bad), bs in zip(metas, res):
        k = len(idxs)
        if bs is None or len(bs) != 2 * k:
            run.find(f"coq-eval:history:{hist['tag']}", "Coq evaluation of this history failed", {"mechanism": "history", "history": hist}, concrete=False)
            continue
        model, spec = bs[:k], bs[k:]
        if not all(spec):
            j = idxs[spec.index(False)]
            ob = w.obs[j]
            report(hist, f"observation #{j} ({ob['kind']} of {ob['cid']}) after this history is not the Coq-specified operator (circ_mat) of a "
                         "from-scratch rebuild of the current parameters")
        elif not all(model):
            run.find(f"model:history:{hist['tag']}", "history machine (C01/History.v) and implementation disagree while the implementation matches the spec",
                     {"mechanism": "history", "history": hist}, concrete=False)
        elif bad and all(w.obs[j]["kind"] != "matrix" for j in bad):
            run.find(f"model:history:pyref:{hist['tag']}", "python reference (transliteration of cembed) disagrees with the Coq spec",
                     {"mechanism": "history", "history": hist}, concrete=False)
    run.notes[f"histories_{mode}"] = {"failing_histories_not_reported_separately": suppressed[0], "histories": len(hs), "exact_in_coq": len(terms), "float_test": nfloat, "observations": nobs}


def replay(run, data):
    hist = data["replay"]["history"]
    try:
        w, bad, issues = failing(hist)
    except Exception as e:
        run.find(data["key"], f"raised {type(e).__name__}: {e}", data["replay"])
        return run.finish(rule="replay of one recorded history")
    again = bool(bad) or bool(issues)
    if w is not None and hist["exact"] and not again and w.model_ok:
        term, idxs = coq_term(w)
        if term is None:
            again = True
        else:
            bs = eval_terms(run, f"{run.prop}_replay", [term])[0]
            again = bs is None or not all(bs[len(idxs):])
    if again:
        run.find(data["key"], data.get("what", ""), data["replay"])
    return run.finish(rule="replay of one recorded history")
