"""C05, compositions of circuit-level operations (families D/E/A of STRENGTHEN_GUIDE.md).

A small grammar of operations
      e ::= Src k | Inv e | Cat e e | Cpy deep e | OnQ map n' e | Fuse max_qubits e
(Circuit.invert / __add__ / copy / on_qubits inside a larger circuit / fuse, sequences of length 2-4) is executed
with the real code on source circuits mixing plain gates, dedicated controlled classes, gates made by the generic
Gate.controlled_by, trainable=False gates, gates whose parameters were updated after construction and Unitary gates.
Every result is compared with
  * the executable Coq model C05/CompModel.eval (token by token: block structure, target and control qubits -- exact),
  * the operator the property text prescribes (C05/CompProofs.sem: adjoint, reversed product, relabelled ...),
    computed by numpy from freshly built *base* gates and an independent control/embedding routine: for every member
    gate of the result (FusedGate members included) and for Circuit.unitary() of the whole result (tolerance 1e-9),
and the source circuits must not have moved (input non-mutation, exact).
"""
import numpy as np

from lib import qtrace

MODEL_HEADER = ("From Coq Require Import List Bool Arith.\nFrom QV Require Import C05.CompModel.\nImport ListNotations.\n"
                "Definition show_tok t := (src t, dagp t, tq t, cq t).\n"
                "Definition show_item it := match it with G t => (false, [show_tok t]) | B ms => (true, map show_tok ms) end.\n"
                "Definition show e := (option_map (map show_item) (eval e), fuse_perm_ok e).\n")
EXCLUDE = {"iSWAP"}          # open known finding (dagger of iSWAP), reported by the per-class stream
TOL = 1e-9


# ------------------------------------------------------------------ independent operator routines
def cembed(n, ctrls, qs, M):
    """operator on n qubits (qubit 0 most significant) applying M to qubits qs where all ctrls are 1"""
    dim, k = 2 ** n, len(qs)
    U = np.zeros((dim, dim), dtype=complex)
    for x in range(dim):
        bits = [(x >> (n - 1 - q)) & 1 for q in range(n)]
        if not all(bits[c] for c in ctrls):
            U[x, x] = 1
            continue
        col = 0
        for q in qs:
            col = (col << 1) | bits[q]
        for row in range(2 ** k):
            amp = M[row, col]
            if amp != 0:
                nb = list(bits)
                for j, q in enumerate(qs):
                    nb[q] = (row >> (k - 1 - j)) & 1
                y = 0
                for b in nb:
                    y = (y << 1) | b
                U[y, x] += amp
    return U


def gate_operator(g, n):
    """operator of a real gate object: controlled_by-form gates act where all controls are 1 (Base/Mat.cembed),
    all others apply their matrix on .qubits (Base/Mat.embed) -- the reading of qtrace.op_coq"""
    M = np.asarray(g.matrix())
    if g.is_controlled_by:
        return cembed(n, list(g.control_qubits), list(g.target_qubits), M)
    return cembed(n, [], list(g.qubits), M)


# ------------------------------------------------------------------ source gates
def catalogue(nq):
    out = []
    for name, a, ps in qtrace.catalogue():
        if name in EXCLUDE or a > nq or a == 0:
            continue
        out.append((name, a, len(ps)))
    return sorted(out)


def rand_params(rng, cls, npar, special):
    vals = [round(rng.uniform(0.1, 0.7), 3) for _ in range(npar)]
    if special and npar and cls != "MS":
        vals[rng.randrange(npar)] = rng.choice([0.0, np.pi, -np.pi / 2, 1e-3, 2 * np.pi])
    return vals


def rand_matrix(rng, k):
    d = 2 ** k
    return [[[rng.randint(-3, 3), rng.randint(-3, 3)] for _ in range(d)] for _ in range(d)]


def rand_spec(rng, nq, cat):
    """one source gate: JSON-able description"""
    kind = rng.random()
    if kind < 0.12:
        k = rng.choice([1, 1, 2]) if nq >= 3 else 1
        nctrl = rng.choice([0, 1, 1, 2]) if nq - k >= 2 else rng.choice([0, 1])
        qs = rng.sample(range(nq), k + nctrl)
        return {"cls": "Unitary", "targets": qs[:k], "controls": qs[k:], "params": rand_matrix(rng, k),
                "trainable": rng.random() < 0.7, "updated": rng.random() < 0.4, "upd_first": rng.random() < 0.5}
    name, a, npar = rng.choice(cat)
    probe = qtrace.make_gate(name, list(range(a)), [0.1] * npar)
    nctrl = 0
    if not probe.control_qubits and nq - a >= 1 and rng.random() < 0.5:
        nctrl = rng.choice([1, 1, 2]) if nq - a >= 2 else 1
    qs = rng.sample(range(nq), a + nctrl)
    return {"cls": name, "targets": qs[:a], "controls": qs[a:], "params": rand_params(rng, name, npar, rng.random() < 0.15),
            "trainable": (rng.random() < 0.65) if npar else None, "updated": bool(npar) and rng.random() < 0.35,
            "upd_first": rng.random() < 0.5}


def to_matrix(p):
    return np.array([[complex(a, b) for a, b in row] for row in p])


def base_gate(spec, qubits=None):
    """freshly built gate WITHOUT the generic controls, with the final parameter values"""
    from qibo import gates
    qs = list(spec["targets"]) if qubits is None else list(qubits)
    if spec["cls"] == "Unitary":
        return gates.Unitary(to_matrix(spec["params"]), *qs, check_unitary=False)
    return getattr(gates, spec["cls"])(*qs, *spec["params"])


def real_gate(spec):
    """the gate as the user builds it: trainable flag, optional update after construction (before or after
    controlled_by), generic controls through the real Gate.controlled_by"""
    from qibo import gates
    kw = {} if spec["trainable"] is None else {"trainable": spec["trainable"]}
    qs = list(spec["targets"])
    upd = spec["updated"]
    if spec["cls"] == "Unitary":
        M = to_matrix(spec["params"])
        g = gates.Unitary((M.T * 2 + 1) if upd else M, *qs, check_unitary=False, **kw)
        final = (M,)
    else:
        ps = spec["params"]
        init = [0.25 + 0.125 * j for j in range(len(ps))] if upd else ps
        g = getattr(gates, spec["cls"])(*qs, *init, **kw)
        final = ps[0] if len(ps) == 1 else tuple(ps)
    if upd and spec["upd_first"]:
        g.parameters = final
    if spec["controls"]:
        g = g.controlled_by(*spec["controls"])
    if upd and not spec["upd_first"]:
        g.parameters = final
    return g


class Src:
    """a source circuit: specs, the real Circuit, tokens and expected operators of its gates"""

    def __init__(self, sid, n, specs):
        from qibo import Circuit
        self.sid, self.n, self.specs = sid, n, specs
        self.circuit = Circuit(n)
        self.toks, self.base = [], []
        objs = []
        for gi, sp in enumerate(specs):
            if "same_as" in sp:             # the same gate OBJECT at two positions of the queue
                j = sp["same_as"]
                objs.append(objs[j])
                self.circuit.add(objs[j])
                self.base.append(self.base[j])
                self.toks.append(dict(self.toks[j]))
                specs[gi] = {**specs[j], "same_as": j}
                continue
            objs.append(real_gate(sp))
            self.circuit.add(objs[-1])
            b = base_gate(sp)
            self.base.append((list(b.qubits), np.asarray(b.matrix())))
            # expected structure from the base gate and the requested controls only
            self.toks.append({"src": sid * 100 + gi, "dag": False, "tq": list(b.target_qubits),
                              "cq": sorted(list(b.control_qubits) + list(sp["controls"])),
                              "qmap": {q: q for q in range(n)}})

    def snapshot(self):
        return [np.asarray(gate_operator(g, self.n)).copy() for g in self.circuit.queue]


# ------------------------------------------------------------------ mirror of the model (only to print the Fuse oracle
# and to know which qubit map / parity a token carries when its operator is compared)
def t_dg(t):
    return {**t, "dag": not t["dag"]}


def t_rl(m, t):
    return {**t, "tq": [m[q] for q in t["tq"]], "cq": [m[q] for q in t["cq"]], "qmap": {o: m[v] for o, v in t["qmap"].items()}}


def items_flat(items):
    return [t for it in items for t in (it[1] if it[0] == "B" else [it[1]])]


def has_block(items):
    return any(it[0] == "B" for it in items)


def real_items(c):
    out = []
    for g in c.queue:
        if type(g).__name__ == "FusedGate":
            out.append(("B", list(g.gates)))
        else:
            out.append(("G", g))
    return out


class Refused(Exception):
    pass


def evaluate(e, srcs):
    """-> (real circuit | None if refused, mirror items | None, n, expected operator, coq text)"""
    from qibo import Circuit
    op = e[0]
    if op == "src":
        s = srcs[e[1]]
        U = np.eye(2 ** s.n, dtype=complex)
        for (qs, M), sp in zip(s.base, s.specs):
            U = cembed(s.n, list(sp["controls"]), qs, M) @ U
        return s.circuit, [("G", t) for t in s.toks], s.n, U, "(Src " + coq_toks(s.toks) + ")"
    if op == "cat":
        c1, i1, n1, U1, t1 = evaluate(e[1], srcs)
        c2, i2, n2, U2, t2 = evaluate(e[2], srcs)
        txt = f"(Cat {t1} {t2})"
        if i1 is None or i2 is None:
            return None, None, n1, None, txt
        return c1 + c2, i1 + i2, n1, U2 @ U1, txt
    sub = e[-1]
    c, items, n, U, txt = evaluate(sub, srcs)
    if op == "inv":
        txt = f"(Inv {txt})"
        if items is None:
            return None, None, n, None, txt
        inv = [("B", [t_dg(t) for t in it[1]][::-1]) if it[0] == "B" else ("G", t_dg(it[1])) for it in items][::-1]
        return c.invert(), inv, n, U.conj().T, txt
    if op == "cpy":
        txt = f"(Cpy {'true' if e[1] else 'false'} {txt})"
        if items is None:
            return None, None, n, None, txt
        if e[1] and has_block(items):
            expect_refusal(lambda: c.copy(deep=True), "copy(deep=True) of a fused circuit")
            return None, None, n, None, txt
        return c.copy(deep=e[1]), items, n, U, txt
    if op == "onq":
        m, n2 = e[1], e[2]
        txt = f"(OnQ {qtrace.nat_list(m)} {txt})"
        if items is None:
            return None, None, n2, None, txt
        if has_block(items):
            expect_refusal(lambda: list(c.on_qubits(*m)), "on_qubits of a fused circuit")
            return None, None, n2, None, txt
        big = Circuit(n2)
        big.add(c.on_qubits(*m))
        return big, [("G", t_rl(m, it[1])) for it in items], n2, cembed(n2, [], list(m), U), txt
    if op == "fuse":
        if items is None or has_block(items):
            return None, None, n, None, f"(Fuse [] {txt})"
        f = c.fuse(max_qubits=e[1])
        pre = {id(g): it[1] for g, it in zip(c.queue, items)}
        if len(c.queue) != len(items):
            raise Mismatch("structure", "queue length differs from the model before fuse")
        out = []
        for kind, g in real_items(f):
            try:
                out.append(("B", [pre[id(m)] for m in g]) if kind == "B" else ("G", pre[id(g)]))
            except KeyError:
                raise Mismatch("structure", "fused circuit contains a gate object that is not in its source queue")
        return f, out, n, U, f"(Fuse {coq_items(out)} {txt})"
    raise ValueError(op)


class Mismatch(Exception):
    def __init__(self, kind, what):
        super().__init__(what)
        self.kind, self.what = kind, what


def expect_refusal(thunk, what):
    try:
        thunk()
    except NotImplementedError:
        return
    except Exception as ex:  # noqa: BLE001
        raise Mismatch("raises", f"{what} raises {type(ex).__name__}: {ex} (documented refusal is NotImplementedError)")
    # accepted instead of refused: nothing the property forbids


def coq_tok(t):
    return (f"(mktok {t['src']} {'true' if t['dag'] else 'false'} {qtrace.nat_list(t['tq'])} {qtrace.nat_list(t['cq'])})")


def coq_toks(ts):
    return "[" + "; ".join(coq_tok(t) for t in ts) + "]" if ts else "(@nil tok)"


def coq_items(items):
    if not items:
        return "(@nil item)"
    return "[" + "; ".join(("(B " + coq_toks(it[1]) + ")") if it[0] == "B" else ("(G " + coq_tok(it[1]) + ")") for it in items) + "]"


def parse_show(s):
    """printed value of `show e` -> (None | [(is_block, [(src, dag, tq, cq)])], perm_ok)"""
    import re
    t = s.replace("%nat", "").replace(";", ",").replace("true", "True").replace("false", "False").replace("nil", "[]")
    t = re.sub(r"\bSome\b", "", t).replace("None", "None")
    return eval(t, {"__builtins__": {}}, {})  # noqa: S307  (Coq output: tuples, lists, ints, booleans)


# ------------------------------------------------------------------ expressions
def chain(e):
    op = e[0]
    if op == "src":
        return "src"
    if op == "cat":
        return f"add({chain(e[1])},{chain(e[2])})"
    name = {"inv": "invert", "cpy": "copy", "onq": "on_qubits", "fuse": "fuse"}[op]
    if op == "cpy" and e[1]:
        name = "copy_deep"
    return f"{name}({chain(e[-1])})"


def rand_expr(rng, depth, n, nsrc, fused=False):
    """expression over circuits on n qubits; returns (expr, n_out, contains_block)"""
    if depth == 0:
        return ["src", rng.randrange(nsrc)], n, False
    ops = ["inv", "inv", "cat", "cpy", "onq", "fuse", "fuse"]
    op = rng.choice(ops)
    if op == "cat":
        d1 = rng.randrange(depth)
        e1, n1, b1 = rand_expr(rng, d1, n, nsrc)
        e2, n2, b2 = rand_expr(rng, depth - 1 - d1, n, nsrc)
        if n1 != n2:
            return ["inv", e1], n1, b1
        return ["cat", e1, e2], n1, b1 or b2
    e, n1, b = rand_expr(rng, depth - 1, n, nsrc)
    if op == "inv":
        return ["inv", e], n1, b
    if op == "cpy":
        deep = rng.random() < 0.6
        if deep and b and rng.random() < 0.8:
            deep = False
        return ["cpy", deep, e], n1, b
    if op == "onq":
        if b and rng.random() < 0.85:
            return ["inv", e], n1, b
        n2 = min(5, n1 + rng.choice([0, 1, 1]))
        return ["onq", rng.sample(range(n2), n1), n2, e], n2, b
    if b:
        return ["inv", e], n1, b
    return ["fuse", rng.choice([2, 2, 3, n1]), e], n1, True


FIXED_SHAPES = [           # deterministic corpus first: the compositions named in the task
    lambda: ["inv", ["fuse", 2, ["src", 0]]],
    lambda: ["inv", ["fuse", 3, ["src", 0]]],
    lambda: ["fuse", 3, ["inv", ["src", 0]]],
    lambda: ["inv", ["cat", ["src", 0], ["src", 1]]],
    lambda: ["inv", ["cpy", True, ["src", 0]]],
    lambda: ["inv", ["onq", [3, 0, 2], 4, ["src", 0]]],
    lambda: ["cat", ["src", 0], ["inv", ["fuse", 3, ["src", 0]]]],
    lambda: ["inv", ["inv", ["fuse", 2, ["cat", ["src", 1], ["src", 0]]]]],
    lambda: ["cpy", False, ["inv", ["fuse", 3, ["onq", [1, 2, 0], 3, ["src", 1]]]]],
    lambda: ["fuse", 2, ["cat", ["inv", ["src", 0]], ["cpy", True, ["src", 0]]]],
]


def make_case(rng, i):
    if i < 2 * len(FIXED_SHAPES):
        n, expr = 3, FIXED_SHAPES[i % len(FIXED_SHAPES)]()
    else:
        n = rng.choice([3, 3, 4])
        expr, _, _ = rand_expr(rng, rng.choice([2, 2, 3, 3, 4]), n, 2)
    cat = catalogue(n)
    specs = []
    for _ in range(2):
        sp = [rand_spec(rng, n, cat) for _ in range(rng.randint(3, 6))]
        # every source holds at least one generic-controlled member and one plain gate
        if not any(s["controls"] for s in sp):
            free = [s for s in cat if not qtrace.make_gate(s[0], list(range(s[1])), [0.1] * s[2]).control_qubits and s[1] < n]
            name, a, npar = rng.choice(free)
            qs = rng.sample(range(n), a + 1)
            sp.insert(rng.randrange(len(sp) + 1), {"cls": name, "targets": qs[:a], "controls": qs[a:], "params": rand_params(rng, name, npar, False),
                                                   "trainable": True if npar else None, "updated": False, "upd_first": True})
        if rng.random() < 0.2:
            j = rng.randrange(len(sp))
            if "same_as" not in sp[j]:
                sp.insert(rng.randint(j + 1, len(sp)), {"same_as": j})
        specs.append(sp)
    return {"n": n, "specs": specs, "expr": expr}


# ------------------------------------------------------------------ running one case against the real code
def run_case(case):
    """-> (coq text | None, [(kind, detail, what)], real queue shape | None)"""
    srcs = [Src(k, case["n"], sp) for k, sp in enumerate(case["specs"])]
    before = [s.snapshot() for s in srcs]
    problems = []
    try:
        c, items, n, U, txt = evaluate(case["expr"], srcs)
    except Mismatch as m:
        return None, [(m.kind, "", m.what)], None
    except Exception as ex:  # noqa: BLE001
        return None, [("raises", type(ex).__name__, f"{chain(case['expr'])} raises {type(ex).__name__}: {ex}")], None
    # input non-mutation: the sources still hold the same operators
    for s, b in zip(srcs, before):
        a = s.snapshot()
        if len(a) != len(b) or any(not np.array_equal(x, y) for x, y in zip(a, b)):
            problems.append(("mutated", "", "a source circuit changed while a circuit was derived from it"))
    if items is None:
        return txt, problems, None
    real = real_items(c)
    flat_real = [g for k, g in real for g in (g if k == "B" else [g])]
    flat_model = items_flat(items)
    shape_real = [(k == "B", [(list(g.target_qubits), sorted(g.control_qubits)) for g in (g if k == "B" else [g])]) for k, g in real]
    # operator of every member against the token's prescription
    spec_of = {s.sid * 100 + gi: (s.specs[gi], s.base[gi]) for s in srcs for gi in range(len(s.specs))}
    if len(flat_real) == len(flat_model):
        for g, t in zip(flat_real, flat_model):
            sp, (qs, M) = spec_of[t["src"]]
            want = cembed(n, [t["qmap"][q] for q in sp["controls"]], [t["qmap"][q] for q in qs], M.conj().T if t["dag"] else M)
            try:
                got = gate_operator(g, n)
            except Exception as ex:  # noqa: BLE001
                problems.append(("member", sp["cls"], f"matrix of member {type(g).__name__} raises {type(ex).__name__}: {ex}"))
                continue
            d = float(np.abs(got - want).max())
            if d > TOL:
                problems.append(("member", sp["cls"] + (".controlled_by" if sp["controls"] else ""),
                                 f"member {type(g).__name__} on targets {g.target_qubits} controls {g.control_qubits} is not the "
                                 f"{'adjoint of the ' if t['dag'] else ''}operator of {sp['cls']} (max diff {d:.3g})"))
                break
    try:
        got = np.asarray(c.unitary())
        d = float(np.abs(got - U).max())
        # the prescription is built from the case's recorded parameters (rounded to ~1e-10 in the replayable spec): the
        # admissible deviation of a PRODUCT grows with the number of factors (observed 2.5e-9 on 30 gates in the thorough
        # tier); a wrong operator is off by 1e-2 or more
        if d > TOL * max(1, len(flat_real)):
            problems.append(("operator", "", f"Circuit.unitary() of {chain(case['expr'])} differs from the prescribed operator (max diff {d:.3g})"))
    except Exception as ex:  # noqa: BLE001
        problems.append(("raises", type(ex).__name__, f"unitary() of {chain(case['expr'])} raises {type(ex).__name__}: {ex}"))
    return txt, problems, shape_real


def compare_structure(val, shape_real):
    """Coq `show e` value vs the real queue; -> list of problems"""
    model, perm_ok = parse_show(val)
    out = []
    if not perm_ok:
        out.append(("structure", "", "the fused queue is not a regrouping of the gates of its source queue (fuse_perm_ok = false)"))
    if shape_real is None:
        if model is not None:
            out.append(("structure", "", "the model accepts an expression the harness treated as refused"))
        return out
    if model is None:
        out.append(("structure", "", "the model refuses an expression the real code executed"))
        return out
    m = [(b, [(list(tq), sorted(cq)) for (_s, _d, tq, cq) in ts]) for b, ts in model]
    if m != shape_real:
        out.append(("structure", "", f"queue of the result differs from the model: real {shape_real} model {m}"))
    return out
