"""C20  Library circuit constructors build what they document.

Static theorems: coq/theories/C20/{Model,Proofs,Props}.v.
Per run:
 (a) QFT: the real QFT(n) gate list (n = 1..5, 6 in the thorough tier, with and without swaps) is traced symbolically and
     `circuit operator = 2^{-n/2} [omega^{xy}]` (rows bit-reversed without swaps) is proved in Coq by
     Base/TrigMat.mcheck_eq -- BOUNDED INSTANCES; exact structural correspondence of the gate list
     with the Gallina generator `qft n` for n <= 12.
 (b)-(e) exact structural correspondence of the gate lists of comp_basis_encoder, ghz_state,
     phase_encoder, unary_encoder (tree / diagonal pairs), _ehrlich_algorithm (all (n,k), n <= 10, plus
     shifted and malformed initial strings), hamming_weight_encoder (gate skeleton) with the models.
 data level ('test', tolerance 1e-10): amplitudes of encoder(data)() against data/||data|| on data with
     zeros, negatives, sparse vectors, complex entries where documented.
 angle level (C20/Angles.v, C20/PropsAngles.v: the acos / arctan2 / norm formulas of _generate_rbs_angles over the reals satisfy
     the load equations, all n; complex data of hamming_weight_encoder incl. RZ layers and phase correction): the real angle
     lists of unary_encoder / hamming_weight_encoder / binary_encoder are spied and compared with the model's exact rational
     cos^2 (fractions.Fraction, 1e-13) + signs + zero-norm guard + range; numpy.arctan2 / math.acos are contract-checked (1e-15)
     on every argument the real code passed to them; complex data: gate layout, thetas, and the phase equations of the phis.
 constructor histories (harness/c20_purity.py, C20/Store.v, C20/PropsStore.v): every constructor is a function of its arguments --
     build / build-same / build-other / caller mutation / rebuild / execute, every earlier snapshot re-checked after each step, no gate
     object shared between two returned circuits or with module-level tables, data arguments not mutated.
"""
STATIC = ["C20/Props", "C20/PropsAngles", "C20/PropsStore", "C20/PropsDist", "Base/TrigMat"]
import ast
import hashlib
import itertools
import json
import math
import random
import re
import warnings

import numpy as np

from lib import qtrace, vcore, symtrace as st

HEADER = """From Coq Require Import List Bool Arith.
From QV Require Import C20.Model.
Import ListNotations.
"""
TOL = 1e-10


def parse_coq(v):
    s = v.replace(";", ",").replace("Some", "").replace("true", "True").replace("false", "False")
    s = re.sub(r"%\w+", "", s)
    return ast.literal_eval(s)


def tolist(x):
    if isinstance(x, (tuple, list)):
        return [tolist(e) for e in x]
    return x


def coq_bits(bs):
    bs = list(bs)
    return "[" + "; ".join("true" if int(b) else "false" for b in bs) + "]" if bs else "(@nil bool)"


# ------------------------------------------------------------------ (a) QFT
def qft_canon(c):
    out = []
    for g in c.queue:
        nm = type(g).__name__
        if nm == "H":
            out.append([0, [int(g.qubits[0])], 0])
        elif nm == "CU1":
            th = g.parameters[0]
            k = next((k for k in range(0, 64) if th == math.pi / 2 ** k), None)
            out.append([1, [int(g.control_qubits[0]), int(g.target_qubits[0])], -1 if k is None else k])
        elif nm == "SWAP":
            out.append([2, [int(q) for q in g.target_qubits], 0])
        else:
            out.append([99, [int(q) for q in g.qubits], 0])
    return out


def qft_structure(run, nmax):
    from qibo.models import QFT
    exprs, reals = [], []
    for n in range(1, nmax + 1):
        for sw in (True, False):
            exprs.append(f"map qcode (qft {n} {'true' if sw else 'false'})")
            reals.append((n, sw, qft_canon(QFT(n, with_swaps=sw))))
    vals = run.coq_eval("C20_qft_struct.v", HEADER, exprs)
    if vals is None:
        run.find("coq:C20_qft_struct", "generated file does not compile", {}, concrete=False)
        return
    for (n, sw, real), v in zip(reals, vals):
        run.case(["qft-structure", n, sw])
        if tolist(parse_coq(v)) != real:
            run.find(f"corr:qft:structure:{n}:{sw}", "QFT gate list differs from the documented ladder (model `qft n`)",
                     {"n": n, "with_swaps": sw, "real": real[:40]}, concrete=False)
        if n <= 8:
            d = qft_numeric(n, sw)
            if d > 1e-9:
                run.find(f"qft:dft:{n}:{sw}", "QFT(n).unitary() is not the DFT matrix (numeric, tolerance 1e-9)",
                         {"n": n, "with_swaps": sw, "max_abs_diff": d})
    run.sample({"qft_structure": "n=1..%d, both variants" % nmax, "example_n3": reals[4][2]})


def qft_numeric(n, sw):
    from qibo.models import QFT
    N = 2 ** n
    U = np.asarray(QFT(n, with_swaps=sw).unitary())
    F = np.array([[np.exp(2j * np.pi * x * y / N) for y in range(N)] for x in range(N)]) / np.sqrt(N)
    if not sw:
        rev = lambda x: int(format(x, f"0{n}b")[::-1], 2)
        F = np.array([F[rev(x)] for x in range(N)])
    return float(np.abs(U - F).max())


def qft_product_test(run, rng, count):
    """numeric cross-check ('test', tolerance 1e-10) of the product-state phases computed by `prun` in Coq against
    QFT(n)|x> from the numpy backend (the rules themselves are proved sound for the Base/Mat.v matrices:
    pstep_rules_agree_with_matrices)"""
    from qibo.models import QFT
    cases, exprs = [], []
    for _ in range(count):
        n = rng.randint(1, 8)
        x = [rng.randint(0, 1) for _ in range(n)]
        sw = rng.random() < 0.5
        cases.append((n, x, sw))
        exprs.append(f"option_map (fun f : qst => map (fun q => match f q with QP p => p | QB _ => 0 end) (seq 0 {n})) "
                     f"(prun {n} (qft {n} {'true' if sw else 'false'}) (qinit {coq_bits(x)}))")
    vals = run.coq_eval("C20_qft_product.v", HEADER, exprs)
    if vals is None:
        run.find("coq:C20_qft_product", "generated file does not compile", {}, concrete=False)
        return
    for (n, x, sw), v in zip(cases, vals):
        ph = parse_coq(v)
        run.case(["qft_product", n, x, sw])
        init = np.zeros(2 ** n, dtype=complex)
        init[int("".join(map(str, x)), 2)] = 1
        real = np.asarray(QFT(n, with_swaps=sw)(init).state())
        if ph is None:
            run.find(f"corr:qft:product:{n}", "product-state rules do not apply to the QFT gate list", {"n": n, "x": x}, concrete=False)
            continue
        N = 2 ** n
        exp = np.array([np.exp(2j * np.pi * sum(((y >> (n - 1 - q)) & 1) * ph[q] for q in range(n)) / N) for y in range(N)]) / np.sqrt(N)
        if np.abs(real - exp).max() > TOL:
            run.find(f"corr:qft:product:{n}:{sw}", "QFT(n)|x> differs from the product state predicted by the pstep rules",
                     {"n": n, "x": x, "with_swaps": sw, "max_abs_diff": float(np.abs(real - exp).max())}, concrete=False)


def gate_matrix_obligations(run):
    """the matrices used by the all-n theorems qft_ok / qft_ok_state_vector (C20 gate_mat / to_gapp) are the matrices the
    real code builds:  H = h[[1,1],[1,-1]] (h = sqrt2/2),  CU1(pi/2^k) = diag(1,1,1,e^{i pi/2^k}),  SWAP"""
    from fractions import Fraction
    from qibo import gates
    h = "(EMul ESqrt2 (EQ (1 # 2)))"
    one, zero = "(EQ (1 # 1))", "(EQ (0 # 1))"

    def lit(rows):
        return "(MLit [" + "; ".join("[" + "; ".join(r) + "]" for r in rows) + "])"
    terms = []
    with qtrace.patched():
        qtrace.fresh_sym_backend()
        qtrace.setup_vars(0)
        try:
            terms.append(("gate_matrix_H", f"mcheck_eq {qtrace.gate_lit(gates.H(0))} {lit([[h, h], [h, '(ENeg ' + h + ')']])}"))
            sw = [[one, zero, zero, zero], [zero, zero, one, zero], [zero, one, zero, zero], [zero, zero, zero, one]]
            terms.append(("gate_matrix_SWAP", f"mcheck_eq {qtrace.gate_lit(gates.SWAP(0, 1))} {lit(sw)}"))
            for k in range(0, 7):
                ph = f"(ECis (acomb {st.qlit(Fraction(1, 2 ** k))} []))"
                d = [[one, zero, zero, zero], [zero, one, zero, zero], [zero, zero, one, zero], [zero, zero, zero, ph]]
                terms.append((f"gate_matrix_CU1_pi_over_2^{k}", f"mcheck_eq {qtrace.gate_lit(gates.CU1(1, 0, math.pi / 2 ** k))} {lit(d)}"))
        except Exception as e:
            run.find("trace:gate_matrices", f"symbolic tracing of H/CU1/SWAP failed: {type(e).__name__}: {e}", {}, concrete=False)
            return
    ok, out = run.coq_theorems("C20_gate_matrices.v", qtrace.COQ_HEADER,
                               [(re.sub(r"\W", "_", nme), f"{t} = true", "vm_compute; reflexivity.") for nme, t in terms], timeout=600)
    for nme, _ in terms:
        run.oblige(nme, ok, "bridge")
    if not ok:
        run.find("unproved:gate_matrices", "the real H / CU1 / SWAP matrices are no longer the matrices of gate_mat", {"log": out[-800:]}, concrete=False)
    # larger k (outside the tracer's pi-fraction table): exact float comparison of the real matrix
    for k in range(7, 13):
        m = np.asarray(gates.CU1(1, 0, math.pi / 2 ** k).matrix())
        exp = np.diag([1, 1, 1, np.exp(1j * math.pi / 2 ** k)])
        run.case(["cu1_matrix", k], nontrivial=False)
        if np.abs(m - exp).max() > 1e-15:
            run.find(f"qft:cu1-matrix:{k}", "CU1(pi/2^k).matrix() is not diag(1,1,1,e^{i pi/2^k})", {"k": k})


def dft_literal(n, with_swaps):
    from fractions import Fraction
    N = 2 ** n
    rev = lambda x: int(format(x, f"0{n}b")[::-1], 2) if n else 0
    rows = []
    for x in range(N):
        xr = x if with_swaps else rev(x)
        row = []
        for y in range(N):
            fr = Fraction(2 * ((xr * y) % N), N)       # omega^{xy} = e^{i pi * 2xy/N}
            row.append(f"(ECis (acomb {st.qlit(fr)} []))")
        rows.append("[" + "; ".join(row) + "]")
    lit = "[" + "; ".join(rows) + "]"
    if n % 2 == 0:
        sc = f"(EQ {st.qlit(Fraction(1, 2 ** (n // 2)))})"
    else:
        sc = f"(EMul ESqrt2 (EQ {st.qlit(Fraction(1, 2 ** ((n + 1) // 2)))}))"
    return f"(MScale {sc} (MLit {lit}))"


def qft_instances(run, nmax):
    from qibo.models import QFT
    terms = []
    with qtrace.patched():
        qtrace.fresh_sym_backend()
        qtrace.setup_vars(0)
        for n in range(1, nmax + 1):
            for sw in (True, False):
                name = f"qft_is_dft_n{n}_{'swaps' if sw else 'noswaps_bitreversed'}"
                try:
                    gs = list(QFT(n, with_swaps=sw).queue)
                    terms.append((name, f"mcheck_eq {qtrace.circ_coq(gs, n)} {dft_literal(n, sw)}", n, sw))
                except Exception as e:
                    run.oblige(name, False, "untranslatable")
                    run.find(f"trace:qft:{n}:{sw}", f"symbolic tracing of QFT failed: {type(e).__name__}: {e}", {}, concrete=False)
    res, out = run.coq_bools("C20_qft_triage.v", qtrace.COQ_HEADER, [(t[0], t[1]) for t in terms], timeout=1200)
    if res is None:
        run.find("coq:C20_qft", "generated QFT obligations do not compile", {"log": out[-1200:]}, concrete=False)
        return
    good = [t for t in terms if res[t[0]]]
    if good:
        ok, out2 = run.coq_theorems("C20_qft_theorems.v", qtrace.COQ_HEADER,
                                    [(f"ok_{t[0]}", f"{t[1]} = true", "vm_compute; reflexivity.") for t in good], timeout=1200)
        for t in good:
            run.oblige(t[0] + " (bounded instance)", ok, "bounded-instance")
        if not ok:
            run.find("coq:C20_qft_theorems", "theorem file does not compile", {"log": out2[-1200:]}, concrete=False)
    for t in terms:
        if res[t[0]]:
            continue
        n, sw = t[2], t[3]
        d = qft_numeric(n, sw)
        if d > 1e-9:
            run.refuted.append(t[0])      # the concrete finding qft:dft:n:sw is reported by qft_structure
        else:
            run.oblige(t[0], False, "bounded-instance")
            run.find(f"unproved:qft:{n}:{sw}", "QFT instance obligation no longer checks", {"n": n, "with_swaps": sw}, concrete=False)


# ------------------------------------------------------------------ (b) comp_basis / ghz / phase
def simple_encoders(run, rng, count):
    from qibo.models.encodings import comp_basis_encoder, ghz_state, phase_encoder
    exprs, checks = [], []
    for _ in range(count):
        n = rng.randint(1, 10)
        bits = [rng.randint(0, 1) for _ in range(n)]
        form = rng.choice(["str", "list", "tuple", "liststr", "int"])
        if form == "str":
            arg, kw = "".join(map(str, bits)), {}
        elif form == "list":
            arg, kw = list(bits), {}
        elif form == "tuple":
            arg, kw = tuple(bits), {}
        elif form == "liststr":
            arg, kw = [str(b) for b in bits], {}
        else:
            arg, kw = int("".join(map(str, bits)), 2), {"nqubits": n}
        c = comp_basis_encoder(arg, **kw)
        real = [[type(g).__name__, int(g.qubits[0])] for g in c.queue]
        if form == "int":
            exprs.append(f"comp_basis (bits_of_nat {n} {arg})")
        else:
            exprs.append(f"comp_basis {coq_bits(bits)}")
        # data level: the prepared state is the basis state |bits>
        state = np.asarray(c().state())
        idx = int("".join(map(str, bits)), 2)
        okstate = abs(state[idx] - 1) < TOL and c.nqubits == n
        checks.append(("comp_basis", {"bits": bits, "form": form}, [["X", q] for q in range(n) if bits[q]], real, okstate))
    for n in range(2, 13):
        c = ghz_state(n)
        real = [[type(g).__name__] + [int(q) for q in g.qubits] for g in c.queue]
        exprs.append(f"ghz_cnots {n}")
        state = np.asarray(c().state())
        okstate = abs(state[0] - 2 ** -0.5) < TOL and abs(state[-1] - 2 ** -0.5) < TOL and abs(np.linalg.norm(state) - 1) < TOL
        checks.append(("ghz", {"n": n}, None, real, okstate))
    vals = run.coq_eval("C20_simple.v", HEADER, exprs)
    if vals is None:
        run.find("coq:C20_simple", "generated file does not compile", {}, concrete=False)
        return
    for (kind, meta, _, real, okstate), v in zip(checks, vals):
        m = tolist(parse_coq(v))
        run.case([kind, meta])
        if kind == "comp_basis":
            exp = [["X", q] for q in m]
        else:
            exp = [["H", 0]] + [["CNOT", a, b] for a, b in m]
        if exp != real:
            run.find(f"corr:{kind}:structure:{hashlib.sha1(json.dumps(meta).encode()).hexdigest()[:10]}",
                     f"{kind} gate list differs from the model", {**meta, "real": real, "model": exp}, concrete=False)
        if not okstate:
            run.find(f"{kind}:state:{hashlib.sha1(json.dumps(meta).encode()).hexdigest()[:10]}",
                     f"{kind} does not prepare the documented state", meta)
    # phase_encoder: one rotation per qubit carrying data[q]
    for _ in range(count // 2):
        n = rng.randint(1, 8)
        data = [round(rng.uniform(-3, 3), 3) if rng.random() < 0.8 else 0.0 for _ in range(n)]
        rot = rng.choice(["RX", "RY", "RZ"])
        c = phase_encoder(data if rng.random() < 0.5 else np.array(data), rotation=rot)
        real = [[type(g).__name__, int(g.qubits[0]), float(g.parameters[0])] for g in c.queue]
        run.case(["phase_encoder", n, rot, data])
        if real != [[rot, q, float(data[q])] for q in range(n)]:
            run.find(f"phase_encoder:{rot}:{n}", "phase_encoder gate list is not one rotation(q, data[q]) per qubit",
                     {"data": data, "rotation": rot, "real": real})
        # product state check
        state = np.asarray(c().state())
        amp = lambda th, b: {"RX": (math.cos(th / 2), -1j * math.sin(th / 2)), "RY": (math.cos(th / 2), math.sin(th / 2)),
                             "RZ": (np.exp(-1j * th / 2), 0)}[rot][b]
        exp = np.array([np.prod([amp(data[q], (x >> (n - 1 - q)) & 1) for q in range(n)]) for x in range(2 ** n)])
        if np.abs(state - exp).max() > TOL:
            run.find(f"phase_encoder:state:{rot}:{n}", "phase_encoder state is not the product of single-qubit rotations", {"data": data, "rotation": rot})


# ------------------------------------------------------------------ (c) unary encoder
def unary_structure(run):
    from qibo.models.encodings import _generate_rbs_pairs, unary_encoder
    exprs, reals = [], []
    for n in (2, 4, 8, 16, 32):
        c, rows = _generate_rbs_pairs(n, "tree")
        reals.append(("tree", n, [[int(a), int(b)] for row in rows for a, b in row], [[type(g).__name__] + [int(q) for q in g.qubits] for g in c.queue],
                      [[[int(a), int(b)] for a, b in row] for row in rows]))
        exprs.append(f"(rbs_pairs_tree {n}, rbs_rows_tree {n})")
    for n in range(2, 13):
        c, rows = _generate_rbs_pairs(n, "diagonal")
        reals.append(("diagonal", n, [[int(a), int(b)] for row in rows for a, b in row], [[type(g).__name__] + [int(q) for q in g.qubits] for g in c.queue], None))
        exprs.append(f"(rbs_pairs_diagonal {n}, @nil (list (nat * nat)))")
    vals = run.coq_eval("C20_unary.v", HEADER, exprs)
    if vals is None:
        run.find("coq:C20_unary", "generated file does not compile", {}, concrete=False)
        return
    for (arch, n, pairs, gl, rows), v in zip(reals, vals):
        m, mrows = tolist(parse_coq(v))
        run.case(["rbs_pairs", arch, n])
        ok = (m == pairs and gl == [["RBS", a, b] for a, b in pairs] and (rows is None or mrows == rows))
        if ok:
            # the encoder itself: X(n-1) followed by exactly these RBS gates
            c = unary_encoder(np.arange(1.0, n + 1), arch)
            q = [[type(g).__name__] + [int(x) for x in g.qubits] for g in c.queue]
            ok = q == [["X", n - 1]] + [["RBS", a, b] for a, b in pairs]
        if not ok:
            run.find(f"corr:unary:pairs:{arch}:{n}", "_generate_rbs_pairs / unary_encoder gate list differs from the model",
                     {"architecture": arch, "n": n, "real": pairs, "model": m}, concrete=False)


def unary_amplitudes(circuit, n):
    s = np.asarray(circuit().state())
    amps = np.array([s[2 ** i] for i in range(n)])
    rest = np.delete(s, [2 ** i for i in range(n)])
    return amps, rest


def has_zero_block(data):
    """an aligned block data[2^m j : 2^m (j+1)], m >= 1, that is entirely zero (a zero partial norm of the tree)"""
    n = len(data)
    m = 2
    while m <= n:
        for j in range(0, n, m):
            if all(x == 0 for x in data[j:j + m]):
                return True
        m *= 2
    return False


def unary_data(run, rng, count):
    from qibo.models.encodings import unary_encoder
    stats = {"tree": 0, "diagonal": 0, "tree_zero_block_nan": 0}
    fixed = [("tree", [0.0, 0.0, 1.0, 2.0]), ("diagonal", [0.0, 0.0, 1.0, 2.0]), ("tree", [1.0, 2.0, 0.0, 0.0]),
             ("tree", [1.0, 0.0, 0.0, 2.0]), ("diagonal", [0.0, 0.0, 0.0, 1.0]), ("tree", [-1.0, 2.0, -3.0, 4.0]),
             ("diagonal", [-1.0, -2.0, 0.0, -4.0, 0.0])]
    cases = list(fixed)
    for _ in range(count):
        arch = rng.choice(["tree", "diagonal"])
        n = rng.choice([2, 4, 8]) if arch == "tree" else rng.randint(2, 9)
        kind = rng.random()
        data = [round(rng.uniform(-2, 2), 3) for _ in range(n)]
        if kind < 0.5:
            for i in range(n):
                if rng.random() < 0.4:
                    data[i] = 0.0
        if all(x == 0 for x in data):
            data[rng.randrange(n)] = 1.0
        cases.append((arch, data))
    for arch, data in cases:
        n = len(data)
        with warnings.catch_warnings():
            warnings.simplefilter("ignore")
            try:
                amps, rest = unary_amplitudes(unary_encoder(np.array(data, dtype=float), arch), n)
                err = None
            except Exception as e:
                amps, err = None, f"{type(e).__name__}: {e}"
        tgt = np.array(data) / np.linalg.norm(data)
        run.case(["unary_data", arch, data])
        stats[arch] += 1
        ok = err is None and not np.isnan(amps).any() and np.abs(amps - tgt).max() < TOL and np.abs(rest).max() < TOL
        if ok:
            continue
        if arch == "tree" and has_zero_block(data):
            # repaired defect (zero partial norm -> acos(0/0)): a VIOLATION if it returns
            stats["tree_zero_block_nan"] += 1
            run.find("unary:tree:zero-partial-norm:" + json.dumps([int(x) if float(x).is_integer() else x for x in data]).replace(" ", ""),
                     "unary_encoder(data, 'tree') divides by a zero partial norm (acos(0/0)): NaN angles/amplitudes when an aligned "
                     "block data[2^m j : 2^m (j+1)] (m >= 1) is entirely zero",
                     {"data": data, "architecture": arch, "amplitudes": None if amps is None else [str(a) for a in amps], "error": err})
            continue
        run.find(f"unary:data:{arch}:{hashlib.sha1(json.dumps(data).encode()).hexdigest()[:10]}",
                 "unary_encoder amplitudes differ from data/||data||",
                 {"data": data, "architecture": arch, "amplitudes": None if amps is None else [str(a) for a in amps], "error": err})
    # every 0/1 pattern of length 4 and 8 (all placements of all-zero aligned blocks) must be loaded exactly
    bad = []
    for n in (4, 8):
        for pat in itertools.product([0.0, 1.0], repeat=n):
            if not any(pat):
                continue
            with warnings.catch_warnings():
                warnings.simplefilter("ignore")
                try:
                    amps, rest = unary_amplitudes(unary_encoder(np.array(pat), "tree"), n)
                    okp = (not np.isnan(amps).any()) and np.abs(amps - np.array(pat) / np.linalg.norm(pat)).max() < TOL \
                        and np.abs(rest).max() < TOL
                except Exception:
                    okp = False
            run.case(["unary_tree_pattern", list(pat)], nontrivial=has_zero_block(list(pat)))
            stats["tree_zero_block_patterns"] = stats.get("tree_zero_block_patterns", 0) + has_zero_block(list(pat))
            if not okp:
                bad.append(list(pat))
    for pat in bad[:3]:
        run.find("unary:tree:zero-partial-norm:" + json.dumps([int(x) for x in pat]).replace(" ", ""),
                 "unary_encoder(data, 'tree') does not load a 0/1 pattern with an all-zero aligned block",
                 {"data": pat, "architecture": "tree"})
    return stats


# ------------------------------------------------------------------ (d) Ehrlich walk / hamming_weight_encoder
def ehrlich_real(init):
    from qibo.models.encodings import _ehrlich_algorithm
    try:
        strings, tc = _ehrlich_algorithm(np.array(init))
    except Exception as e:
        return None, f"{type(e).__name__}"
    moves = [[int(q[0]), int(q[1]), sorted(int(c) for c in cs)] for q, cs in tc]
    return [[int(ch) for ch in s[::-1]] for s in strings], moves


def ehrlich_corr(run, rng, nmax):
    inits = []
    for n in range(2, nmax + 1):
        for k in range(1, n):
            inits.append([1] * k + [0] * (n - k))
    # shifted blocks of ones (documented as acceptable) and malformed (non-consecutive) strings
    for _ in range(60):
        n = rng.randint(3, 8)
        k = rng.randint(1, n - 1)
        off = rng.randint(0, n - k)
        inits.append([0] * off + [1] * k + [0] * (n - k - off))
    for _ in range(60):
        n = rng.randint(3, 8)
        s = [rng.randint(0, 1) for _ in range(n)]
        if 0 < sum(s) < n:
            inits.append(s)
    stats = {"inputs": 0, "rejected_by_both": 0, "strings": 0}
    for lo in range(0, len(inits), 60):
        chunk = inits[lo:lo + 60]
        exprs = [f"ehrlich {coq_bits(s)}" for s in chunk]
        vals = run.coq_eval(f"C20_ehrlich_{lo // 60}.v", HEADER, exprs, timeout=900)
        if vals is None:
            run.find("coq:C20_ehrlich", "generated file does not compile", {}, concrete=False)
            return stats
        for s, v in zip(chunk, vals):
            m = parse_coq(v)
            real_strings, real_moves = ehrlich_real(s)
            stats["inputs"] += 1
            run.case(["ehrlich", s])
            if real_strings is None:
                stats["rejected_by_both"] += m is None
                agree = m is None
            else:
                stats["strings"] += len(real_strings)
                agree = m is not None and [[int(b) for b in x] for x in m[0]] == real_strings and \
                    [[o, i, sorted(cs)] for (o, i, cs) in m[1]] == real_moves
            if not agree:
                run.find(f"corr:ehrlich:{''.join(map(str, s))}", "Coq model of _ehrlich_algorithm and the implementation disagree",
                         {"initial_string": s, "real_error": real_moves if real_strings is None else None}, concrete=False)
            # direct check of the property on the real output (for the documented inputs: ones consecutive)
            if real_strings is not None and consecutive(s):
                n, k = len(s), sum(s)
                okp = (len(real_strings) == math.comb(n, k) and len({tuple(x) for x in real_strings}) == len(real_strings)
                       and all(sum(x) == k and len(x) == n for x in real_strings)
                       and all(sum(a != b for a, b in zip(x, y)) == 2 for x, y in zip(real_strings, real_strings[1:])))
                if not okp:
                    run.find(f"ehrlich:walk:{''.join(map(str, s))}", "the walk does not visit every weight-k string exactly once by single transpositions",
                             {"initial_string": s})
            elif real_strings is None and consecutive(s):
                run.find(f"ehrlich:raises:{''.join(map(str, s))}", f"_ehrlich_algorithm raises {real_moves} on a documented input", {"initial_string": s})
    return stats


def consecutive(s):
    ones = [i for i, b in enumerate(s) if b]
    return bool(ones) and ones[-1] - ones[0] + 1 == len(ones)


def hw_structure(run, nmax):
    from qibo.models.encodings import hamming_weight_encoder
    exprs, reals = [], []
    for n in range(2, nmax + 1):
        for k in range(1, n):
            for opt in (True, False):
                d = math.comb(n, k)
                c = hamming_weight_encoder(np.arange(1.0, d + 1), n, k, optimize_controls=opt)
                xs = [int(g.qubits[0]) for g in c.queue if type(g).__name__ == "X"]
                gl = [[int(g.target_qubits[0]), int(g.target_qubits[1]), sorted(int(q) for q in g.control_qubits)]
                      for g in c.queue if type(g).__name__ == "RBS"]
                other = [type(g).__name__ for g in c.queue if type(g).__name__ not in ("X", "RBS")]
                reals.append((n, k, opt, xs, gl, other))
                exprs.append(f"(hw_x_gates {n} {k}, hw_gates {n} {k} {'true' if opt else 'false'} (initial_string {n} {k}))")
    vals = run.coq_eval("C20_hw_struct.v", HEADER, exprs, timeout=900)
    if vals is None:
        run.find("coq:C20_hw_struct", "generated file does not compile", {}, concrete=False)
        return
    for (n, k, opt, xs, gl, other), v in zip(reals, vals):
        mx, mg = parse_coq(v)
        run.case(["hw_structure", n, k, opt])
        if other or list(mx) != xs or mg is None or [[a, b, list(cs)] for (a, b, cs) in mg] != gl:
            run.find(f"corr:hw:structure:{n}:{k}:{opt}", "hamming_weight_encoder gate skeleton differs from the model",
                     {"n": n, "k": k, "optimize_controls": opt, "real": gl[:20], "other_gates": other}, concrete=False)


def weight_k_indices(n, k):
    return [x for x in range(2 ** n) if bin(x).count("1") == k]


def hw_data(run, rng, count):
    from qibo.models.encodings import hamming_weight_encoder
    stats = {"real": 0, "complex": 0}
    for t in range(count):
        n = rng.randint(2, 6)
        k = rng.randint(1, n - 1)
        d = math.comb(n, k)
        cplx = rng.random() < 0.4
        data = np.array([round(rng.uniform(-2, 2), 3) for _ in range(d)])
        if cplx:
            data = data + 1j * np.array([round(rng.uniform(-2, 2), 3) for _ in range(d)])
        if rng.random() < 0.5:
            for i in range(d):
                if rng.random() < 0.35:
                    data[i] = 0
        if not np.any(data):
            data[rng.randrange(d)] = 1
        opt = rng.random() < 0.5
        desc = {"n": n, "k": k, "data": [str(x) for x in data], "optimize_controls": opt, "complex": cplx}
        run.case(["hw_data", desc])
        stats["complex" if cplx else "real"] += 1
        with warnings.catch_warnings():
            warnings.simplefilter("ignore")
            try:
                c = hamming_weight_encoder(data, n, k, optimize_controls=opt)
                s = np.asarray(c().state())
                err = None
            except Exception as e:
                s, err = None, f"{type(e).__name__}: {e}"
        idx = weight_k_indices(n, k)
        tgt = data / np.linalg.norm(data)
        ok = err is None and not np.isnan(s).any() and np.abs(s[idx] - tgt).max() < TOL and np.abs(np.delete(s, idx)).max() < TOL
        if not ok:
            run.find(f"hw:data:{hashlib.sha1(json.dumps(desc).encode()).hexdigest()[:10]}",
                     "hamming_weight_encoder amplitudes differ from data/||data|| on the weight-k strings in lexicographic order",
                     {**desc, "error": err, "amplitudes": None if s is None else [str(x) for x in s[idx]]})
    return stats


# ------------------------------------------------------------------ (e) binary encoder
def binary_data(run, rng, count):
    from qibo.models.encodings import binary_encoder
    stats = {"hyperspherical_real": 0, "hyperspherical_complex": 0, "hopf_real": 0, "hopf_zero_block": 0}
    for t in range(count):
        n = rng.randint(1, 4)
        d = 2 ** n
        par = rng.choice(["hyperspherical", "hopf"])
        cplx = par == "hyperspherical" and rng.random() < 0.4
        data = np.array([round(rng.uniform(-2, 2), 3) for _ in range(d)])
        if cplx:
            data = data + 1j * np.array([round(rng.uniform(-2, 2), 3) for _ in range(d)])
        if rng.random() < 0.4:
            for i in range(d):
                if rng.random() < 0.3:
                    data[i] = 0
        if not np.any(data):
            data[rng.randrange(d)] = 1
        desc = {"n": n, "parametrization": par, "data": [str(x) for x in data]}
        run.case(["binary_data", desc])
        with warnings.catch_warnings():
            warnings.simplefilter("ignore")
            try:
                c = binary_encoder(data, parametrization=par)
                s = np.asarray(c().state())
                err = None
            except Exception as e:
                s, err = None, f"{type(e).__name__}: {e}"
        tgt = data / np.linalg.norm(data)
        key = par + ("_complex" if cplx else "_real")
        stats[key] = stats.get(key, 0) + 1
        ok = err is None and not np.isnan(s).any() and np.abs(s - tgt).max() < TOL
        if ok:
            continue
        if par == "hopf" and has_zero_block([float(abs(x)) for x in data]):
            stats["hopf_zero_block"] += 1      # repaired defect (tree angle generator): a VIOLATION if it returns
        run.find(f"binary:data:{hashlib.sha1(json.dumps(desc).encode()).hexdigest()[:10]}",
                 "binary_encoder amplitudes differ from data/||data||", {**desc, "error": err, "state": None if s is None else [str(x) for x in s]})
    return stats


BIN_HOPF_ZERO = []


def binary_structure(run, nmax):
    """gate skeletons of binary_encoder (real data) against hopf_skeleton / hyper_skeleton"""
    from qibo.models.encodings import binary_encoder
    exprs, reals = [], []
    for par, coq in (("hopf", "Some (hopf_skeleton {n})"), ("hyperspherical", "hyper_skeleton {n}")):
        for n in range(1, nmax + 1):
            c = binary_encoder(np.arange(1.0, 2 ** n + 1), parametrization=par)
            q = []
            for g in c.queue:
                nm = type(g).__name__
                if nm == "X":
                    q.append([0, [int(g.qubits[0])]])
                elif nm in ("RY", "CRY"):
                    q.append([1, [int(g.target_qubits[0])] + sorted(int(x) for x in g.control_qubits)])
                elif nm == "RBS":
                    q.append([2, [int(x) for x in g.target_qubits] + sorted(int(x) for x in g.control_qubits)])
                else:
                    q.append([99, [int(x) for x in g.qubits]])
            reals.append((par, n, q))
            exprs.append(coq.format(n=n))
    vals = run.coq_eval("C20_binary_struct.v", HEADER, exprs, timeout=900)
    if vals is None:
        run.find("coq:C20_binary_struct", "generated file does not compile", {}, concrete=False)
        return
    for (par, n, q), v in zip(reals, vals):
        m = parse_coq(v)
        run.case(["binary_structure", par, n])
        if m is None or tolist(m) != q:
            run.find(f"corr:binary:structure:{par}:{n}", "binary_encoder gate skeleton differs from the model",
                     {"parametrization": par, "n": n, "real": q[:30]}, concrete=False)


def hopf_zero_block(run):
    from qibo.models.encodings import binary_encoder
    data = np.array([0.0, 0.0, 1.0, 2.0])
    with warnings.catch_warnings():
        warnings.simplefilter("ignore")
        try:
            s = np.asarray(binary_encoder(data, parametrization="hopf")().state())
            bad = bool(np.isnan(s).any()) or np.abs(s - data / np.linalg.norm(data)).max() > TOL
            err = None
        except Exception as e:
            bad, err, s = True, f"{type(e).__name__}: {e}", None
    run.case(["binary_hopf_zero_block"])
    if bad:
        run.find("binary:hopf:zero-partial-norm:[0,0,1,2]",
                 "binary_encoder(data, 'hopf') uses the tree angle generator and hits the same acos(0/0): NaN amplitudes when an "
                 "aligned block of the data is entirely zero (repaired; a VIOLATION if it returns)", {"data": [0, 0, 1, 2], "error": err, "state": None if s is None else [str(x) for x in s]})


# ------------------------------------------------------------------ (c') angle level: the real angle lists against the Coq angle model
# C20/Angles.v models _generate_rbs_angles over the reals (diag_angles with any arctan2 satisfying the polar contract;
# tree_angle_rows with acos, the zero-norm guard and the 2 pi - theta rule).  cos^2 of every modelled angle is a RATIO OF
# PARTIAL SUMS OF SQUARES (PropsAngles.angle_cos2_is_rational): computed here exactly with fractions.Fraction from the
# binary64 inputs and compared with cos^2 of the angle the real code produced (1e-13), together with the signs of cos / sin
# the model prescribes, the exact 0.0 of the zero-norm guard and the range of the 2 pi - theta rule.  The external functions
# are contract-checked on every argument the real code passed to them during the run (1e-15).
ANGLE_TOL = 1e-13
CONTRACT_TOL = 1e-15


class AngleSpy:
    """records every numpy.arctan2 / math.acos / _generate_rbs_angles call made inside qibo.models.encodings"""

    def __init__(self):
        self.atan2, self.acos, self.calls = [], [], []

    def __enter__(self):
        import qibo.models.encodings as enc
        spy = self
        self.enc = enc
        self.saved = (enc._check_engine, enc.math, enc._generate_rbs_angles)
        real_engine, real_math, real_gen = self.saved

        class NpProxy:
            def __getattr__(self, name):
                return getattr(np, name)

            @staticmethod
            def arctan2(y, x):
                r = np.arctan2(y, x)
                spy.atan2.append((float(y), float(x), float(r)))
                return r

        class MathProxy:
            def __getattr__(self, name):
                return getattr(math, name)

            @staticmethod
            def acos(u):
                r = math.acos(u)
                spy.acos.append((float(u), float(r)))
                return r

        def engine(array):
            e = real_engine(array)
            return NpProxy() if e is np else e

        def gen(data, architecture, nqubits=None):
            out = real_gen(data, architecture, nqubits)
            spy.calls.append(([float(x) for x in np.asarray(data)], architecture, nqubits, [float(x) for x in out]))
            return out
        enc._check_engine, enc.math, enc._generate_rbs_angles = engine, MathProxy(), gen
        return self

    def __exit__(self, *a):
        self.enc._check_engine, self.enc.math, self.enc._generate_rbs_angles = self.saved
        return False


def sgn(x):
    return (x > 0) - (x < 0)


def model_diag_angles(xs):
    """Angles.diag_angles, shadow: per angle (cos^2 numerator, denominator, sign of cos, sign of sin)"""
    d = len(xs)
    suf = [0] * (d + 1)
    for i in range(d - 1, -1, -1):
        suf[i] = suf[i + 1] + xs[i] * xs[i]
    out = [(xs[k] * xs[k], suf[k], sgn(xs[k]), sgn(suf[k + 1]), None) for k in range(d - 2)]
    out.append((xs[d - 2] * xs[d - 2], suf[d - 2], sgn(xs[d - 2]), sgn(xs[d - 1]), None))
    return out


def model_tree_angles(xs):
    """Angles.tree_angle_rows / tree_angles (heap order = concatenation of the levels, root first), shadow as above;
    last component: the interval the modelled angle lies in ('lo' = [0, pi], 'hi' = [pi, 2 pi], 'zero' = exactly 0.0)"""
    from fractions import Fraction
    rows, leaf = [], True
    level = [(sgn(x), x * x) for x in xs]
    while len(level) > 1:
        row, nxt = [], []
        for (sa, qa), (sb, qb) in zip(level[0::2], level[1::2]):
            den = qa + qb
            row.append((qa, den, sa, sb, "zero" if den == 0 else ("hi" if (leaf and sb < 0) else "lo")))
            nxt.append((sgn(den), den))
        rows.insert(0, row)
        level, leaf = nxt, False
    return [e for row in rows for e in row]


def check_angle_list(real, model):
    """(None, _) if the real angle list matches the model, else (description, concrete): concrete = the load equations fail
    (wrong cos / sin, so a wrong state); not concrete = only the correspondence with the model broke (an angle that differs
    from the modelled one by a multiple of 2 pi, or a non-zero angle on a zero partial norm)"""
    if len(real) != len(model):
        return f"{len(real)} angles, model has {len(model)}", True
    soft = None
    for i, (t, (num, den, sc, ss, rng_)) in enumerate(zip(real, model)):
        if not math.isfinite(t):
            return f"angle {i} is {t}", True
        if den == 0:
            if rng_ == "zero" and t != 0.0:
                soft = soft or f"angle {i}: zero partial norm but angle {t} (the guard gives 0.0)"
            continue                    # diagonal: any angle satisfies the load equations when the partial norm is 0
        c2 = float(num / den)
        if abs(math.cos(t) ** 2 - c2) > ANGLE_TOL:
            return f"angle {i}: cos^2 = {math.cos(t) ** 2!r}, model {c2!r} = {num}/{den}", True
        if c2 >= 1e-12 and sgn(math.cos(t)) != sc:
            return f"angle {i}: sign of cos is {sgn(math.cos(t))}, model {sc}", True
        if 1 - c2 >= 1e-12 and sgn(math.sin(t)) != ss:
            return f"angle {i}: sign of sin is {sgn(math.sin(t))}, model {ss}", True
        if rng_ == "lo" and not (0.0 <= t <= math.pi):
            soft = soft or f"angle {i}: {t} outside [0, pi]"
        if rng_ == "hi" and not (math.pi <= t <= 2 * math.pi):
            soft = soft or f"angle {i}: {t} outside [pi, 2 pi]"
    return soft, False


def check_contracts(spy):
    """polar contract of arctan2 (Angles.atan2_contract) and defining property of acos on the recorded calls"""
    bad = []
    for (y, x, t) in spy.atan2:
        r = math.hypot(x, y)
        if not math.isfinite(t) or abs(r * math.cos(t) - x) > CONTRACT_TOL * r or abs(r * math.sin(t) - y) > CONTRACT_TOL * r:
            bad.append(("arctan2", y, x, t))
    for (u, t) in spy.acos:
        if not (0.0 <= t <= math.pi) or abs(math.cos(t) - u) > CONTRACT_TOL:
            bad.append(("acos", u, t))
    return bad


def angle_data(rng, n, kind):
    """rational-friendly data: small integers or 3-digit decimals, with zeros / zero blocks / negatives"""
    if kind == "int":
        data = [float(rng.randint(-5, 5)) for _ in range(n)]
    else:
        data = [round(rng.uniform(-2, 2), 3) for _ in range(n)]
    mode = rng.random()
    if mode < 0.35:
        for i in range(n):
            if rng.random() < 0.4:
                data[i] = 0.0
    elif mode < 0.6 and n >= 4:          # an aligned all-zero block
        m = rng.choice([b for b in (2, 4, 8) if b < n])
        j = rng.randrange(n // m)
        for i in range(j * m, (j + 1) * m):
            data[i] = 0.0
    elif mode < 0.7:
        data = [-abs(x) for x in data]
    if all(x == 0 for x in data):
        data[rng.randrange(n)] = rng.choice([1.0, -1.0])
    return data


def angle_tie(run, rng, count, only=None):
    """only = the replay dict of one recorded finding: re-run exactly that case"""
    from fractions import Fraction
    import qibo.models.encodings as enc
    stats = {"unary_tree": 0, "unary_diagonal": 0, "hw_real": 0, "binary_hopf": 0, "binary_hyperspherical": 0,
             "zero_partial_norms": 0, "negative_odd_leaves": 0, "arctan2_calls": 0, "acos_calls": 0}
    fixed = [("tree", [0.0, 0.0, 1.0, 2.0]), ("tree", [0.0, 0.0, -3.0, 4.0]), ("tree", [1.0, -2.0, 0.0, 0.0]),
             ("tree", [-1.0, -2.0, -3.0, -4.0, 0.0, 0.0, 0.0, 0.0]), ("tree", [0.0, -1.0]), ("tree", [-1.0, 0.0]),
             ("diagonal", [3.0, 0.0, -4.0]), ("diagonal", [0.0, 0.0, 0.0, -1.0]), ("diagonal", [-1.0, 0.0, 0.0, 0.0]),
             ("diagonal", [0.0, -2.0]), ("diagonal", [-2.0, 0.0]), ("diagonal", [-1.0, -2.0, 0.0, -4.0, 0.0])]
    cases, hw_cases, bin_cases = list(fixed), [], []
    for _ in range(count):
        arch = rng.choice(["tree", "diagonal"])
        n = rng.choice([2, 4, 8, 16]) if arch == "tree" else rng.randint(2, 10)
        cases.append((arch, angle_data(rng, n, rng.choice(["int", "dec"]))))
    for _ in range(max(10, count // 3)):
        n = rng.randint(2, 6)
        k = rng.randint(1, n - 1)
        hw_cases.append((n, k, rng.random() < 0.5, angle_data(rng, math.comb(n, k), rng.choice(["int", "dec"]))))
    for _ in range(max(10, count // 4)):
        par = rng.choice(["hopf", "hyperspherical"])
        bin_cases.append((par, angle_data(rng, 2 ** rng.randint(1, 4), rng.choice(["int", "dec"]))))
    if only is not None:
        e = only.get("encoder")
        cases = [(only["architecture"], [float(x) for x in only["data"]])] if e == "unary" else []
        hw_cases = [(only["n"], only["k"], only["optimize_controls"], [float(x) for x in only["data"]])] if e == "hamming_weight" else []
        bin_cases = [(only["parametrization"], [float(x) for x in only["data"]])] if e == "binary" else []
    contract_bad = []

    def tie(what, key, real, model, rp):
        msg, concrete = check_angle_list(real, model)
        stats["zero_partial_norms"] += sum(1 for e in model if e[1] == 0)
        stats["negative_odd_leaves"] += sum(1 for e in model if e[4] == "hi")
        if msg:
            run.find(("angles:" if concrete else "corr:angles:") + key,
                     f"{what}: the angle list of the real code differs from the angle model of C20/Angles.v ({msg})"
                     + ("" if concrete else " -- the cos/sin values still satisfy the load equations; only the correspondence with the model broke"),
                     {**rp, "real_angles": [repr(t) for t in real]}, concrete=concrete)
        return msg is None

    # --- unary_encoder: the parameters of the circuit ARE _generate_rbs_angles(data), and those match the model
    for arch, data in cases:
        n = len(data)
        run.case(["angles_unary", arch, data], nontrivial=any(x <= 0 for x in data))
        stats["unary_" + arch] += 1
        rp = {"encoder": "unary", "architecture": arch, "data": data}
        key = f"unary:{arch}:" + hashlib.sha1(json.dumps(data).encode()).hexdigest()[:10]
        with warnings.catch_warnings():
            warnings.simplefilter("ignore")
            try:
                with AngleSpy() as spy:
                    c = enc.unary_encoder(np.array(data, dtype=float), arch)
                params = [float(p[0]) for p in c.get_parameters()]
                err = None
            except Exception as e:
                err = f"{type(e).__name__}: {e}"
        if err is not None or len(spy.calls) != 1 or spy.calls[0][0] != data or spy.calls[0][3] != params:
            run.find(f"angles:{key}", "unary_encoder does not set the RBS parameters to _generate_rbs_angles(data, architecture, n)",
                     {**rp, "error": err})
            continue
        xs = [Fraction(x) for x in data]
        tie(f"unary_encoder({arch})", key, params, model_tree_angles(xs) if arch == "tree" else model_diag_angles(xs), rp)
        contract_bad += check_contracts(spy)
        stats["arctan2_calls"] += len(spy.atan2)
        stats["acos_calls"] += len(spy.acos)

    # --- hamming_weight_encoder (real data): thetas = diag angles of the data in WALK order, y_j = data[rank of walk string j]
    for n, k, opt, data in hw_cases:
        d = math.comb(n, k)
        run.case(["angles_hw", n, k, opt, data])
        stats["hw_real"] += 1
        rp = {"encoder": "hamming_weight", "n": n, "k": k, "optimize_controls": opt, "data": data}
        key = f"hw:{n}:{k}:" + hashlib.sha1(json.dumps(data).encode()).hexdigest()[:10]
        with warnings.catch_warnings():
            warnings.simplefilter("ignore")
            try:
                with AngleSpy() as spy:
                    c = enc.hamming_weight_encoder(np.array(data, dtype=float), n, k, optimize_controls=opt)
                thetas = [float(g.parameters[0]) for g in c.queue if type(g).__name__ == "RBS"]
                strings, _ = enc._ehrlich_algorithm(np.array([1] * k + [0] * (n - k)))
                err = None
            except Exception as e:
                err = f"{type(e).__name__}: {e}"
        if err is None:
            ints = [int(s_, 2) for s_ in strings]
            order = sorted(ints)
            walk = [data[order.index(v)] for v in ints]        # datum of the j-th walk string (lexicographic rank of the string)
        if err is not None or len(spy.calls) != 1 or spy.calls[0][0] != walk or spy.calls[0][1] != "diagonal" or spy.calls[0][3] != thetas:
            run.find(f"angles:{key}", "hamming_weight_encoder does not set the RBS angles to _generate_rbs_angles(data in walk order, 'diagonal')",
                     {**rp, "error": err})
            continue
        if d >= 2:
            tie("hamming_weight_encoder", key, thetas, model_diag_angles([Fraction(x) for x in walk]), rp)
        contract_bad += check_contracts(spy)
        stats["arctan2_calls"] += len(spy.atan2)

    # --- binary_encoder (real data): hopf = RY(2 * tree angles); hyperspherical = diag angles of the data in its global walk order
    for par, data in bin_cases:
        run.case(["angles_binary", par, data])
        stats["binary_" + par] += 1
        rp = {"encoder": "binary", "parametrization": par, "data": data}
        key = f"binary:{par}:" + hashlib.sha1(json.dumps(data).encode()).hexdigest()[:10]
        with warnings.catch_warnings():
            warnings.simplefilter("ignore")
            try:
                with AngleSpy() as spy:
                    c = enc.binary_encoder(np.array(data, dtype=float), parametrization=par)
                params = [float(p[0]) for p in c.get_parameters()]
                err = None
            except Exception as e:
                err = f"{type(e).__name__}: {e}"
        if par == "hopf":
            ok = err is None and len(spy.calls) == 1 and spy.calls[0][0] == data and params == [2 * t for t in spy.calls[0][3]]
            if ok:
                tie("binary_encoder(hopf)", key, spy.calls[0][3], model_tree_angles([Fraction(x) for x in data]), rp)
        else:
            # the last call is the one on the real data (the inner hamming_weight_encoder calls use random placeholders)
            ok = err is None and len(spy.calls) >= 1 and sorted(spy.calls[-1][0]) == sorted(data) and spy.calls[-1][1] == "diagonal"
            if ok:
                th = spy.calls[-1][3]
                ok = len(params) == len(th) and all(p == t or p == 2 * t for p, t in zip(params, th))
            if ok and len(data) >= 2:
                tie("binary_encoder(hyperspherical)", key, th, model_diag_angles([Fraction(x) for x in spy.calls[-1][0]]), rp)
        if not ok:
            run.find(f"angles:{key}", "binary_encoder does not take its rotation angles from _generate_rbs_angles as modelled", {**rp, "error": err})
            continue
        contract_bad += check_contracts(spy)
    run.oblige(f"contract: numpy.arctan2 satisfies Angles.atan2_contract on the {stats['arctan2_calls']}+ pairs the real code passed to it "
               f"(relative {CONTRACT_TOL})", not [b for b in contract_bad if b[0] == "arctan2"], "contract")
    run.oblige(f"contract: math.acos(u) in [0, pi] with cos(acos u) = u on the {stats['acos_calls']}+ arguments the real code passed to it "
               f"({CONTRACT_TOL})", not [b for b in contract_bad if b[0] == "acos"], "contract")
    for b in contract_bad[:3]:
        run.find(f"angles:contract:{b[0]}:" + hashlib.sha1(repr(b).encode()).hexdigest()[:10],
                 f"{b[0]} violates the contract the angle theorems assume: {b!r}", {"call": [repr(v) for v in b]}, concrete=False)
    return stats


def hw_complex_tie(run, rng, count, only=None):
    """hamming_weight_encoder on COMPLEX data against the model of PropsAngles.hw_encoder_complex_angles_ok:
    per move RBS(in, out, theta_k) + RZ(in, -phi_k) + RZ(out, phi_k) with the move's controls, then RZ(qz, 2 phi_last) controlled by
    the ones of the last walk string (qz one of its zeros); thetas = diagonal angles of |y| (cos^2 against the exact rational
    |y_k|^2 / sum_{i>=k} |y_i|^2); the phis satisfy 0 <= phi < 2 pi and the phase equations
    |y_k| e^{i (sum_{i<k} phi_i - phi_k)} = y_k  that the proof derives from phis[k] = (-angle(y_k) + sum(phis[:k])) mod 2 pi."""
    from fractions import Fraction
    import cmath
    import qibo.models.encodings as enc
    stats = {"cases": 0, "zero_entries": 0, "moves": 0}
    cases = []
    for _ in range(count):
        n = rng.randint(2, 6)
        k = rng.randint(1, n - 1)
        d = math.comb(n, k)
        re, im = angle_data(rng, d, rng.choice(["int", "dec"])), angle_data(rng, d, rng.choice(["int", "dec"]))
        mode = rng.random()
        if mode < 0.2:
            re = [0.0] * d
        elif mode < 0.4:
            for i in range(d):
                if rng.random() < 0.4:
                    re[i] = im[i] = 0.0
            if not any(re) and not any(im):
                im[rng.randrange(d)] = -1.0
        cases.append((n, k, rng.random() < 0.5, re, im))
    if only is not None:
        cases = [(only["n"], only["k"], only["optimize_controls"], [float(x) for x in only["re"]], [float(x) for x in only["im"]])]
    for n, k, opt, re, im in cases:
        d = math.comb(n, k)
        data = np.array(re) + 1j * np.array(im)
        run.case(["angles_hw_complex", n, k, opt, re, im])
        stats["cases"] += 1
        rp = {"encoder": "hamming_weight_complex", "n": n, "k": k, "optimize_controls": opt, "re": re, "im": im}
        key = f"hwc:{n}:{k}:" + hashlib.sha1(json.dumps([re, im]).encode()).hexdigest()[:10]

        def bad(msg, concrete=True):
            run.find(("angles:" if concrete else "corr:angles:") + key,
                     "hamming_weight_encoder (complex data) differs from the model of C20/Angles.v: " + msg, rp, concrete=concrete)
        with warnings.catch_warnings():
            warnings.simplefilter("ignore")
            try:
                with AngleSpy() as spy:
                    c = enc.hamming_weight_encoder(data, n, k, optimize_controls=opt)
                ref = enc.hamming_weight_encoder(np.arange(1.0, d + 1), n, k, optimize_controls=opt)
                strings, _ = enc._ehrlich_algorithm(np.array([1] * k + [0] * (n - k)))
            except Exception as e:
                bad(f"{type(e).__name__}: {e}")
                continue
        ints = [int(s_, 2) for s_ in strings]
        order = sorted(ints)
        walk = [complex(data[order.index(v)]) for v in ints]
        stats["zero_entries"] += sum(1 for z in walk if z == 0)
        q = [g for g in c.queue if type(g).__name__ != "X"]
        skel = [(tuple(g.target_qubits), tuple(sorted(g.control_qubits))) for g in ref.queue if type(g).__name__ == "RBS"]
        # RZ(...).controlled_by(one qubit) is returned by qibo as the class CRZ (same matrix: controlled RZ)
        if len(q) != 3 * (d - 1) + 1 or [type(g).__name__.replace("CRZ", "RZ") for g in q] != ["RBS", "RZ", "RZ"] * (d - 1) + ["RZ"]:
            bad("gate sequence is not (RBS, RZ, RZ) per move followed by one RZ: " + str([type(g).__name__ for g in q][:12]))
            continue
        thetas, phis, okq = [], [], True
        for j in range(d - 1):
            g, z1, z2 = q[3 * j:3 * j + 3]
            tq, cq = tuple(g.target_qubits), tuple(sorted(g.control_qubits))
            okq &= (tq, cq) == skel[j] and tuple(z1.target_qubits) == (tq[0],) and tuple(z2.target_qubits) == (tq[1],) \
                and tuple(sorted(z1.control_qubits)) == cq and tuple(sorted(z2.control_qubits)) == cq \
                and float(z1.parameters[0]) == -float(z2.parameters[0])
            thetas.append(float(g.parameters[0]))
            phis.append(float(z2.parameters[0]))
        last = strings[-1]
        gl = q[-1]
        okq &= tuple(sorted(gl.control_qubits)) == tuple(i for i, ch in enumerate(last) if ch == "1") \
            and len(gl.target_qubits) == 1 and last[gl.target_qubits[0]] == "0"
        phis.append(float(gl.parameters[0]) / 2)
        stats["moves"] += d - 1
        if not okq:
            bad("qubits / controls / parameters of the RZ layers or of the phase-correction gate are not as modelled")
            continue
        if len(spy.calls) != 1 or spy.calls[0][1] != "diagonal" or spy.calls[0][0] != [float(v) for v in np.abs(np.array(walk))] or spy.calls[0][3] != thetas:
            bad("thetas are not _generate_rbs_angles(|data| in walk order, 'diagonal')")
            continue
        # thetas: exact rational shadow; |y_k|^2 = re^2 + im^2
        sq = [Fraction(z.real) ** 2 + Fraction(z.imag) ** 2 for z in walk]
        suf = [0] * (d + 1)
        for i in range(d - 1, -1, -1):
            suf[i] = suf[i + 1] + sq[i]
        model = [(sq[i], suf[i], sgn(sq[i]), sgn(suf[i + 1]), None) for i in range(d - 2)] + [(sq[d - 2], suf[d - 2], sgn(sq[d - 2]), sgn(sq[d - 1]), None)]
        msg, concrete = check_angle_list(thetas, model)
        if msg:
            bad(msg, concrete)
            continue
        # phis: range and phase equations
        nrm = math.sqrt(float(suf[0]))
        acc, msgp = 0.0, None
        for j, (z, ph) in enumerate(zip(walk, phis)):
            if not (0.0 <= ph < 2 * math.pi + 1e-12):
                msgp = f"phi_{j} = {ph!r} outside [0, 2 pi)"
                break
            if abs(abs(z) * cmath.exp(1j * (acc - ph)) - z) > 1e-12 * nrm:
                msgp = f"phase equation {j} fails: |y| e^(i(sum - phi)) = {abs(z) * cmath.exp(1j * (acc - ph))!r}, y = {z!r}"
                break
            acc += ph
        if msgp:
            bad(msgp, concrete="phase equation" in msgp)
    return stats


RULE = ("dtype x sparsity x sign matrix for every data encoder (float64 / int64 / complex dtype with zero imaginary parts / genuinely complex; dense positive, mixed, negative, sparse, basis vectors, +-1 patterns); QFT: n=1..5 (6 thorough) operator obligations (both variants), n<=12 structure; comp_basis: random bit strings in all accepted "
        "input formats; ghz n=2..12; phase_encoder random data/rotation; unary: pairs for tree n=2..32 and diagonal n=2..12, data with "
        "zeros/negatives/sparse + all 0/1 patterns of length 4 and 8 for the NaN condition; Ehrlich: every (n,k), n<=10, plus shifted "
        "and malformed initial strings; hamming_weight_encoder skeleton for every (n,k), n<=7, both optimize_controls, data incl. "
        "complex; binary_encoder hyperspherical (real/complex) and hopf (real); angle level: unary (tree n<=16, diagonal n<=10), "
        "hamming-weight (n<=6) and binary encoders on integer / 3-digit decimal data with zeros, all-zero aligned blocks and negatives -- "
        "nontrivial = a zero partial norm or a negative entry")


# ------------------------------------------------------------------ entangling_layer / phase_encoder / random gaussian loader
OPTIONS_RULE = ("; options (round 5): QFT(n, accelerators=...) for n = 1..12 x 9 device dictionaries (refused, or gate list == Coq model qft_dist n and "
                "operator == DFT), Circuit kwargs through every constructor, hamming_weight_encoder full_hwp x optimize_controls x phase_correction x "
                "real/complex, argument forms of comp_basis_encoder / entangling_layer; representations: every data encoder x data pattern x "
                "(float64, float32, int64, int32, int8, uint8, complex128, complex64, strided / reversed / Fortran-row views, read-only, list, tuple)")
CONSTRUCTOR_RULE = ("; constructor histories: for every constructor (QFT, comp_basis, phase, unary tree/diagonal, unary random gaussian, binary "
                    "hyperspherical/hopf real+complex, hamming-weight both control settings real+complex, ghz, entangling_layer 8 architectures) "
                    "build / build-same / build-other-data / caller mutation (set_parameters, gate.parameters, add) / rebuild / execute with every "
                    "earlier snapshot (gates, parameters, matrices, executed state) re-checked after each step, no gate object shared between two "
                    "returned circuits or with module-level tables, data arguments not mutated (fixed per-constructor corpus + random histories)")
ARCHS = [("diagonal", "ADiagonal"), ("even_layer", "AEven"), ("odd_layer", "AOdd"), ("shifted", "AShifted"),
         ("next_nearest", "ANextNearest"), ("pyramid", "APyramid"), ("v", "AV"), ("x", "AX")]


def layers_structure(run, rng, nmax):
    """entangling_layer: every architecture x n x closed_boundary x gate kind against Model.ent_pairs;
    phase_encoder against Model.phase_gates; unary_encoder_random_gaussian against the tree pairs"""
    from qibo.models.encodings import entangling_layer, phase_encoder, unary_encoder_random_gaussian
    exprs, reals = [], []
    for name, coq in ARCHS:
        for n in range(2, nmax + 1):
            if name == "x" and n % 2:
                continue
            for closed in (False, True):
                gname = rng.choice(["CNOT", "CZ", "RBS", "RXX", "fSim", "SWAP"])
                c = entangling_layer(n, name, gname, closed)
                q = [[int(g.qubits[0]), int(g.qubits[1])] if gname != "CNOT" else [int(g.control_qubits[0]), int(g.target_qubits[0])]
                     for g in c.queue]
                okgate = all(type(g).__name__ == gname and all(float(p) == 0.0 for p in g.parameters) for g in c.queue)
                reals.append((name, n, closed, gname, q, okgate))
                exprs.append(f"ent_pairs {coq} {n} {'true' if closed else 'false'}")
    vals = run.coq_eval("C20_layers.v", HEADER, exprs, timeout=600)
    if vals is None:
        run.find("coq:C20_layers", "generated file does not compile", {}, concrete=False)
        return
    for (name, n, closed, gname, q, okgate), v in zip(reals, vals):
        m = tolist(parse_coq(v.replace("::", ",").replace("nil", "()"))) if "::" in v else tolist(parse_coq(v))
        run.case(["entangling_layer", name, n, closed, gname])
        if flatten_pairs(m) != q or not okgate:
            run.find(f"corr:entangling_layer:{name}:{n}:{closed}", "entangling_layer gate list differs from the model ent_pairs",
                     {"architecture": name, "n": n, "closed_boundary": closed, "gate": gname, "real": q}, concrete=False)
        # direct check of the documented shape: two distinct qubits of the register per gate
        if any(a == b or not (0 <= a < n and 0 <= b < n) for a, b in q):
            run.find(f"entangling_layer:{name}:{n}:{closed}", "entangling_layer emits a gate outside the register / on equal qubits",
                     {"architecture": name, "n": n, "closed_boundary": closed, "real": q})
    # the random Gaussian loader has the structure of the tree unary encoder
    for n in (2, 4, 8, 16):
        c = unary_encoder_random_gaussian(n, seed=int(rng.randrange(1000)))
        q = [[type(g).__name__] + [int(x) for x in g.qubits] for g in c.queue]
        from qibo.models.encodings import _generate_rbs_pairs
        _, rows = _generate_rbs_pairs(n, "tree")
        run.case(["unary_random_gaussian", n])
        if q != [["X", n - 1]] + [["RBS", int(a), int(b)] for row in rows for a, b in row]:
            run.find(f"corr:unary_random_gaussian:{n}", "unary_encoder_random_gaussian is not X(n-1) + the tree RBS pairs", {"n": n}, concrete=False)


def flatten_pairs(m):
    return [[int(a), int(b)] for a, b in m]


# ------------------------------------------------------------------ dtype x sparsity x sign matrix of encoder inputs
def matrix_vectors(rng, d):
    dense = [round(rng.uniform(0.2, 2.0), 3) for _ in range(d)]
    out = {"dense_pos": list(dense), "dense_mixed": [x if i % 2 else -x for i, x in enumerate(dense)],
           "dense_neg": [-x for x in dense]}
    sp = [0.0] * d
    sp[rng.randrange(d)] = 1.5
    sp[rng.randrange(d)] = -0.7
    out["sparse"] = sp
    for nme, pos, val in (("basis_mid", d // 2, 1.0), ("basis_first_neg", 0, -1.0), ("basis_last", d - 1, 1.0)):
        v = [0.0] * d
        v[pos] = val
        out[nme] = v
    out["pm_ones"] = [rng.choice([1.0, -1.0]) for _ in range(d)]
    return out


def cast_vec(v, dt):
    if dt == "float64":
        return np.array(v, dtype=float)
    if dt == "int64":
        x = np.rint(np.array(v) * 2).astype(np.int64)
        if not x.any():
            x[0] = 1
        return x
    if dt == "complex_zero_imag":          # complex dtype, every imaginary part exactly zero
        return np.array(v, dtype=complex)
    if dt == "complex":
        return np.array(v, dtype=complex) * np.exp(1j * np.linspace(0.3, 2.0, len(v)))
    raise ValueError(dt)


def run_encoder(enc, args, x):
    from qibo.models.encodings import binary_encoder, hamming_weight_encoder, unary_encoder
    if enc == "binary":
        s = np.asarray(binary_encoder(x, parametrization=args["parametrization"])().state())
        return s, None
    if enc == "hw":
        s = np.asarray(hamming_weight_encoder(x, args["n"], args["k"], optimize_controls=args.get("optimize_controls", True))().state())
        return s, weight_k_indices(args["n"], args["k"])
    s = np.asarray(unary_encoder(x, args["architecture"])().state())
    return s, [2 ** i for i in range(len(x))]


def encoder_ok(enc, args, x):
    with warnings.catch_warnings():
        warnings.simplefilter("ignore")
        try:
            s, idx = run_encoder(enc, args, x)
        except Exception as e:
            return f"raises {type(e).__name__}: {str(e)[:80]}"
    tgt = x / np.linalg.norm(x)
    if idx is not None:
        if np.abs(np.delete(s, idx)).max() > TOL:
            return "amplitude outside the documented basis states"
        s = s[idx]
    if np.isnan(s).any() or np.abs(s - tgt).max() > TOL:
        return f"amplitudes differ from data/||data|| (max {float(np.nanmax(np.abs(s - tgt))):.2e})"
    return None


# which dtypes each encoder is exercised with (the others are not documented as supported: unary encoders and the
# hopf parametrization are real-valued constructions; float32 data cannot meet the 1e-10 tolerance)
MATRIX = [
    ("binary", {"parametrization": "hyperspherical"}, (2, 4, 8), ("float64", "int64", "complex_zero_imag", "complex")),
    ("binary", {"parametrization": "hopf"}, (2, 4, 8), ("float64", "int64", "complex_zero_imag")),
    ("hw", {"n": 4, "k": 2}, (6,), ("float64", "int64", "complex_zero_imag", "complex")),
    ("hw", {"n": 5, "k": 3, "optimize_controls": False}, (10,), ("float64", "complex_zero_imag", "complex")),
    ("unary", {"architecture": "tree"}, (4, 8), ("float64", "int64", "complex_zero_imag")),
    ("unary", {"architecture": "diagonal"}, (3, 5, 8), ("float64", "int64")),
]


def dtype_matrix_test(run, rng):
    stats = {}
    for enc, args, sizes, dtypes in MATRIX:
        for d in sizes:
            for pname, v in matrix_vectors(rng, d).items():
                for dt in dtypes:
                    x = cast_vec(v, dt)
                    desc = {"encoder": enc, "args": args, "dtype": dt, "pattern": pname, "data": [str(c) for c in x]}
                    run.case(["dtype_matrix", desc])
                    stats[f"{enc}:{dt}"] = stats.get(f"{enc}:{dt}", 0) + 1
                    why = encoder_ok(enc, args, x)
                    if why:
                        tag = args.get("parametrization") or args.get("architecture") or f"{args['n']}_{args['k']}"
                        run.find(f"dtype:{enc}-{tag}:{dt}:{pname}:{d}", f"{enc} encoder ({tag}) on {dt} data, pattern {pname}: {why}", desc)
    # phase_encoder: ints, negative values, lists and arrays
    from qibo.models.encodings import phase_encoder
    for data in ([1, -2, 0, 3], np.array([0, 0, 0]), [0.5, -0.25], np.array([-1.5, 2.0, 0.0, 1.0, -3.0])):
        for rot in ("RX", "RY", "RZ"):
            run.case(["dtype_matrix", "phase", rot, [float(x) for x in data]])
            try:
                c = phase_encoder(data, rotation=rot)
                okp = [[type(g).__name__, int(g.qubits[0]), float(g.parameters[0])] for g in c.queue] == \
                    [[rot, q, float(data[q])] for q in range(len(data))]
            except Exception as e:
                okp = False
            if not okp:
                run.find(f"dtype:phase:{rot}:{len(data)}", "phase_encoder does not build one rotation(q, data[q]) per qubit",
                         {"data": [float(x) for x in data], "rotation": rot})
    return stats


def replay_dtype(run, key, what, rp):
    dt = rp["dtype"]
    x = np.array([complex(c.replace("(", "").replace(")", "")) for c in rp["data"]])
    if dt == "float64":
        x = x.real.astype(float)
    elif dt == "int64":
        x = np.rint(x.real).astype(np.int64)
    why = encoder_ok(rp["encoder"], rp["args"], x)
    if why:
        run.find(key, what + " | " + why, rp)


def cap_findings(run, per_class=3):
    orig, count = run.find, {}

    def find(key, what, replay=None, concrete=True):
        parts = key.split(":")
        fam = ":".join(parts[:3] if parts[0] in ("corr", "repr", "options") else parts[:2])
        count[fam] = count.get(fam, 0) + 1
        if count[fam] <= per_class:
            orig(key, what, replay, concrete)
        else:
            run.notes["suppressed_duplicate_findings"] = {**run.notes.get("suppressed_duplicate_findings", {}), fam: count[fam] - per_class}
    run.find = find


def main(run):
    cap_findings(run)
    rng = random.Random(run.seed)
    thorough = run.tier == "thorough"
    run.trusted += ["Coq 8.16.1 kernel, vm_compute", "Base/TrigNF.v, Base/TrigMat.v (proved sound) for the QFT instances",
                    "lib/symtrace.py tracer: the float math.pi / 2**k is read as the exact multiple pi/2^k",
                    "Base/Mat.v embed/cembed as the meaning of 'gate on qubits' (qubit 0 most significant)",
                    "numpy state-vector simulation for the data-level tests (tolerance 1e-10, labelled 'test')"]
    run.assumptions += ["exact real arithmetic in the QFT obligations (rounding not modelled)",
                        "data-dependent angles: _generate_rbs_angles (arctan2 of partial norms / acos of ratios with the zero-norm guard and the "
                        "2 pi - theta rule) is modelled over Coq's reals in C20/Angles.v (real data); numpy.arctan2 enters through the polar contract "
                        "Angles.atan2_contract (proved for the atan-based Angles.atan2, checked at 1e-15 on every pair the real code passes), math.acos "
                        "and math.sqrt / linalg.norm are read as the real functions acos / sqrt (binary64 rounding not modelled); the tie of the real "
                        "angle lists to the model is numeric at the angle level (cos^2 against the exact rational, 1e-13, plus signs / guard / range)"]
    names = vcore.props_theorems("C20/Props.v")
    ok, pa = vcore.static_assumptions("C20/Props")
    for nme in names:
        run.oblige(nme, ok and nme in pa, "theorem")
        if ok and "Closed under" not in pa.get(nme, ""):
            for m in re.finditer(r"([A-Za-z_][\w.]*) :", pa.get(nme, "")):
                run.axioms.add(m.group(1))
    run.notes["print_assumptions"] = pa
    names_a = vcore.props_theorems("C20/PropsAngles.v")
    ok_a, pa_a = vcore.static_assumptions("C20/PropsAngles")
    for nme in names_a:
        run.oblige(nme, ok_a and nme in pa_a, "theorem")
        for m in re.finditer(r"([A-Za-z_][\w.]*) :", pa_a.get(nme, "")):
            run.axioms.add(m.group(1))
    run.notes["print_assumptions_angles"] = pa_a
    run.not_proved += [
        "qft_ok is PROVED for all n >= 1, both variants (qft_ok, qft_ok_noswap and their complex instances: every column of the product "
        "matrix circ_mat(QFT n) of Base/Mat.v is the DFT column, bit-reversed output without swaps; pstep_rules_agree_with_matrices; matrix "
        "associativity proved). Remaining outside the static proof: the real H / CU1(pi/2^k) / SWAP matrices equal the matrices of "
        "to_gapp -- proved per run by TrigMat obligations for k <= 6, compared numerically for k = 7..12",
        "ehrlich_enumerates is PROVED for ALL n and all initial strings with consecutive ones (ehrlich_enumerates, ehrlich_enumerates_initial: "
        "the walk never fails, has binom(n,k) strings without repetition = exactly the weight-k strings, ends on the closed form endf, every step "
        "is the reported transposition); independent cross-check by computation for n <= 10 (ehrlich_enumerates_bounded)",
        "unary encoders: PROVED at ring level for all n, no division (zero blocks included): the diagonal ladder (rbs_chain_rotations, "
        "unary_diagonal_ok_ring) and the BREADTH-FIRST tree gate list of _generate_rbs_pairs (unary_tree_bfs_ok_ring; recursive form "
        "unary_tree_ok_ring). PROVED over the reals for all n (PropsAngles.v): the angle formulas of _generate_rbs_angles satisfy those load "
        "equations and hence the amplitudes are data_p/||data|| for every real data <> 0 incl. zero entries, all-zero aligned blocks (the "
        "zero-norm guard) and negative entries (unary_diagonal_angles_ok for any arctan2 with the polar contract + the atan-based instance, "
        "unary_tree_angles_ok with acos and the 2 pi - theta rule). Remaining outside: binary64 rounding of the angle computation; the tie of "
        "the real angle lists to the model is per run (cos^2 vs exact rationals at 1e-13, signs, guard, range; contracts of arctan2/acos at 1e-15)",
        "hw_encoder_ok at ring level is PROVED for ALL n and k with the control sets the code emits, both optimize_controls settings "
        "(hw_encoder_ok, hw_emitted_chain_ok: Model.hw_gates = mirror + sort + optimisation mask satisfies chain_ok; the mask drops exactly the "
        "controls on prefix positions where every loaded string carries a one -- prefix_block over the Ehrlich walk); array-coordinate variant "
        "hw_encoder_ok_full_controls. PROVED over the reals (hw_encoder_angles_ok, all n, k, both control settings): with thetas = the diagonal "
        "angle formulas of the data y in walk order, the amplitude of the j-th walk string is y_j/||y|| and every other basis state has amplitude 0. "
        "COMPLEX data PROVED (hw_complex_chain_ok at ring level, closed; hw_encoder_complex_angles_ok over C): per move RBS + RZ(in,-phi) + RZ(out,phi), "
        "the phase-correction RZ(qz, 2 phi_last) on the ones of the last string, thetas from |y|, phis[k] = (-angle(y_k) + sum(phis[:k])) mod 2 pi "
        "give amplitude y_j/||y|| on the j-th walk string, zero entries and arbitrary phases included; tied per run at gate/angle level. "
        "NOT proved (per-run tie only): that y = data[lex_order] is the lexicographic re-ordering (checked per run against the real walk); "
        "binary64 rounding",
        "entangling_layer (8 architectures, closed boundary), phase_encoder: PROVED for all n at the structural level (entangling_layer_ok, "
        "entangling_shifted_is_diagonal, entangling_layer_sizes, phase_encoder_ok) + exact structural correspondence; "
        "binary_encoder: hopf rotations are fully controlled for all n (binary_hopf_rotations_fully_controlled); the hopf / hyperspherical gate "
        "skeletons are tied by structural correspondence for n <= 5 (6 thorough) only; their rotation angles are the same tree / diagonal "
        "angle lists (tied per run) whose cos/sin products are PROVED to be data/||data|| (tree_products_ok, hyperspherical_products_ok), but the "
        "circuit semantics of the two binary encoders (controlled RY ladders, intermediate gates, the global walk order) is NOT modelled: their "
        "amplitudes (and unary_encoder_random_gaussian's sampled angles) are only tested / not covered",
        "still bounded or per-run: ehrlich_enumerates_bounded (an independent vm_compute cross-check, n <= 10, superseded by ehrlich_enumerates); "
        "QFT operator instances n <= 5/6 via TrigMat (cross-check of qft_ok on the traced real gates); gate matrices of H/CU1/SWAP via TrigMat for k <= 6",
    ]
    qft_structure(run, 12)
    qft_instances(run, 6 if thorough else 5)
    qft_product_test(run, rng, 120 if thorough else 40)
    gate_matrix_obligations(run)
    simple_encoders(run, rng, 120 if thorough else 40)
    unary_structure(run)
    run.notes["unary_data"] = unary_data(run, rng, 300 if thorough else 80)
    run.notes["angle_tie"] = angle_tie(run, random.Random(run.seed + 20), 400 if thorough else 120)
    run.notes["hw_complex_tie"] = hw_complex_tie(run, random.Random(run.seed + 21), 120 if thorough else 40)
    run.notes["ehrlich"] = ehrlich_corr(run, rng, 10 if thorough else 9)
    hw_structure(run, 7 if thorough else 6)
    run.notes["hw_data"] = hw_data(run, rng, 200 if thorough else 50)
    layers_structure(run, rng, 12 if thorough else 9)
    binary_structure(run, 6 if thorough else 5)
    run.notes["binary_data"] = binary_data(run, rng, 200 if thorough else 60)
    hopf_zero_block(run)
    run.notes["dtype_matrix"] = dtype_matrix_test(run, rng)
    # the constructors are functions of their arguments: histories of build / mutate / rebuild / execute over every constructor
    from harness import c20_purity
    run.notes["constructor_histories"] = c20_purity.constructor_histories(run, random.Random(run.seed + 22), 250 if thorough else 80)
    # round 5: rarely used options (QFT accelerators= / Circuit kwargs / hw option product / argument forms) and the same
    # data in every representation (dtype, layout, container) for every encoder -- harness/c20_options.py
    from harness import c20_options
    c20_options.option_coverage(run)
    run.notes["qft_options"] = c20_options.qft_options(run, random.Random(run.seed + 23), thorough)
    run.notes["representation_matrix"] = c20_options.representation_matrix(run, random.Random(run.seed + 24))
    run.notes["option_matrix"] = c20_options.option_matrix(run, random.Random(run.seed + 25))
    names_d = vcore.props_theorems("C20/PropsDist.v")
    ok_d, pa_d = vcore.static_assumptions("C20/PropsDist")
    for nme in names_d:
        run.oblige(nme, ok_d and nme in pa_d, "theorem (bounded)")
    run.notes["print_assumptions_dist"] = pa_d
    names_s = vcore.props_theorems("C20/PropsStore.v")
    ok_s, pa_s = vcore.static_assumptions("C20/PropsStore")
    for nme in names_s:
        run.oblige(nme, ok_s and nme in pa_s, "theorem")
    run.notes["print_assumptions_store"] = pa_s
    return run.finish(rule=RULE + CONSTRUCTOR_RULE + OPTIONS_RULE)


def replay(run, data):
    rp = data.get("replay", {})
    key = data.get("key", "")
    rng = random.Random(0)
    from harness import c20_options
    if key.startswith(("qft:dft:distributed", "qft:distributed", "corr:qft:distributed", "qft:kwargs", "repr:", "options:")) and \
            c20_options.replay(run, key, data.get("what", ""), rp):
        pass
    elif key.startswith("purity:"):
        from harness import c20_purity
        c20_purity.replay_history(run, key, data.get("what", ""), rp)
    elif key.startswith("dtype:") and "encoder" in rp:
        replay_dtype(run, key, data.get("what", ""), rp)
    elif key.startswith("unary:"):
        from qibo.models.encodings import unary_encoder
        d, arch = rp.get("data"), rp.get("architecture")
        if d is not None:
            with warnings.catch_warnings():
                warnings.simplefilter("ignore")
                try:
                    amps, rest = unary_amplitudes(unary_encoder(np.array(d, dtype=float), arch), len(d))
                    bad = bool(np.isnan(amps).any()) or np.abs(amps - np.array(d) / np.linalg.norm(d)).max() > TOL
                except Exception:
                    bad = True
            if bad:
                run.find(key, data.get("what", ""), rp)
    elif key.startswith("angles:contract"):
        angle_tie(run, rng, 40)
    elif (key.startswith("angles:") or key.startswith("corr:angles:")) and rp.get("encoder") == "hamming_weight_complex":
        hw_complex_tie(run, rng, 0, only=rp)
    elif key.startswith("angles:") or key.startswith("corr:angles:"):
        angle_tie(run, rng, 0, only=rp)
    elif key.startswith("binary:hopf"):
        hopf_zero_block(run)
    elif key.startswith("qft:") or key.startswith("corr:qft"):
        qft_structure(run, 12)
        qft_instances(run, 4)
    elif key.startswith("hw:data") or key.startswith("binary:data"):
        from qibo.models.encodings import hamming_weight_encoder, binary_encoder
        d = np.array([complex(x) for x in rp["data"]])
        if not rp.get("complex", True) or np.all(d.imag == 0):
            d = d.real
        with warnings.catch_warnings():
            warnings.simplefilter("ignore")
            try:
                if key.startswith("hw"):
                    s = np.asarray(hamming_weight_encoder(d, rp["n"], rp["k"], optimize_controls=rp["optimize_controls"])().state())
                    idx = weight_k_indices(rp["n"], rp["k"])
                    bad = np.isnan(s).any() or np.abs(s[idx] - d / np.linalg.norm(d)).max() > TOL
                else:
                    s = np.asarray(binary_encoder(d, parametrization=rp["parametrization"])().state())
                    bad = np.isnan(s).any() or np.abs(s - d / np.linalg.norm(d)).max() > TOL
            except Exception:
                bad = True
        if bad:
            run.find(key, data.get("what", ""), rp)
    elif key.startswith("ehrlich") or key.startswith("corr:ehrlich"):
        ehrlich_corr(run, rng, 6)
    else:
        simple_encoders(run, rng, 40)
        unary_structure(run)
        hw_structure(run, 6)
    return run.finish(rule="replay of one recorded case")
