"""C20  Library circuit constructors build what they document.

Static theorems: coq/theories/C20/{Model,Proofs,Props}.v.
Per run:
 (a) QFT: the real QFT(n) gate list (n = 1..5, 6 in the thorough tier, with and without swaps) is traced symbolically and
     `circuit operator = 2^{-n/2} [omega^{xy}]` (rows bit-reversed without swaps) is proved in Coq by
     Base/TrigMat.mcheck_eq -- BOUNDED INSTANCES; exact structural correspondence of the gate list
     with the Gallina generator `qft n` for n <= 12.
 (b)-(e) exact structural correspondence of the gate lists of comp_basis_encoder, ghz_state,
     phase_encoder, unary_encoder (tree / diagonal pairs), _ehrlich_algorithm (all (n,k), n <= 10, plus
     shifted and malformed initial strings), hamming_weight_encoder (gate skeleton) with the models.
 data level ('test', tolerance 1e-10): amplitudes of encoder(data)() against data/||data|| on data with
     zeros, negatives, sparse vectors, complex entries where documented.
"""
STATIC = ["C20/Props", "Base/TrigMat"]
import ast
import hashlib
import itertools
import json
import math
import random
import re
import warnings

import numpy as np

from lib import qtrace, vcore, symtrace as st

HEADER = """From Coq Require Import List Bool Arith.
From QV Require Import C20.Model.
Import ListNotations.
"""
TOL = 1e-10


def parse_coq(v):
    s = v.replace(";", ",").replace("Some", "").replace("true", "True").replace("false", "False")
    s = re.sub(r"%\w+", "", s)
    return ast.literal_eval(s)


def tolist(x):
    if isinstance(x, (tuple, list)):
        return [tolist(e) for e in x]
    return x


def coq_bits(bs):
    bs = list(bs)
    return "[" + "; ".join("true" if int(b) else "false" for b in bs) + "]" if bs else "(@nil bool)"


# ------------------------------------------------------------------ (a) QFT
def qft_canon(c):
    out = []
    for g in c.queue:
        nm = type(g).__name__
        if nm == "H":
            out.append([0, [int(g.qubits[0])], 0])
        elif nm == "CU1":
            th = g.parameters[0]
            k = next((k for k in range(0, 64) if th == math.pi / 2 ** k), None)
            out.append([1, [int(g.control_qubits[0]), int(g.target_qubits[0])], -1 if k is None else k])
        elif nm == "SWAP":
            out.append([2, [int(q) for q in g.target_qubits], 0])
        else:
            out.append([99, [int(q) for q in g.qubits], 0])
    return out


def qft_structure(run, nmax):
    from qibo.models import QFT
    exprs, reals = [], []
    for n in range(1, nmax + 1):
        for sw in (True, False):
            exprs.append(f"map qcode (qft {n} {'true' if sw else 'false'})")
            reals.append((n, sw, qft_canon(QFT(n, with_swaps=sw))))
    vals = run.coq_eval("C20_qft_struct.v", HEADER, exprs)
    if vals is None:
        run.find("coq:C20_qft_struct", "generated file does not compile", {}, concrete=False)
        return
    for (n, sw, real), v in zip(reals, vals):
        run.case(["qft-structure", n, sw])
        if tolist(parse_coq(v)) != real:
            run.find(f"corr:qft:structure:{n}:{sw}", "QFT gate list differs from the documented ladder (model `qft n`)",
                     {"n": n, "with_swaps": sw, "real": real[:40]}, concrete=False)
        if n <= 8:
            d = qft_numeric(n, sw)
            if d > 1e-9:
                run.find(f"qft:dft:{n}:{sw}", "QFT(n).unitary() is not the DFT matrix (numeric, tolerance 1e-9)",
                         {"n": n, "with_swaps": sw, "max_abs_diff": d})
    run.sample({"qft_structure": "n=1..%d, both variants" % nmax, "example_n3": reals[4][2]})


def qft_numeric(n, sw):
    from qibo.models import QFT
    N = 2 ** n
    U = np.asarray(QFT(n, with_swaps=sw).unitary())
    F = np.array([[np.exp(2j * np.pi * x * y / N) for y in range(N)] for x in range(N)]) / np.sqrt(N)
    if not sw:
        rev = lambda x: int(format(x, f"0{n}b")[::-1], 2)
        F = np.array([F[rev(x)] for x in range(N)])
    return float(np.abs(U - F).max())


def qft_product_test(run, rng, count):
    """numeric cross-check ('test', tolerance 1e-10) of the product-state phases computed by `prun` in Coq against
    QFT(n)|x> from the numpy backend (the rules themselves are proved sound for the Base/Mat.v matrices:
    pstep_rules_agree_with_matrices)"""
    from qibo.models import QFT
    cases, exprs = [], []
    for _ in range(count):
        n = rng.randint(1, 8)
        x = [rng.randint(0, 1) for _ in range(n)]
        sw = rng.random() < 0.5
        cases.append((n, x, sw))
        exprs.append(f"option_map (fun f : qst => map (fun q => match f q with QP p => p | QB _ => 0 end) (seq 0 {n})) "
                     f"(prun {n} (qft {n} {'true' if sw else 'false'}) (qinit {coq_bits(x)}))")
    vals = run.coq_eval("C20_qft_product.v", HEADER, exprs)
    if vals is None:
        run.find("coq:C20_qft_product", "generated file does not compile", {}, concrete=False)
        return
    for (n, x, sw), v in zip(cases, vals):
        ph = parse_coq(v)
        run.case(["qft_product", n, x, sw])
        init = np.zeros(2 ** n, dtype=complex)
        init[int("".join(map(str, x)), 2)] = 1
        real = np.asarray(QFT(n, with_swaps=sw)(init).state())
        if ph is None:
            run.find(f"corr:qft:product:{n}", "product-state rules do not apply to the QFT gate list", {"n": n, "x": x}, concrete=False)
            continue
        N = 2 ** n
        exp = np.array([np.exp(2j * np.pi * sum(((y >> (n - 1 - q)) & 1) * ph[q] for q in range(n)) / N) for y in range(N)]) / np.sqrt(N)
        if np.abs(real - exp).max() > TOL:
            run.find(f"corr:qft:product:{n}:{sw}", "QFT(n)|x> differs from the product state predicted by the pstep rules",
                     {"n": n, "x": x, "with_swaps": sw, "max_abs_diff": float(np.abs(real - exp).max())}, concrete=False)


def gate_matrix_obligations(run):
    """the matrices used by the all-n theorems qft_ok / qft_ok_state_vector (C20 gate_mat / to_gapp) are the matrices the
    real code builds:  H = h[[1,1],[1,-1]] (h = sqrt2/2),  CU1(pi/2^k) = diag(1,1,1,e^{i pi/2^k}),  SWAP"""
    from fractions import Fraction
    from qibo import gates
    h = "(EMul ESqrt2 (EQ (1 # 2)))"
    one, zero = "(EQ (1 # 1))", "(EQ (0 # 1))"

    def lit(rows):
        return "(MLit [" + "; ".join("[" + "; ".join(r) + "]" for r in rows) + "])"
    terms = []
    with qtrace.patched():
        qtrace.fresh_sym_backend()
        qtrace.setup_vars(0)
        try:
            terms.append(("gate_matrix_H", f"mcheck_eq {qtrace.gate_lit(gates.H(0))} {lit([[h, h], [h, '(ENeg ' + h + ')']])}"))
            sw = [[one, zero, zero, zero], [zero, zero, one, zero], [zero, one, zero, zero], [zero, zero, zero, one]]
            terms.append(("gate_matrix_SWAP", f"mcheck_eq {qtrace.gate_lit(gates.SWAP(0, 1))} {lit(sw)}"))
            for k in range(0, 7):
                ph = f"(ECis (acomb {st.qlit(Fraction(1, 2 ** k))} []))"
                d = [[one, zero, zero, zero], [zero, one, zero, zero], [zero, zero, one, zero], [zero, zero, zero, ph]]
                terms.append((f"gate_matrix_CU1_pi_over_2^{k}", f"mcheck_eq {qtrace.gate_lit(gates.CU1(1, 0, math.pi / 2 ** k))} {lit(d)}"))
        except Exception as e:
            run.find("trace:gate_matrices", f"symbolic tracing of H/CU1/SWAP failed: {type(e).__name__}: {e}", {}, concrete=False)
            return
    ok, out = run.coq_theorems("C20_gate_matrices.v", qtrace.COQ_HEADER,
                               [(re.sub(r"\W", "_", nme), f"{t} = true", "vm_compute; reflexivity.") for nme, t in terms], timeout=600)
    for nme, _ in terms:
        run.oblige(nme, ok, "bridge")
    if not ok:
        run.find("unproved:gate_matrices", "the real H / CU1 / SWAP matrices are no longer the matrices of gate_mat", {"log": out[-800:]}, concrete=False)
    # larger k (outside the tracer's pi-fraction table): exact float comparison of the real matrix
    for k in range(7, 13):
        m = np.asarray(gates.CU1(1, 0, math.pi / 2 ** k).matrix())
        exp = np.diag([1, 1, 1, np.exp(1j * math.pi / 2 ** k)])
        run.case(["cu1_matrix", k], nontrivial=False)
        if np.abs(m - exp).max() > 1e-15:
            run.find(f"qft:cu1-matrix:{k}", "CU1(pi/2^k).matrix() is not diag(1,1,1,e^{i pi/2^k})", {"k": k})


def dft_literal(n, with_swaps):
    from fractions import Fraction
    N = 2 ** n
    rev = lambda x: int(format(x, f"0{n}b")[::-1], 2) if n else 0
    rows = []
    for x in range(N):
        xr = x if with_swaps else rev(x)
        row = []
        for y in range(N):
            fr = Fraction(2 * ((xr * y) % N), N)       # omega^{xy} = e^{i pi * 2xy/N}
            row.append(f"(ECis (acomb {st.qlit(fr)} []))")
        rows.append("[" + "; ".join(row) + "]")
    lit = "[" + "; ".join(rows) + "]"
    if n % 2 == 0:
        sc = f"(EQ {st.qlit(Fraction(1, 2 ** (n // 2)))})"
    else:
        sc = f"(EMul ESqrt2 (EQ {st.qlit(Fraction(1, 2 ** ((n + 1) // 2)))}))"
    return f"(MScale {sc} (MLit {lit}))"


def qft_instances(run, nmax):
    from qibo.models import QFT
    terms = []
    with qtrace.patched():
        qtrace.fresh_sym_backend()
        qtrace.setup_vars(0)
        for n in range(1, nmax + 1):
            for sw in (True, False):
                name = f"qft_is_dft_n{n}_{'swaps' if sw else 'noswaps_bitreversed'}"
                try:
                    gs = list(QFT(n, with_swaps=sw).queue)
                    terms.append((name, f"mcheck_eq {qtrace.circ_coq(gs, n)} {dft_literal(n, sw)}", n, sw))
                except Exception as e:
                    run.oblige(name, False, "untranslatable")
                    run.find(f"trace:qft:{n}:{sw}", f"symbolic tracing of QFT failed: {type(e).__name__}: {e}", {}, concrete=False)
    res, out = run.coq_bools("C20_qft_triage.v", qtrace.COQ_HEADER, [(t[0], t[1]) for t in terms], timeout=1200)
    if res is None:
        run.find("coq:C20_qft", "generated QFT obligations do not compile", {"log": out[-1200:]}, concrete=False)
        return
    good = [t for t in terms if res[t[0]]]
    if good:
        ok, out2 = run.coq_theorems("C20_qft_theorems.v", qtrace.COQ_HEADER,
                                    [(f"ok_{t[0]}", f"{t[1]} = true", "vm_compute; reflexivity.") for t in good], timeout=1200)
        for t in good:
            run.oblige(t[0] + " (bounded instance)", ok, "bounded-instance")
        if not ok:
            run.find("coq:C20_qft_theorems", "theorem file does not compile", {"log": out2[-1200:]}, concrete=False)
    for t in terms:
        if res[t[0]]:
            continue
        n, sw = t[2], t[3]
        d = qft_numeric(n, sw)
        if d > 1e-9:
            run.refuted.append(t[0])      # the concrete finding qft:dft:n:sw is reported by qft_structure
        else:
            run.oblige(t[0], False, "bounded-instance")
            run.find(f"unproved:qft:{n}:{sw}", "QFT instance obligation no longer checks", {"n": n, "with_swaps": sw}, concrete=False)


# ------------------------------------------------------------------ (b) comp_basis / ghz / phase
def simple_encoders(run, rng, count):
    from qibo.models.encodings import comp_basis_encoder, ghz_state, phase_encoder
    exprs, checks = [], []
    for _ in range(count):
        n = rng.randint(1, 10)
        bits = [rng.randint(0, 1) for _ in range(n)]
        form = rng.choice(["str", "list", "tuple", "liststr", "int"])
        if form == "str":
            arg, kw = "".join(map(str, bits)), {}
        elif form == "list":
            arg, kw = list(bits), {}
        elif form == "tuple":
            arg, kw = tuple(bits), {}
        elif form == "liststr":
            arg, kw = [str(b) for b in bits], {}
        else:
            arg, kw = int("".join(map(str, bits)), 2), {"nqubits": n}
        c = comp_basis_encoder(arg, **kw)
        real = [[type(g).__name__, int(g.qubits[0])] for g in c.queue]
        if form == "int":
            exprs.append(f"comp_basis (bits_of_nat {n} {arg})")
        else:
            exprs.append(f"comp_basis {coq_bits(bits)}")
        # data level: the prepared state is the basis state |bits>
        state = np.asarray(c().state())
        idx = int("".join(map(str, bits)), 2)
        okstate = abs(state[idx] - 1) < TOL and c.nqubits == n
        checks.append(("comp_basis", {"bits": bits, "form": form}, [["X", q] for q in range(n) if bits[q]], real, okstate))
    for n in range(2, 13):
        c = ghz_state(n)
        real = [[type(g).__name__] + [int(q) for q in g.qubits] for g in c.queue]
        exprs.append(f"ghz_cnots {n}")
        state = np.asarray(c().state())
        okstate = abs(state[0] - 2 ** -0.5) < TOL and abs(state[-1] - 2 ** -0.5) < TOL and abs(np.linalg.norm(state) - 1) < TOL
        checks.append(("ghz", {"n": n}, None, real, okstate))
    vals = run.coq_eval("C20_simple.v", HEADER, exprs)
    if vals is None:
        run.find("coq:C20_simple", "generated file does not compile", {}, concrete=False)
        return
    for (kind, meta, _, real, okstate), v in zip(checks, vals):
        m = tolist(parse_coq(v))
        run.case([kind, meta])
        if kind == "comp_basis":
            exp = [["X", q] for q in m]
        else:
            exp = [["H", 0]] + [["CNOT", a, b] for a, b in m]
        if exp != real:
            run.find(f"corr:{kind}:structure:{hashlib.sha1(json.dumps(meta).encode()).hexdigest()[:10]}",
                     f"{kind} gate list differs from the model", {**meta, "real": real, "model": exp}, concrete=False)
        if not okstate:
            run.find(f"{kind}:state:{hashlib.sha1(json.dumps(meta).encode()).hexdigest()[:10]}",
                     f"{kind} does not prepare the documented state", meta)
    # phase_encoder: one rotation per qubit carrying data[q]
    for _ in range(count // 2):
        n = rng.randint(1, 8)
        data = [round(rng.uniform(-3, 3), 3) if rng.random() < 0.8 else 0.0 for _ in range(n)]
        rot = rng.choice(["RX", "RY", "RZ"])
        c = phase_encoder(data if rng.random() < 0.5 else np.array(data), rotation=rot)
        real = [[type(g).__name__, int(g.qubits[0]), float(g.parameters[0])] for g in c.queue]
        run.case(["phase_encoder", n, rot, data])
        if real != [[rot, q, float(data[q])] for q in range(n)]:
            run.find(f"phase_encoder:{rot}:{n}", "phase_encoder gate list is not one rotation(q, data[q]) per qubit",
                     {"data": data, "rotation": rot, "real": real})
        # product state check
        state = np.asarray(c().state())
        amp = lambda th, b: {"RX": (math.cos(th / 2), -1j * math.sin(th / 2)), "RY": (math.cos(th / 2), math.sin(th / 2)),
                             "RZ": (np.exp(-1j * th / 2), 0)}[rot][b]
        exp = np.array([np.prod([amp(data[q], (x >> (n - 1 - q)) & 1) for q in range(n)]) for x in range(2 ** n)])
        if np.abs(state - exp).max() > TOL:
            run.find(f"phase_encoder:state:{rot}:{n}", "phase_encoder state is not the product of single-qubit rotations", {"data": data, "rotation": rot})


# ------------------------------------------------------------------ (c) unary encoder
def unary_structure(run):
    from qibo.models.encodings import _generate_rbs_pairs, unary_encoder
    exprs, reals = [], []
    for n in (2, 4, 8, 16, 32):
        c, rows = _generate_rbs_pairs(n, "tree")
        reals.append(("tree", n, [[int(a), int(b)] for row in rows for a, b in row], [[type(g).__name__] + [int(q) for q in g.qubits] for g in c.queue],
                      [[[int(a), int(b)] for a, b in row] for row in rows]))
        exprs.append(f"(rbs_pairs_tree {n}, rbs_rows_tree {n})")
    for n in range(2, 13):
        c, rows = _generate_rbs_pairs(n, "diagonal")
        reals.append(("diagonal", n, [[int(a), int(b)] for row in rows for a, b in row], [[type(g).__name__] + [int(q) for q in g.qubits] for g in c.queue], None))
        exprs.append(f"(rbs_pairs_diagonal {n}, @nil (list (nat * nat)))")
    vals = run.coq_eval("C20_unary.v", HEADER, exprs)
    if vals is None:
        run.find("coq:C20_unary", "generated file does not compile", {}, concrete=False)
        return
    for (arch, n, pairs, gl, rows), v in zip(reals, vals):
        m, mrows = tolist(parse_coq(v))
        run.case(["rbs_pairs", arch, n])
        ok = (m == pairs and gl == [["RBS", a, b] for a, b in pairs] and (rows is None or mrows == rows))
        if ok:
            # the encoder itself: X(n-1) followed by exactly these RBS gates
            c = unary_encoder(np.arange(1.0, n + 1), arch)
            q = [[type(g).__name__] + [int(x) for x in g.qubits] for g in c.queue]
            ok = q == [["X", n - 1]] + [["RBS", a, b] for a, b in pairs]
        if not ok:
            run.find(f"corr:unary:pairs:{arch}:{n}", "_generate_rbs_pairs / unary_encoder gate list differs from the model",
                     {"architecture": arch, "n": n, "real": pairs, "model": m}, concrete=False)


def unary_amplitudes(circuit, n):
    s = np.asarray(circuit().state())
    amps = np.array([s[2 ** i] for i in range(n)])
    rest = np.delete(s, [2 ** i for i in range(n)])
    return amps, rest


def has_zero_block(data):
    """an aligned block data[2^m j : 2^m (j+1)], m >= 1, that is entirely zero (a zero partial norm of the tree)"""
    n = len(data)
    m = 2
    while m <= n:
        for j in range(0, n, m):
            if all(x == 0 for x in data[j:j + m]):
                return True
        m *= 2
    return False


def unary_data(run, rng, count):
    from qibo.models.encodings import unary_encoder
    stats = {"tree": 0, "diagonal": 0, "tree_zero_block_nan": 0}
    fixed = [("tree", [0.0, 0.0, 1.0, 2.0]), ("diagonal", [0.0, 0.0, 1.0, 2.0]), ("tree", [1.0, 2.0, 0.0, 0.0]),
             ("tree", [1.0, 0.0, 0.0, 2.0]), ("diagonal", [0.0, 0.0, 0.0, 1.0]), ("tree", [-1.0, 2.0, -3.0, 4.0]),
             ("diagonal", [-1.0, -2.0, 0.0, -4.0, 0.0])]
    cases = list(fixed)
    for _ in range(count):
        arch = rng.choice(["tree", "diagonal"])
        n = rng.choice([2, 4, 8]) if arch == "tree" else rng.randint(2, 9)
        kind = rng.random()
        data = [round(rng.uniform(-2, 2), 3) for _ in range(n)]
        if kind < 0.5:
            for i in range(n):
                if rng.random() < 0.4:
                    data[i] = 0.0
        if all(x == 0 for x in data):
            data[rng.randrange(n)] = 1.0
        cases.append((arch, data))
    for arch, data in cases:
        n = len(data)
        with warnings.catch_warnings():
            warnings.simplefilter("ignore")
            try:
                amps, rest = unary_amplitudes(unary_encoder(np.array(data, dtype=float), arch), n)
                err = None
            except Exception as e:
                amps, err = None, f"{type(e).__name__}: {e}"
        tgt = np.array(data) / np.linalg.norm(data)
        run.case(["unary_data", arch, data])
        stats[arch] += 1
        ok = err is None and not np.isnan(amps).any() and np.abs(amps - tgt).max() < TOL and np.abs(rest).max() < TOL
        if ok:
            continue
        if arch == "tree" and has_zero_block(data):
            # repaired defect (zero partial norm -> acos(0/0)): a VIOLATION if it returns
            stats["tree_zero_block_nan"] += 1
            run.find("unary:tree:zero-partial-norm:" + json.dumps([int(x) if float(x).is_integer() else x for x in data]).replace(" ", ""),
                     "unary_encoder(data, 'tree') divides by a zero partial norm (acos(0/0)): NaN angles/amplitudes when an aligned "
                     "block data[2^m j : 2^m (j+1)] (m >= 1) is entirely zero",
                     {"data": data, "architecture": arch, "amplitudes": None if amps is None else [str(a) for a in amps], "error": err})
            continue
        run.find(f"unary:data:{arch}:{hashlib.sha1(json.dumps(data).encode()).hexdigest()[:10]}",
                 "unary_encoder amplitudes differ from data/||data||",
                 {"data": data, "architecture": arch, "amplitudes": None if amps is None else [str(a) for a in amps], "error": err})
    # every 0/1 pattern of length 4 and 8 (all placements of all-zero aligned blocks) must be loaded exactly
    bad = []
    for n in (4, 8):
        for pat in itertools.product([0.0, 1.0], repeat=n):
            if not any(pat):
                continue
            with warnings.catch_warnings():
                warnings.simplefilter("ignore")
                try:
                    amps, rest = unary_amplitudes(unary_encoder(np.array(pat), "tree"), n)
                    okp = (not np.isnan(amps).any()) and np.abs(amps - np.array(pat) / np.linalg.norm(pat)).max() < TOL \
                        and np.abs(rest).max() < TOL
                except Exception:
                    okp = False
            run.case(["unary_tree_pattern", list(pat)], nontrivial=has_zero_block(list(pat)))
            stats["tree_zero_block_patterns"] = stats.get("tree_zero_block_patterns", 0) + has_zero_block(list(pat))
            if not okp:
                bad.append(list(pat))
    for pat in bad[:3]:
        run.find("unary:tree:zero-partial-norm:" + json.dumps([int(x) for x in pat]).replace(" ", ""),
                 "unary_encoder(data, 'tree') does not load a 0/1 pattern with an all-zero aligned block",
                 {"data": pat, "architecture": "tree"})
    return stats


# ------------------------------------------------------------------ (d) Ehrlich walk / hamming_weight_encoder
def ehrlich_real(init):
    from qibo.models.encodings import _ehrlich_algorithm
    try:
        strings, tc = _ehrlich_algorithm(np.array(init))
    except Exception as e:
        return None, f"{type(e).__name__}"
    moves = [[int(q[0]), int(q[1]), sorted(int(c) for c in cs)] for q, cs in tc]
    return [[int(ch) for ch in s[::-1]] for s in strings], moves


def ehrlich_corr(run, rng, nmax):
    inits = []
    for n in range(2, nmax + 1):
        for k in range(1, n):
            inits.append([1] * k + [0] * (n - k))
    # shifted blocks of ones (documented as acceptable) and malformed (non-consecutive) strings
    for _ in range(60):
        n = rng.randint(3, 8)
        k = rng.randint(1, n - 1)
        off = rng.randint(0, n - k)
        inits.append([0] * off + [1] * k + [0] * (n - k - off))
    for _ in range(60):
        n = rng.randint(3, 8)
        s = [rng.randint(0, 1) for _ in range(n)]
        if 0 < sum(s) < n:
            inits.append(s)
    stats = {"inputs": 0, "rejected_by_both": 0, "strings": 0}
    for lo in range(0, len(inits), 60):
        chunk = inits[lo:lo + 60]
        exprs = [f"ehrlich {coq_bits(s)}" for s in chunk]
        vals = run.coq_eval(f"C20_ehrlich_{lo // 60}.v", HEADER, exprs, timeout=900)
        if vals is None:
            run.find("coq:C20_ehrlich", "generated file does not compile", {}, concrete=False)
            return stats
        for s, v in zip(chunk, vals):
            m = parse_coq(v)
            real_strings, real_moves = ehrlich_real(s)
            stats["inputs"] += 1
            run.case(["ehrlich", s])
            if real_strings is None:
                stats["rejected_by_both"] += m is None
                agree = m is None
            else:
                stats["strings"] += len(real_strings)
                agree = m is not None and [[int(b) for b in x] for x in m[0]] == real_strings and \
                    [[o, i, sorted(cs)] for (o, i, cs) in m[1]] == real_moves
            if not agree:
                run.find(f"corr:ehrlich:{''.join(map(str, s))}", "Coq model of _ehrlich_algorithm and the implementation disagree",
                         {"initial_string": s, "real_error": real_moves if real_strings is None else None}, concrete=False)
            # direct check of the property on the real output (for the documented inputs: ones consecutive)
            if real_strings is not None and consecutive(s):
                n, k = len(s), sum(s)
                okp = (len(real_strings) == math.comb(n, k) and len({tuple(x) for x in real_strings}) == len(real_strings)
                       and all(sum(x) == k and len(x) == n for x in real_strings)
                       and all(sum(a != b for a, b in zip(x, y)) == 2 for x, y in zip(real_strings, real_strings[1:])))
                if not okp:
                    run.find(f"ehrlich:walk:{''.join(map(str, s))}", "the walk does not visit every weight-k string exactly once by single transpositions",
                             {"initial_string": s})
            elif real_strings is None and consecutive(s):
                run.find(f"ehrlich:raises:{''.join(map(str, s))}", f"_ehrlich_algorithm raises {real_moves} on a documented input", {"initial_string": s})
    return stats


def consecutive(s):
    ones = [i for i, b in enumerate(s) if b]
    return bool(ones) and ones[-1] - ones[0] + 1 == len(ones)


def hw_structure(run, nmax):
    from qibo.models.encodings import hamming_weight_encoder
    exprs, reals = [], []
    for n in range(2, nmax + 1):
        for k in range(1, n):
            for opt in (True, False):
                d = math.comb(n, k)
                c = hamming_weight_encoder(np.arange(1.0, d + 1), n, k, optimize_controls=opt)
                xs = [int(g.qubits[0]) for g in c.queue if type(g).__name__ == "X"]
                gl = [[int(g.target_qubits[0]), int(g.target_qubits[1]), sorted(int(q) for q in g.control_qubits)]
                      for g in c.queue if type(g).__name__ == "RBS"]
                other = [type(g).__name__ for g in c.queue if type(g).__name__ not in ("X", "RBS")]
                reals.append((n, k, opt, xs, gl, other))
                exprs.append(f"(hw_x_gates {n} {k}, hw_gates {n} {k} {'true' if opt else 'false'} (initial_string {n} {k}))")
    vals = run.coq_eval("C20_hw_struct.v", HEADER, exprs, timeout=900)
    if vals is None:
        run.find("coq:C20_hw_struct", "generated file does not compile", {}, concrete=False)
        return
    for (n, k, opt, xs, gl, other), v in zip(reals, vals):
        mx, mg = parse_coq(v)
        run.case(["hw_structure", n, k, opt])
        if other or list(mx) != xs or mg is None or [[a, b, list(cs)] for (a, b, cs) in mg] != gl:
            run.find(f"corr:hw:structure:{n}:{k}:{opt}", "hamming_weight_encoder gate skeleton differs from the model",
                     {"n": n, "k": k, "optimize_controls": opt, "real": gl[:20], "other_gates": other}, concrete=False)


def weight_k_indices(n, k):
    return [x for x in range(2 ** n) if bin(x).count("1") == k]


def hw_data(run, rng, count):
    from qibo.models.encodings import hamming_weight_encoder
    stats = {"real": 0, "complex": 0}
    for t in range(count):
        n = rng.randint(2, 6)
        k = rng.randint(1, n - 1)
        d = math.comb(n, k)
        cplx = rng.random() < 0.4
        data = np.array([round(rng.uniform(-2, 2), 3) for _ in range(d)])
        if cplx:
            data = data + 1j * np.array([round(rng.uniform(-2, 2), 3) for _ in range(d)])
        if rng.random() < 0.5:
            for i in range(d):
                if rng.random() < 0.35:
                    data[i] = 0
        if not np.any(data):
            data[rng.randrange(d)] = 1
        opt = rng.random() < 0.5
        desc = {"n": n, "k": k, "data": [str(x) for x in data], "optimize_controls": opt, "complex": cplx}
        run.case(["hw_data", desc])
        stats["complex" if cplx else "real"] += 1
        with warnings.catch_warnings():
            warnings.simplefilter("ignore")
            try:
                c = hamming_weight_encoder(data, n, k, optimize_controls=opt)
                s = np.asarray(c().state())
                err = None
            except Exception as e:
                s, err = None, f"{type(e).__name__}: {e}"
        idx = weight_k_indices(n, k)
        tgt = data / np.linalg.norm(data)
        ok = err is None and not np.isnan(s).any() and np.abs(s[idx] - tgt).max() < TOL and np.abs(np.delete(s, idx)).max() < TOL
        if not ok:
            run.find(f"hw:data:{hashlib.sha1(json.dumps(desc).encode()).hexdigest()[:10]}",
                     "hamming_weight_encoder amplitudes differ from data/||data|| on the weight-k strings in lexicographic order",
                     {**desc, "error": err, "amplitudes": None if s is None else [str(x) for x in s[idx]]})
    return stats


# ------------------------------------------------------------------ (e) binary encoder
def binary_data(run, rng, count):
    from qibo.models.encodings import binary_encoder
    stats = {"hyperspherical_real": 0, "hyperspherical_complex": 0, "hopf_real": 0, "hopf_zero_block": 0}
    for t in range(count):
        n = rng.randint(1, 4)
        d = 2 ** n
        par = rng.choice(["hyperspherical", "hopf"])
        cplx = par == "hyperspherical" and rng.random() < 0.4
        data = np.array([round(rng.uniform(-2, 2), 3) for _ in range(d)])
        if cplx:
            data = data + 1j * np.array([round(rng.uniform(-2, 2), 3) for _ in range(d)])
        if rng.random() < 0.4:
            for i in range(d):
                if rng.random() < 0.3:
                    data[i] = 0
        if not np.any(data):
            data[rng.randrange(d)] = 1
        desc = {"n": n, "parametrization": par, "data": [str(x) for x in data]}
        run.case(["binary_data", desc])
        with warnings.catch_warnings():
            warnings.simplefilter("ignore")
            try:
                c = binary_encoder(data, parametrization=par)
                s = np.asarray(c().state())
                err = None
            except Exception as e:
                s, err = None, f"{type(e).__name__}: {e}"
        tgt = data / np.linalg.norm(data)
        key = par + ("_complex" if cplx else "_real")
        stats[key] = stats.get(key, 0) + 1
        ok = err is None and not np.isnan(s).any() and np.abs(s - tgt).max() < TOL
        if ok:
            continue
        if par == "hopf" and has_zero_block([float(abs(x)) for x in data]):
            stats["hopf_zero_block"] += 1      # repaired defect (tree angle generator): a VIOLATION if it returns
        run.find(f"binary:data:{hashlib.sha1(json.dumps(desc).encode()).hexdigest()[:10]}",
                 "binary_encoder amplitudes differ from data/||data||", {**desc, "error": err, "state": None if s is None else [str(x) for x in s]})
    return stats


BIN_HOPF_ZERO = []


def binary_structure(run, nmax):
    """gate skeletons of binary_encoder (real data) against hopf_skeleton / hyper_skeleton"""
    from qibo.models.encodings import binary_encoder
    exprs, reals = [], []
    for par, coq in (("hopf", "Some (hopf_skeleton {n})"), ("hyperspherical", "hyper_skeleton {n}")):
        for n in range(1, nmax + 1):
            c = binary_encoder(np.arange(1.0, 2 ** n + 1), parametrization=par)
            q = []
            for g in c.queue:
                nm = type(g).__name__
                if nm == "X":
                    q.append([0, [int(g.qubits[0])]])
                elif nm in ("RY", "CRY"):
                    q.append([1, [int(g.target_qubits[0])] + sorted(int(x) for x in g.control_qubits)])
                elif nm == "RBS":
                    q.append([2, [int(x) for x in g.target_qubits] + sorted(int(x) for x in g.control_qubits)])
                else:
                    q.append([99, [int(x) for x in g.qubits]])
            reals.append((par, n, q))
            exprs.append(coq.format(n=n))
    vals = run.coq_eval("C20_binary_struct.v", HEADER, exprs, timeout=900)
    if vals is None:
        run.find("coq:C20_binary_struct", "generated file does not compile", {}, concrete=False)
        return
    for (par, n, q), v in zip(reals, vals):
        m = parse_coq(v)
        run.case(["binary_structure", par, n])
        if m is None or tolist(m) != q:
            run.find(f"corr:binary:structure:{par}:{n}", "binary_encoder gate skeleton differs from the model",
                     {"parametrization": par, "n": n, "real": q[:30]}, concrete=False)


def hopf_zero_block(run):
    from qibo.models.encodings import binary_encoder
    data = np.array([0.0, 0.0, 1.0, 2.0])
    with warnings.catch_warnings():
        warnings.simplefilter("ignore")
        try:
            s = np.asarray(binary_encoder(data, parametrization="hopf")().state())
            bad = bool(np.isnan(s).any()) or np.abs(s - data / np.linalg.norm(data)).max() > TOL
            err = None
        except Exception as e:
            bad, err, s = True, f"{type(e).__name__}: {e}", None
    run.case(["binary_hopf_zero_block"])
    if bad:
        run.find("binary:hopf:zero-partial-norm:[0,0,1,2]",
                 "binary_encoder(data, 'hopf') uses the tree angle generator and hits the same acos(0/0): NaN amplitudes when an "
                 "aligned block of the data is entirely zero (repaired; a VIOLATION if it returns)", {"data": [0, 0, 1, 2], "error": err, "state": None if s is None else [str(x) for x in s]})


RULE = ("dtype x sparsity x sign matrix for every data encoder (float64 / int64 / complex dtype with zero imaginary parts / genuinely complex; dense positive, mixed, negative, sparse, basis vectors, +-1 patterns); QFT: n=1..5 (6 thorough) operator obligations (both variants), n<=12 structure; comp_basis: random bit strings in all accepted "
        "input formats; ghz n=2..12; phase_encoder random data/rotation; unary: pairs for tree n=2..32 and diagonal n=2..12, data with "
        "zeros/negatives/sparse + all 0/1 patterns of length 4 and 8 for the NaN condition; Ehrlich: every (n,k), n<=10, plus shifted "
        "and malformed initial strings; hamming_weight_encoder skeleton for every (n,k), n<=7, both optimize_controls, data incl. "
        "complex; binary_encoder hyperspherical (real/complex) and hopf (real)")


# ------------------------------------------------------------------ entangling_layer / phase_encoder / random gaussian loader
ARCHS = [("diagonal", "ADiagonal"), ("even_layer", "AEven"), ("odd_layer", "AOdd"), ("shifted", "AShifted"),
         ("next_nearest", "ANextNearest"), ("pyramid", "APyramid"), ("v", "AV"), ("x", "AX")]


def layers_structure(run, rng, nmax):
    """entangling_layer: every architecture x n x closed_boundary x gate kind against Model.ent_pairs;
    phase_encoder against Model.phase_gates; unary_encoder_random_gaussian against the tree pairs"""
    from qibo.models.encodings import entangling_layer, phase_encoder, unary_encoder_random_gaussian
    exprs, reals = [], []
    for name, coq in ARCHS:
        for n in range(2, nmax + 1):
            if name == "x" and n % 2:
                continue
            for closed in (False, True):
                gname = rng.choice(["CNOT", "CZ", "RBS", "RXX", "fSim", "SWAP"])
                c = entangling_layer(n, name, gname, closed)
                q = [[int(g.qubits[0]), int(g.qubits[1])] if gname != "CNOT" else [int(g.control_qubits[0]), int(g.target_qubits[0])]
                     for g in c.queue]
                okgate = all(type(g).__name__ == gname and all(float(p) == 0.0 for p in g.parameters) for g in c.queue)
                reals.append((name, n, closed, gname, q, okgate))
                exprs.append(f"ent_pairs {coq} {n} {'true' if closed else 'false'}")
    vals = run.coq_eval("C20_layers.v", HEADER, exprs, timeout=600)
    if vals is None:
        run.find("coq:C20_layers", "generated file does not compile", {}, concrete=False)
        return
    for (name, n, closed, gname, q, okgate), v in zip(reals, vals):
        m = tolist(parse_coq(v.replace("::", ",").replace("nil", "()"))) if "::" in v else tolist(parse_coq(v))
        run.case(["entangling_layer", name, n, closed, gname])
        if flatten_pairs(m) != q or not okgate:
            run.find(f"corr:entangling_layer:{name}:{n}:{closed}", "entangling_layer gate list differs from the model ent_pairs",
                     {"architecture": name, "n": n, "closed_boundary": closed, "gate": gname, "real": q}, concrete=False)
        # direct check of the documented shape: two distinct qubits of the register per gate
        if any(a == b or not (0 <= a < n and 0 <= b < n) for a, b in q):
            run.find(f"entangling_layer:{name}:{n}:{closed}", "entangling_layer emits a gate outside the register / on equal qubits",
                     {"architecture": name, "n": n, "closed_boundary": closed, "real": q})
    # the random Gaussian loader has the structure of the tree unary encoder
    for n in (2, 4, 8, 16):
        c = unary_encoder_random_gaussian(n, seed=int(rng.randrange(1000)))
        q = [[type(g).__name__] + [int(x) for x in g.qubits] for g in c.queue]
        from qibo.models.encodings import _generate_rbs_pairs
        _, rows = _generate_rbs_pairs(n, "tree")
        run.case(["unary_random_gaussian", n])
        if q != [["X", n - 1]] + [["RBS", int(a), int(b)] for row in rows for a, b in row]:
            run.find(f"corr:unary_random_gaussian:{n}", "unary_encoder_random_gaussian is not X(n-1) + the tree RBS pairs", {"n": n}, concrete=False)


def flatten_pairs(m):
    return [[int(a), int(b)] for a, b in m]


# ------------------------------------------------------------------ dtype x sparsity x sign matrix of encoder inputs
def matrix_vectors(rng, d):
    dense = [round(rng.uniform(0.2, 2.0), 3) for _ in range(d)]
    out = {"dense_pos": list(dense), "dense_mixed": [x if i % 2 else -x for i, x in enumerate(dense)],
           "dense_neg": [-x for x in dense]}
    sp = [0.0] * d
    sp[rng.randrange(d)] = 1.5
    sp[rng.randrange(d)] = -0.7
    out["sparse"] = sp
    for nme, pos, val in (("basis_mid", d // 2, 1.0), ("basis_first_neg", 0, -1.0), ("basis_last", d - 1, 1.0)):
        v = [0.0] * d
        v[pos] = val
        out[nme] = v
    out["pm_ones"] = [rng.choice([1.0, -1.0]) for _ in range(d)]
    return out


def cast_vec(v, dt):
    if dt == "float64":
        return np.array(v, dtype=float)
    if dt == "int64":
        x = np.rint(np.array(v) * 2).astype(np.int64)
        if not x.any():
            x[0] = 1
        return x
    if dt == "complex_zero_imag":          # complex dtype, every imaginary part exactly zero
        return np.array(v, dtype=complex)
    if dt == "complex":
        return np.array(v, dtype=complex) * np.exp(1j * np.linspace(0.3, 2.0, len(v)))
    raise ValueError(dt)


def run_encoder(enc, args, x):
    from qibo.models.encodings import binary_encoder, hamming_weight_encoder, unary_encoder
    if enc == "binary":
        s = np.asarray(binary_encoder(x, parametrization=args["parametrization"])().state())
        return s, None
    if enc == "hw":
        s = np.asarray(hamming_weight_encoder(x, args["n"], args["k"], optimize_controls=args.get("optimize_controls", True))().state())
        return s, weight_k_indices(args["n"], args["k"])
    s = np.asarray(unary_encoder(x, args["architecture"])().state())
    return s, [2 ** i for i in range(len(x))]


def encoder_ok(enc, args, x):
    with warnings.catch_warnings():
        warnings.simplefilter("ignore")
        try:
            s, idx = run_encoder(enc, args, x)
        except Exception as e:
            return f"raises {type(e).__name__}: {str(e)[:80]}"
    tgt = x / np.linalg.norm(x)
    if idx is not None:
        if np.abs(np.delete(s, idx)).max() > TOL:
            return "amplitude outside the documented basis states"
        s = s[idx]
    if np.isnan(s).any() or np.abs(s - tgt).max() > TOL:
        return f"amplitudes differ from data/||data|| (max {float(np.nanmax(np.abs(s - tgt))):.2e})"
    return None


# which dtypes each encoder is exercised with (the others are not documented as supported: unary encoders and the
# hopf parametrization are real-valued constructions; float32 data cannot meet the 1e-10 tolerance)
MATRIX = [
    ("binary", {"parametrization": "hyperspherical"}, (2, 4, 8), ("float64", "int64", "complex_zero_imag", "complex")),
    ("binary", {"parametrization": "hopf"}, (2, 4, 8), ("float64", "int64", "complex_zero_imag")),
    ("hw", {"n": 4, "k": 2}, (6,), ("float64", "int64", "complex_zero_imag", "complex")),
    ("hw", {"n": 5, "k": 3, "optimize_controls": False}, (10,), ("float64", "complex_zero_imag", "complex")),
    ("unary", {"architecture": "tree"}, (4, 8), ("float64", "int64", "complex_zero_imag")),
    ("unary", {"architecture": "diagonal"}, (3, 5, 8), ("float64", "int64")),
]


def dtype_matrix_test(run, rng):
    stats = {}
    for enc, args, sizes, dtypes in MATRIX:
        for d in sizes:
            for pname, v in matrix_vectors(rng, d).items():
                for dt in dtypes:
                    x = cast_vec(v, dt)
                    desc = {"encoder": enc, "args": args, "dtype": dt, "pattern": pname, "data": [str(c) for c in x]}
                    run.case(["dtype_matrix", desc])
                    stats[f"{enc}:{dt}"] = stats.get(f"{enc}:{dt}", 0) + 1
                    why = encoder_ok(enc, args, x)
                    if why:
                        tag = args.get("parametrization") or args.get("architecture") or f"{args['n']}_{args['k']}"
                        run.find(f"dtype:{enc}-{tag}:{dt}:{pname}:{d}", f"{enc} encoder ({tag}) on {dt} data, pattern {pname}: {why}", desc)
    # phase_encoder: ints, negative values, lists and arrays
    from qibo.models.encodings import phase_encoder
    for data in ([1, -2, 0, 3], np.array([0, 0, 0]), [0.5, -0.25], np.array([-1.5, 2.0, 0.0, 1.0, -3.0])):
        for rot in ("RX", "RY", "RZ"):
            run.case(["dtype_matrix", "phase", rot, [float(x) for x in data]])
            try:
                c = phase_encoder(data, rotation=rot)
                okp = [[type(g).__name__, int(g.qubits[0]), float(g.parameters[0])] for g in c.queue] == \
                    [[rot, q, float(data[q])] for q in range(len(data))]
            except Exception as e:
                okp = False
            if not okp:
                run.find(f"dtype:phase:{rot}:{len(data)}", "phase_encoder does not build one rotation(q, data[q]) per qubit",
                         {"data": [float(x) for x in data], "rotation": rot})
    return stats


def replay_dtype(run, key, what, rp):
    dt = rp["dtype"]
    x = np.array([complex(c.replace("(", "").replace(")", "")) for c in rp["data"]])
    if dt == "float64":
        x = x.real.astype(float)
    elif dt == "int64":
        x = np.rint(x.real).astype(np.int64)
    why = encoder_ok(rp["encoder"], rp["args"], x)
    if why:
        run.find(key, what + " | " + why, rp)


def cap_findings(run, per_class=3):
    orig, count = run.find, {}

    def find(key, what, replay=None, concrete=True):
        parts = key.split(":")
        fam = ":".join(parts[:3] if parts[0] == "corr" else parts[:2])
        count[fam] = count.get(fam, 0) + 1
        if count[fam] <= per_class:
            orig(key, what, replay, concrete)
        else:
            run.notes["suppressed_duplicate_findings"] = {**run.notes.get("suppressed_duplicate_findings", {}), fam: count[fam] - per_class}
    run.find = find


def main(run):
    cap_findings(run)
    rng = random.Random(run.seed)
    thorough = run.tier == "thorough"
    run.trusted += ["Coq 8.16.1 kernel, vm_compute", "Base/TrigNF.v, Base/TrigMat.v (proved sound) for the QFT instances",
                    "lib/symtrace.py tracer: the float math.pi / 2**k is read as the exact multiple pi/2^k",
                    "Base/Mat.v embed/cembed as the meaning of 'gate on qubits' (qubit 0 most significant)",
                    "numpy state-vector simulation for the data-level tests (tolerance 1e-10, labelled 'test')"]
    run.assumptions += ["exact real arithmetic in the QFT obligations (rounding not modelled)",
                        "data-dependent angles (acos / arctan2 / norms) are not modelled in Coq: amplitudes are compared numerically ('test')"]
    names = vcore.props_theorems("C20/Props.v")
    ok, pa = vcore.static_assumptions("C20/Props")
    for nme in names:
        run.oblige(nme, ok and nme in pa, "theorem")
        if ok and "Closed under" not in pa.get(nme, ""):
            for m in re.finditer(r"([A-Za-z_][\w.]*) :", pa.get(nme, "")):
                run.axioms.add(m.group(1))
    run.notes["print_assumptions"] = pa
    run.not_proved += [
        "qft_ok is PROVED for all n >= 1, both variants (qft_ok, qft_ok_noswap and their complex instances: every column of the product "
        "matrix circ_mat(QFT n) of Base/Mat.v is the DFT column, bit-reversed output without swaps; pstep_rules_agree_with_matrices; matrix "
        "associativity proved). Remaining outside the static proof: the real H / CU1(pi/2^k) / SWAP matrices equal the matrices of "
        "to_gapp -- proved per run by TrigMat obligations for k <= 6, compared numerically for k = 7..12",
        "ehrlich_enumerates is PROVED for ALL n and all initial strings with consecutive ones (ehrlich_enumerates, ehrlich_enumerates_initial: "
        "the walk never fails, has binom(n,k) strings without repetition = exactly the weight-k strings, ends on the closed form endf, every step "
        "is the reported transposition); independent cross-check by computation for n <= 10 (ehrlich_enumerates_bounded)",
        "unary encoders: PROVED at ring level for all n, no division (zero blocks included): the diagonal ladder (rbs_chain_rotations, "
        "unary_diagonal_ok_ring) and the BREADTH-FIRST tree gate list of _generate_rbs_pairs (unary_tree_bfs_ok_ring; recursive form "
        "unary_tree_ok_ring). NOT proved: that the acos/atan2 angle formulas of the real code satisfy the load equations (data-level tests "
        "incl. all 0/1 patterns of length 4 and 8)",
        "hw_encoder_ok at ring level is PROVED for ALL n and k with the control sets the code emits, both optimize_controls settings "
        "(hw_encoder_ok, hw_emitted_chain_ok: Model.hw_gates = mirror + sort + optimisation mask satisfies chain_ok; the mask drops exactly the "
        "controls on prefix positions where every loaded string carries a one -- prefix_block over the Ehrlich walk); array-coordinate variant "
        "hw_encoder_ok_full_controls. NOT proved (data-level tests only): complex data (RZ layers, phase correction), the lexicographic "
        "re-ordering of the data, that arctan2/norm angles satisfy the load equations",
        "entangling_layer (8 architectures, closed boundary), phase_encoder: PROVED for all n at the structural level (entangling_layer_ok, "
        "entangling_shifted_is_diagonal, entangling_layer_sizes, phase_encoder_ok) + exact structural correspondence; "
        "binary_encoder: hopf rotations are fully controlled for all n (binary_hopf_rotations_fully_controlled); the hopf / hyperspherical gate "
        "skeletons are tied by structural correspondence for n <= 5 (6 thorough) only, their amplitudes (and unary_encoder_random_gaussian's "
        "sampled angles) are only tested / not covered",
        "still bounded or per-run: ehrlich_enumerates_bounded (an independent vm_compute cross-check, n <= 10, superseded by ehrlich_enumerates); "
        "QFT operator instances n <= 5/6 via TrigMat (cross-check of qft_ok on the traced real gates); gate matrices of H/CU1/SWAP via TrigMat for k <= 6",
    ]
    qft_structure(run, 12)
    qft_instances(run, 6 if thorough else 5)
    qft_product_test(run, rng, 120 if thorough else 40)
    gate_matrix_obligations(run)
    simple_encoders(run, rng, 120 if thorough else 40)
    unary_structure(run)
    run.notes["unary_data"] = unary_data(run, rng, 300 if thorough else 80)
    run.notes["ehrlich"] = ehrlich_corr(run, rng, 10 if thorough else 9)
    hw_structure(run, 7 if thorough else 6)
    run.notes["hw_data"] = hw_data(run, rng, 200 if thorough else 50)
    layers_structure(run, rng, 12 if thorough else 9)
    binary_structure(run, 6 if thorough else 5)
    run.notes["binary_data"] = binary_data(run, rng, 200 if thorough else 60)
    hopf_zero_block(run)
    run.notes["dtype_matrix"] = dtype_matrix_test(run, rng)
    return run.finish(rule=RULE)


def replay(run, data):
    rp = data.get("replay", {})
    key = data.get("key", "")
    rng = random.Random(0)
    if key.startswith("dtype:") and "encoder" in rp:
        replay_dtype(run, key, data.get("what", ""), rp)
    elif key.startswith("unary:"):
        from qibo.models.encodings import unary_encoder
        d, arch = rp.get("data"), rp.get("architecture")
        if d is not None:
            with warnings.catch_warnings():
                warnings.simplefilter("ignore")
                try:
                    amps, rest = unary_amplitudes(unary_encoder(np.array(d, dtype=float), arch), len(d))
                    bad = bool(np.isnan(amps).any()) or np.abs(amps - np.array(d) / np.linalg.norm(d)).max() > TOL
                except Exception:
                    bad = True
            if bad:
                run.find(key, data.get("what", ""), rp)
    elif key.startswith("binary:hopf"):
        hopf_zero_block(run)
    elif key.startswith("qft:") or key.startswith("corr:qft"):
        qft_structure(run, 12)
        qft_instances(run, 4)
    elif key.startswith("hw:data") or key.startswith("binary:data"):
        from qibo.models.encodings import hamming_weight_encoder, binary_encoder
        d = np.array([complex(x) for x in rp["data"]])
        if not rp.get("complex", True) or np.all(d.imag == 0):
            d = d.real
        with warnings.catch_warnings():
            warnings.simplefilter("ignore")
            try:
                if key.startswith("hw"):
                    s = np.asarray(hamming_weight_encoder(d, rp["n"], rp["k"], optimize_controls=rp["optimize_controls"])().state())
                    idx = weight_k_indices(rp["n"], rp["k"])
                    bad = np.isnan(s).any() or np.abs(s[idx] - d / np.linalg.norm(d)).max() > TOL
                else:
                    s = np.asarray(binary_encoder(d, parametrization=rp["parametrization"])().state())
                    bad = np.isnan(s).any() or np.abs(s - d / np.linalg.norm(d)).max() > TOL
            except Exception:
                bad = True
        if bad:
            run.find(key, data.get("what", ""), rp)
    elif key.startswith("ehrlich") or key.startswith("corr:ehrlich"):
        ehrlich_corr(run, rng, 6)
    else:
        simple_encoders(run, rng, 40)
        unary_structure(run)
        hw_structure(run, 6)
    return run.finish(rule="replay of one recorded case")
