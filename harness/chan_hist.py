"""Histories on long-lived channel objects (shared by harness/c04.py and harness/c17.py).

Model (coq/theories/C04/History.v, C17/History.v): a channel object is the immutable value its constructor
built; every operation (density-matrix execution in a register of any size, state-vector sampling, to_choi /
to_liouville / to_pauli_liouville with any order / nqubits / normalize / pauli_order) is an OBSERVATION that is a
function of (object, arguments of this call) only -- never of the calls made before.  The tie to the real code is
checked here: ONE object is driven through a history of operations; every observation is compared

  * exactly (np.array_equal) with the same observation on a FRESH object built by the same constructor call
    (inside fresh circuits), and
  * with the documented closed form of the class (an index-level superoperator S acting on the target qubits,
    written from the docstrings, independent of the Kraus lists and of the object) -- exact data (Gaussian-integer
    rho, dyadic weights) wherever the class allows it; c04.py additionally evaluates the Coq spec on them;

and the complete attribute tree of the object (deep, incl. numpy buffers of its gates) must be what the
constructor left (the model's transition is the identity), user-supplied constructor arrays and input states
must be unchanged, and arrays returned earlier must not change when later calls are made or when the caller
overwrites another returned array.
"""
import itertools
import math
import random

import numpy as np

ORDERS = ("row", "column", "system")
PAULI_ORDERS = ["".join(p) for p in itertools.permutations("IXYZ")]
P1 = {"I": np.eye(2, dtype=complex), "X": np.array([[0, 1], [1, 0]], dtype=complex),
      "Y": np.array([[0, -1j], [1j, 0]]), "Z": np.diag([1.0 + 0j, -1.0])}


# ----------------------------------------------------------------------------- structural snapshots
def deep_sig(o, seen=frozenset(), depth=0):
    """structural, comparable signature of an object tree (attribute dicts, containers, numpy buffers)"""
    if isinstance(o, (int, float, complex, str, bool, type(None), np.generic, bytes)):
        return repr(o)
    if isinstance(o, np.ndarray):
        return ("nd", o.shape, o.dtype.str, o.tobytes())
    if id(o) in seen or depth > 10:
        return "<cycle>"
    seen = seen | {id(o)}
    if isinstance(o, dict):
        return tuple(sorted((str(k), deep_sig(v, seen, depth + 1)) for k, v in o.items()))
    if isinstance(o, (list, tuple)):
        return tuple(deep_sig(v, seen, depth + 1) for v in o)
    if isinstance(o, (set, frozenset)):
        return tuple(sorted(repr(x) for x in o))
    if hasattr(o, "__dict__"):
        return (type(o).__name__, deep_sig(vars(o), seen, depth + 1))
    return "<" + type(o).__name__ + ">"


def sig_diff(a, b, path=""):
    """first path at which two deep_sig values differ (for the report)"""
    if type(a) != type(b):
        return path or "<root>"
    if isinstance(a, tuple):
        if len(a) != len(b):
            ka = [x[0] for x in a if isinstance(x, tuple) and len(x) == 2 and isinstance(x[0], str)]
            kb = [x[0] for x in b if isinstance(x, tuple) and len(x) == 2 and isinstance(x[0], str)]
            extra = sorted(set(kb) ^ set(ka))
            return (path or "<root>") + (f" (attributes added/removed: {extra})" if extra else " (length)")
        for i, (x, y) in enumerate(zip(a, b)):
            if x != y:
                name = x[0] if isinstance(x, tuple) and len(x) == 2 and isinstance(x[0], str) and len(x[0]) < 40 else str(i)
                if isinstance(x, tuple) and len(x) == 2 and isinstance(x[0], str) and x[0] == (y[0] if isinstance(y, tuple) and y else None):
                    return sig_diff(x[1], y[1], f"{path}.{name}")
                return sig_diff(x, y, f"{path}[{i}]")
    return path or "<root>"


# ----------------------------------------------------------------------------- index-level oracles
def embed_np(n, qs, M):
    """the 2^n operator of M acting on qubits qs (qubit 0 most significant), exact"""
    d, k = 2 ** n, len(qs)
    M = np.asarray(M)
    T = np.reshape(np.asarray(M, dtype=complex), (2,) * (2 * k))
    full = np.zeros((2,) * (2 * n), dtype=complex)
    rest = [q for q in range(n) if q not in qs]
    # out[r, c] = M[r_qs, c_qs] * delta(r_rest, c_rest)
    for bits in itertools.product((0, 1), repeat=len(rest)):
        idx = [slice(None)] * (2 * n)
        for q, b in zip(rest, bits):
            idx[q] = b
            idx[q + n] = b
        sub = full[tuple(idx)]           # axes: remaining row qubits (ascending), then remaining column qubits
        order = sorted(range(k), key=lambda t: qs[t])
        sub[...] = np.transpose(T, order + [k + t for t in order])
    return full.reshape(d, d)


def apply_super(n, qs, S, rho):
    """out[A,B] = sum_{C,D} S[A,B,C,D] rho[C,D] on the blocks of the (ordered) target qubits qs"""
    k = len(qs)
    K = 2 ** k
    t = np.reshape(np.asarray(rho, dtype=complex), (2,) * (2 * n))
    src = list(qs) + [q + n for q in qs]
    t = np.moveaxis(t, src, list(range(2 * k)))
    rest = t.shape[2 * k:]
    t = t.reshape((K, K) + rest)
    out = np.einsum("abcd,cd...->ab...", np.asarray(S).reshape(K, K, K, K), t)
    out = out.reshape((2,) * (2 * k) + rest)
    out = np.moveaxis(out, list(range(2 * k)), src)
    return out.reshape(2 ** n, 2 ** n)


def super_kraus(k, w0, terms):
    """S of  w0 rho + sum w M rho M^dagger  (all M on the same k ordered qubits)"""
    K = 2 ** k
    S = w0 * np.einsum("ac,bd->abcd", np.eye(K), np.eye(K)).astype(complex)
    for w, M in terms:
        M = np.asarray(M, dtype=complex)
        S = S + w * np.einsum("ac,bd->abcd", M, M.conj())
    return S


def super_reset(p0, p1, pz=0.0):
    """documented closed form (1-p0-p1-pz) rho + pz Z rho Z + Tr_q[rho] (x) (p0|0><0| + p1|1><1|)"""
    S = np.zeros((2, 2, 2, 2), dtype=complex)
    for a in range(2):
        for b in range(2):
            S[a, b, a, b] += (1 - p0 - p1 - pz) + pz * (-1) ** (a + b)
    for c in range(2):
        S[0, 0, c, c] += p0
        S[1, 1, c, c] += p1
    return S


def super_thermal_lt(p0, p1, e):
    S = np.zeros((2, 2, 2, 2), dtype=complex)
    S[0, 0, 0, 0], S[0, 0, 1, 1], S[1, 1, 0, 0], S[1, 1, 1, 1] = 1 - p1, p0, p1, 1 - p0
    S[0, 1, 0, 1] = S[1, 0, 1, 0] = e
    return S


def super_depol(k, lam):
    K = 2 ** k
    I = np.eye(K)
    return ((1 - lam) * np.einsum("ac,bd->abcd", I, I) + lam / K * np.einsum("ab,cd->abcd", I, I)).astype(complex)


def super_damping(g, amplitude):
    S = np.zeros((2, 2, 2, 2), dtype=complex)
    s = math.sqrt(1 - g)
    S[0, 0, 0, 0] = 1
    S[0, 1, 0, 1] = S[1, 0, 1, 0] = s
    if amplitude:
        S[0, 0, 1, 1], S[1, 1, 1, 1] = g, 1 - g
    else:
        S[1, 1, 1, 1] = 1
    return S


def super_readout(P):
    """K_{jk} = sqrt(P[k][j]) |j><k| : populations mixed by P, coherences removed"""
    P = np.asarray(P, dtype=float)
    K = len(P)
    S = np.zeros((K, K, K, K), dtype=complex)
    for j in range(K):
        for k in range(K):
            S[j, j, k, k] = P[k, j]
    return S


# ----------------------------------------------------------------------------- specs
class Spec:
    """one constructor call.  oracle(n, rho) = documented map on an n-qubit register (numpy, exact for dyadic data)."""

    def __init__(self, name, cls, build, m, oracle, exact=False, coq=None, scale=1, views="oracle", sv=False, inputs=None,
                 info=None, asym=True):
        self.name, self.cls, self.build, self.m, self.oracle = name, cls, build, m, oracle
        self.exact, self.coq, self.scale, self.views, self.sv = exact, coq, scale, views, sv
        self.inputs = inputs or []          # user arrays handed to the constructor (must never be written)
        self.info = info or {}
        self._L = {}

    def liouville_row(self, n):
        """row-order Liouville matrix of the oracle on n qubits (L[(i,k),(j,l)] = E(|j><l|)[i,k])"""
        if n not in self._L:
            d = 2 ** n
            L = np.zeros((d * d, d * d), dtype=complex)
            if self.views == "own_kraus":     # the views of this class are declared from the object's own operators
                ch = self.build()
                from qibo.backends import _check_backend
                be = _check_backend(None)
                for c, g in zip(ch.coefficients, ch.gates):
                    E = embed_np(n, tuple(g.qubits), np.asarray(g.matrix(be)))
                    L += c * np.kron(E, E.conj())
            else:
                for j in range(d):
                    for l in range(d):
                        B = np.zeros((d, d), dtype=complex)
                        B[j, l] = 1
                        L[:, j * d + l] = self.oracle(n, B).reshape(-1)
            self._L[n] = L
        return self._L[n]


def oracle_terms(w0, terms):
    """w0 rho + sum_k w_k E_k rho E_k^dagger with E_k = M_k on its own ordered qubit tuple"""
    cache = {}

    def f(n, rho):
        if n not in cache:
            cache[n] = [(w, embed_np(n, tuple(q), M)) for w, q, M in terms]
        rho = np.asarray(rho, dtype=complex)
        out = w0 * rho
        for w, E in cache[n]:
            out = out + w * (E @ rho @ E.conj().T)
        return out
    return f


def oracle_super(qs, S):
    return lambda n, rho: apply_super(n, tuple(qs), S, rho)


def irrational_specs(rng, nmax=3):
    """classes whose coefficients are sqrt / exp of the parameters: thermal relaxation (both regimes, 3- and
    4-parameter forms), amplitude / phase damping, readout error (1 and 2 qubits), reset / depolarizing / Pauli /
    unitary channels with non-dyadic probabilities, special values"""
    from qibo import gates
    out = []

    def add(name, cls, build, qs, S, **kw):
        out.append(Spec(name, cls, build, 1 + max(qs), oracle_super(qs, S), **kw))
    for i, (regime, npar) in enumerate([("lt", 4), ("lt", 3), ("ge", 4), ("ge", 3), ("lt", 4), ("ge", 4)]):
        q = rng.randrange(nmax) if i else 1
        t1 = rng.uniform(0.5, 2.0)
        t2 = rng.uniform(1.05 * t1, 1.9 * t1) if regime == "lt" else rng.uniform(0.2 * t1, 0.95 * t1)
        if i == 5:
            t2 = t1                        # boundary t1 == t2 (served by the t1 >= t2 branch)
        t, ex = rng.uniform(0.2, 1.5), (rng.uniform(0.05, 0.6) if npar == 4 else 0.0)
        params = [t1, t2, t] + ([ex] if npar == 4 else [])
        pr = 1 - math.exp(-t / t1)
        p0, p1 = pr * (1 - ex), pr * ex
        if regime == "lt":
            S = super_thermal_lt(p0, p1, math.exp(-t / t2))
        else:
            S = super_reset(p0, p1, (math.exp(-t / t1) - math.exp(-t / t2)) / 2)
        add(f"ThermalRelaxationChannel:t1{'<' if regime == 'lt' else '>='}t2:{npar}par:{i}", "ThermalRelaxationChannel",
            (lambda q=q, params=params: gates.ThermalRelaxationChannel(q, list(params))), (q,), S,
            views="own_kraus" if regime == "lt" else "oracle", info={"qubit": q, "parameters": params})
    for i, g in enumerate([rng.uniform(0.05, 0.95), 0.75, 1.0, 0.0]):
        q = rng.randrange(nmax)
        add(f"AmplitudeDampingChannel:{i}", "AmplitudeDampingChannel", (lambda q=q, g=g: gates.AmplitudeDampingChannel(q, float(g))),
            (q,), super_damping(g, True), info={"qubit": q, "gamma": g})
        q = rng.randrange(nmax)
        add(f"PhaseDampingChannel:{i}", "PhaseDampingChannel", (lambda q=q, g=g: gates.PhaseDampingChannel(q, float(g))),
            (q,), super_damping(g, False), info={"qubit": q, "gamma": g})
    a, b = rng.uniform(0.05, 0.95), rng.uniform(0.05, 0.95)
    P = [[a, 1 - a], [b, 1 - b]]
    q = rng.randrange(nmax)
    add("ReadoutErrorChannel:1q", "ReadoutErrorChannel", (lambda q=q, P=P: gates.ReadoutErrorChannel(q, [list(r) for r in P])),
        (q,), super_readout(P), info={"qubits": [q], "probabilities": P})
    P4 = np.array([[rng.uniform(0.1, 1) for _ in range(4)] for _ in range(4)])
    P4 = P4 / P4.sum(1, keepdims=True)
    qs = tuple(rng.sample(range(nmax), 2))
    arr = P4.copy()
    add("ReadoutErrorChannel:2q", "ReadoutErrorChannel", (lambda qs=qs, arr=arr: gates.ReadoutErrorChannel(qs, arr)),
        qs, super_readout(P4), inputs=[arr], info={"qubits": list(qs), "probabilities": P4.tolist()})
    # non-dyadic probabilities of the closed-form classes
    q = rng.randrange(nmax)
    p0, p1 = rng.uniform(0.05, 0.5), rng.uniform(0.05, 0.45)
    add("ResetChannel:float", "ResetChannel", (lambda q=q, p0=p0, p1=p1: gates.ResetChannel(q, [p0, p1])), (q,),
        super_reset(p0, p1), info={"qubit": q, "probabilities": [p0, p1]})
    add("ResetChannel:p0+p1=1", "ResetChannel", (lambda q=q: gates.ResetChannel(q, [0.25, 0.75])), (q,), super_reset(0.25, 0.75),
        info={"qubit": q, "probabilities": [0.25, 0.75]})
    for k in (1, 2, 3):
        qs = tuple(rng.sample(range(max(nmax, k)), k))
        lam = rng.uniform(0.05, 1.0)
        add(f"DepolarizingChannel:float:k={k}", "DepolarizingChannel", (lambda qs=qs, lam=lam: gates.DepolarizingChannel(qs, lam)), qs,
            super_depol(k, lam), sv=True, info={"qubits": list(qs), "lam": lam})
    add("DepolarizingChannel:int_qubit", "DepolarizingChannel", (lambda: gates.DepolarizingChannel(1, 0.3)), (1,), super_depol(1, 0.3),
        sv=True, info={"qubits": 1, "lam": 0.3})
    # a generic (complex, asymmetric) unitary mixture on an unsorted pair and a generic TP Kraus set on (2, 0)
    qs = tuple(rng.sample(range(nmax), 2))
    from qibo.quantum_info import random_unitary
    U1, U2 = np.asarray(random_unitary(4, seed=rng.randrange(10 ** 6))), np.asarray(random_unitary(4, seed=rng.randrange(10 ** 6)))
    pa, pb = rng.uniform(0.1, 0.4), rng.uniform(0.1, 0.4)
    A1, A2 = U1.copy(), U2.copy()
    add("UnitaryChannel:generic", "UnitaryChannel", (lambda qs=qs, A1=A1, A2=A2, pa=pa, pb=pb: gates.UnitaryChannel(qs, [(pa, A1), (pb, A2)])),
        qs, super_kraus(2, 1 - pa - pb, [(pa, U1), (pb, U2)]), sv=True, inputs=[A1, A2], info={"qubits": list(qs), "probabilities": [pa, pb]})
    iso = np.asarray(random_unitary(12, seed=rng.randrange(10 ** 6)))[:, :4]
    ks = [iso[4 * j:4 * j + 4, :].copy() for j in range(3)]
    qs = tuple(rng.sample(range(nmax), 2))
    ks_in = [k.copy() for k in ks]
    add("KrausChannel:generic", "KrausChannel", (lambda qs=qs, ks_in=ks_in: gates.KrausChannel(qs, ks_in)), qs,
        super_kraus(2, 0.0, [(1.0, k) for k in ks]), inputs=ks_in, info={"qubits": list(qs), "rank": 3})
    return out


# ----------------------------------------------------------------------------- histories
def rho_for(seed, n, rid):
    r = random.Random(f"rho:{seed}:{n}:{rid}")
    d = 2 ** n
    A = np.array([[r.randint(-4, 4) + 1j * r.randint(-4, 4) for _ in range(d)] for _ in range(d)], dtype=complex)
    if rid % 2:
        A = A + A.conj().T
    return A


EXEC_VARIANTS = ("circuit", "direct", "twice", "pre", "copy", "sum")


def gen_history(rng, spec, nmax, length, with_exec=True, flavour="random"):
    """ops: ["exec", n, variant, rid] | ["choi", order, nq] | ["liouville", order, nq] | ["pauli", normalize, po, nq]
            | ["sv", n] | ["scribble"]"""
    m = spec.m
    sizes = list(range(m, max(m, nmax) + 1))
    nqs = [None] + sizes[:3]
    vmax = max(m, 3)                       # Pauli-basis queries stay at <= 3 qubits (cost)

    def q_view(kind=None):
        kind = kind or rng.choice(["choi", "choi", "liouville", "liouville", "pauli"])
        if kind == "choi":
            return ["choi", rng.choice(ORDERS), rng.choice(nqs)]
        if kind == "liouville":
            return ["liouville", rng.choice(ORDERS[:2]), rng.choice(nqs)]
        return ["pauli", rng.random() < 0.5, rng.choice(PAULI_ORDERS), rng.choice([None] + [s for s in sizes if s <= vmax][:2])]
    if flavour == "sizes":                  # the same object executed in growing, then shrinking registers
        seq = sizes + sizes[::-1][1:]
        return [["exec", n, rng.choice(("circuit", "direct")), i] for i, n in enumerate(seq)]
    if flavour == "orders":                 # every order / view asked from one object, in a seeded order, each twice
        qs = [["choi", o, nq] for o in ORDERS for nq in (None, m)] + [["liouville", o, None] for o in ORDERS[:2]]
        qs += [["pauli", nz, po, None] for nz in (False, True) for po in ("IXYZ", rng.choice(PAULI_ORDERS[1:]))]
        rng.shuffle(qs)
        qs = qs + [["scribble"]] + rng.sample(qs, len(qs))
        if with_exec:
            qs.insert(len(qs) // 2, ["exec", m, "circuit", 0])
            qs.append(["exec", rng.choice(sizes), "direct", 1])
        return qs
    ops = []
    for _ in range(length):
        r = rng.random()
        if with_exec and r < 0.45:
            ops.append(["exec", rng.choice(sizes), rng.choice(EXEC_VARIANTS), rng.randrange(4)])
        elif r < 0.5 and spec.sv and with_exec:
            ops.append(["sv", rng.choice(sizes)])
        elif r < 0.58 and ops:
            ops.append(["scribble"])
        elif r < 0.62:
            ops.append(["choi", rng.choice(ORDERS), max(1, m - 1)] if m > 1 else ["liouville", "system", None])   # refused calls
        else:
            ops.append(q_view())
    return ops


def run_dm(ch_list, n, rho, pre=False):
    from qibo import Circuit, gates
    c = Circuit(n, density_matrix=True)
    if pre:
        c.add(gates.H(0))
        if n > 1:
            c.add(gates.CNOT(n - 1, 0))
    for ch in ch_list:
        c.add(ch)
    return c


def observe(ch, op, seed):
    """perform one operation of a history on `ch`; returns (value, input_unchanged)"""
    from qibo.backends import _check_backend
    be = _check_backend(None)
    kind = op[0]
    if kind == "exec":
        _, n, variant, rid = op
        rho = rho_for(seed, n, rid)
        keep = rho.copy()
        if variant == "direct":
            out = ch.apply_density_matrix(be, rho, n)
        elif variant == "twice":
            out = run_dm([ch, ch], n, rho)(initial_state=rho).state()
        elif variant == "pre":
            out = run_dm([ch], n, rho, pre=True)(initial_state=rho).state()
        elif variant == "copy":
            c = run_dm([ch], n, rho)
            c2 = c.copy(deep=True)
            out = np.stack([np.asarray(c2(initial_state=rho).state()), np.asarray(c(initial_state=rho).state())])
        elif variant == "sum":
            c = run_dm([ch], n, rho) + run_dm([ch], n, rho, pre=True)
            out = c(initial_state=rho).state()
        else:
            out = run_dm([ch], n, rho)(initial_state=rho).state()
        return np.array(out), bool(np.array_equal(rho, keep))
    if kind == "sv":
        n = op[1]
        psi = np.zeros(2 ** n, dtype=complex)
        psi[::2] = 1 + 2j
        psi[1::2] = 3 - 1j
        be.set_seed(1234 + n)
        return np.array(ch.apply(be, psi, n)), True
    if kind == "choi":
        return ch.to_choi(nqubits=op[2], order=op[1]), True
    if kind == "liouville":
        return ch.to_liouville(nqubits=op[2], order=op[1]), True
    if kind == "pauli":
        return ch.to_pauli_liouville(nqubits=op[3], normalize=op[1], pauli_order=op[2]), True
    raise KeyError(kind)


def sys_perm(n):
    """vec_system = vec_row[perm]   (vectorization(order='system'): axes (q+n, q) interleaved)"""
    axes = []
    for q in range(n):
        axes += [q + n, q]
    return np.arange(4 ** n).reshape((2,) * (2 * n)).transpose(axes).reshape(-1)


def view_to_liouville_row(op, V, n):
    """the row-order Liouville matrix a returned view stands for (index conventions written from the docs)"""
    d = 2 ** n
    V = np.asarray(V)
    if op[0] == "choi":
        order = op[1]
        if order == "system":
            p = sys_perm(n)
            C = np.zeros_like(V)       # vec_sys[a] = vec_row[p[a]]  =>  C_sys[a,b] = C_row[p[a],p[b]]
            C[np.ix_(p, p)] = V
            order = "row"
            V = C
        C4 = V.reshape(d, d, d, d)
        return (C4.transpose(0, 2, 1, 3) if order == "row" else C4.transpose(1, 3, 0, 2)).reshape(d * d, d * d)
    if op[0] == "liouville":
        if op[1] == "row":
            return V
        return V.reshape(d, d, d, d).transpose(1, 0, 3, 2).reshape(d * d, d * d)
    if op[0] == "pauli":
        normalize, po = op[1], op[2]
        rows = []
        for letters in itertools.product(po, repeat=n):
            M = np.array([[1.0 + 0j]])
            for ch in letters:
                M = np.kron(M, P1[ch])
            rows.append(M.reshape(-1).conj())
        U = np.array(rows) / (math.sqrt(d) if normalize else 1.0)
        f = 1.0 if normalize else float(d)
        return U.conj().T @ V @ U / (f * f)
    raise KeyError(op[0])


def run_history(spec, ops, seed, check_oracle=True, tol=1e-9):
    """drive ONE object through ops.  Returns (problems, records): problems = list of dicts(step, op, what, detail);
    records = [(op, fresh_value)] of every observation that returned (for the exact comparisons by the caller)."""
    ch = spec.build()
    sig0 = deep_sig(ch)
    in0 = [a.tobytes() for a in spec.inputs]
    problems, records, returned = [], [], []
    mutated = False
    last = None

    def bad(i, op, what, **detail):
        problems.append({"step": i, "op": op, "what": what, **detail})
    for i, op in enumerate(ops):
        if op[0] == "scribble":
            if last is not None and isinstance(last[1], np.ndarray) and last[1].flags.writeable:
                last[1][...] = 7 - 3j
                returned = [r for r in returned if r[1] is not last[1]]
            continue
        got = err = ref = rerr = None
        ok_in = ok_in2 = True
        try:
            got, ok_in = observe(ch, op, seed)
        except Exception as e:  # noqa: BLE001
            err = type(e).__name__
        fresh = spec.build()
        try:
            ref, ok_in2 = observe(fresh, op, seed)
        except Exception as e:  # noqa: BLE001
            rerr = type(e).__name__
        if err != rerr:
            bad(i, op, "history_vs_fresh", detail=f"object with a history: {err or 'returns'}; fresh object: {rerr or 'returns'}")
        elif err is None:
            g, r = np.asarray(got), np.asarray(ref)
            if g.shape != r.shape or not np.array_equal(g, r):
                dev = float(np.abs(g - r).max()) if g.shape == r.shape else None
                bad(i, op, "history_vs_fresh", max_diff=dev, detail="observation on the long-lived object differs from the same observation on a fresh object")
            records.append((op, r))
            if not (ok_in and ok_in2):
                bad(i, op, "input_mutated", detail="the initial state handed to the execution was written")
            # fresh observation against the documented closed form
            if check_oracle and rerr is None:
                n = None
                try:
                    if op[0] == "exec" and op[2] in ("circuit", "direct"):
                        n = op[1]
                        want = spec.oracle(n, rho_for(seed, n, op[3]))
                        dev = float(np.abs(r - want).max())
                        scale = max(1.0, float(np.abs(want).max()))
                        if dev > tol * scale:
                            bad(i, op, "fresh_vs_spec", max_diff=dev, detail="density-matrix execution of a fresh object differs from the documented closed form")
                    elif op[0] in ("choi", "liouville", "pauli"):
                        n = op[-1] if op[-1] is not None else spec.m
                        L = view_to_liouville_row(op, r, n)
                        dev = float(np.abs(L - spec.liouville_row(n)).max())
                        if dev > tol * max(1.0, float(np.abs(L).max())):
                            bad(i, op, "fresh_vs_spec", max_diff=dev, detail="representation returned by a fresh object does not describe the documented map")
                except Exception as e:  # noqa: BLE001
                    bad(i, op, "oracle_error", detail=f"{type(e).__name__}: {e}")
            # arrays returned earlier must not have changed
            for (j, arr, snap) in returned:
                if arr.tobytes() != snap:
                    bad(i, op, "returned_array_changed", detail=f"the array returned at step {j} changed during a later call", earlier_step=j)
                    returned = [x for x in returned if x[1] is not arr]
            if isinstance(got, np.ndarray):
                if any(got is arr for _, arr, _ in returned):
                    bad(i, op, "returned_array_shared", detail="the very same array object was returned by two calls")
                else:
                    returned.append((i, got, got.tobytes()))
                last = (i, got)
        if not mutated:
            s = deep_sig(ch)
            if s != sig0:
                mutated = True
                bad(i, op, "object_state", detail="operation wrote the channel object: " + sig_diff(sig0, s))
        for a, b0 in zip(spec.inputs, in0):
            if a.tobytes() != b0:
                bad(i, op, "constructor_input_mutated", detail="an array the user handed to the constructor was written")
                in0 = [x.tobytes() for x in spec.inputs]
    return problems, records
