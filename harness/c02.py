"""C02  Density-matrix execution equals U rho U^dagger of the same circuit.

Static theorems (coq/theories/C01/PropsDM.v): the executable model of
`NumpyBackend.apply_gate_density_matrix` (plain branch and the controlled 00/01/10/11 block
branch), of `apply_gate_half_density_matrix` and of the density-matrix execution loop equals
E rho E^dagger with E = Base/Mat.embed / cembed, for every n, placement, matrix and rho over any
commutative semiring with a conjugation.

Tie to /repo on every run: the same circuits as C01 (Gaussian-integer `Unitary` gates, plain and
controlled_by, exact named gates, random ordered non-adjacent placements) are executed by the real
numpy backend with density_matrix=True on integer Hermitian and non-Hermitian rho whose
off-diagonal entries have non-zero imaginary parts, and `.state()` is compared exactly, inside Coq,
with the model, with the Spec of the theorems and with U rho U^dagger for U = Base/Mat.circ_mat.
"""
STATIC = ["C01/PropsDM", "C01/Examples"]
import random

import numpy as np

from harness import c01
from harness.c01 import (HEADER, cgates, cintents, cmat, cnats, cgate, eval_cases, judge, case_key,
                         real_state, rand_zi, random_circuit, unitary_gate, named_gate, placements,
                         NAMED, NAMED_ARITY, is_nontrivial, zmat, np_matrix, make_real_gate, describe, backend)

DM_LABELS = ["model_dm", "thmspec_dm", "spec_dm", "gate_ok"]


def rand_rho(rng, n, kind):
    d = 2 ** n
    A = [[rand_zi(rng, 2, 0.15) for _ in range(d)] for _ in range(d)]
    for i in range(d):            # force complex off-diagonal entries
        for j in range(d):
            if i != j and A[i][j][1] == 0:
                A[i][j][1] = rng.choice([-2, -1, 1, 2])
    if kind == "pure":
        v = [rand_zi(rng, 2, 0.1) for _ in range(d)]
        if d > 1:
            v[0], v[1] = [1, 1], [2, -1]
        z = [complex(a, b) for a, b in v]
        return [[[int((z[i] * z[j].conjugate()).real), int((z[i] * z[j].conjugate()).imag)] for j in range(d)] for i in range(d)]
    if kind == "hermitian":
        R = [[[A[i][j][0] + A[j][i][0], A[i][j][1] - A[j][i][1]] for j in range(d)] for i in range(d)]
        if d > 1 and all(R[i][j][1] == 0 for i in range(d) for j in range(d) if i != j):
            R[0][1][1] += 1
            R[1][0][1] -= 1
        return R
    return A


def dm_case_term(case, out):
    n = case["n"]
    return (f"(let n := {n}%nat in let gs := {cgates(case['gates'])} in\n"
            f"   let its := {cintents(case['gates'])} in\n"
            f"   let rho := {cmat(case['init'])} in let ex := {cmat(out['state'])} in\n"
            f"   [meqb (execute_dm Ziops zi_conj n gs rho) ex;\n"
            f"    meqb (sandwich Ziops zi_conj n (circ_op Ziops n gs) rho) ex;\n"
            f"    meqb (sandwich Ziops zi_conj n (circ_mat Ziops n its) rho) ex;\n"
            f"    forallb (gate_ok n) gs])")


def gen_dm_cases(run, rng):
    cases = []
    quick = run.tier != "thorough"
    kinds = ["hermitian", "general", "general", "hermitian", "pure"]
    for i in range(130 if quick else 1500):
        n = rng.choice([1, 2, 2, 3, 3, 3, 4, 4, 5] if quick else [1, 2, 2, 3, 3, 3, 4, 4, 4, 5])
        depth = rng.randint(1, 6 if n < 5 else 3)
        cases.append({"n": n, "gates": random_circuit(rng, n, depth, 1, dm=True),
                      "init": rand_rho(rng, n, kinds[i % 5]), "rho_kind": kinds[i % 5]})
    allp = [(n, ts, cs) for n in range(1, 5) for ts, cs in placements(n, 3 if not quick else 2)]
    if quick:
        small = [p for p in allp if p[0] <= 3]
        big = [p for p in allp if p[0] > 3]
        sel = small + rng.sample(big, 50)
        sel += [(5, ts, cs) for ts, cs in rng.sample(list(placements(5, 3)), 6)]
        sel += [(n, ts, cs) for n in (3, 4) for ts, cs in rng.sample([p for p in placements(n, 3) if len(p[0]) == 3], 6)]
    else:
        sel = allp + [(5, ts, cs) for ts, cs in rng.sample(list(placements(5, 3)), 80)]
    for j, (n, ts, cs) in enumerate(sel):
        cases.append({"n": n, "gates": [unitary_gate(rng, n, ts, cs, 2)], "init": rand_rho(rng, n, kinds[j % 5]),
                      "rho_kind": kinds[j % 5]})
    for name in NAMED:
        need = NAMED[name][0] + NAMED_ARITY[name]
        for n in (need, need + 1):
            if n > 4:
                continue
            qs = rng.sample(range(n), need)
            rest = [q for q in range(n) if q not in qs]
            cases.append({"n": n, "gates": [named_gate(rng, n, name, qs, rest)], "init": rand_rho(rng, n, "general"),
                          "rho_kind": "general"})
    return cases


def half_check(run, rng):
    """apply_gate_half_density_matrix (plain gates only; the real code refuses controlled_by gates): E rho"""
    terms, metas = [], []
    sel = [(n, ts) for n in range(1, 5) for ts, cs in placements(n, 3) if not cs]
    if run.tier != "thorough":
        sel = rng.sample(sel, 40)
    for n, ts in sel:
        g = unitary_gate(rng, n, ts, [], 2)
        real = make_real_gate(g)
        describe(real, g)
        rho = rand_rho(rng, n, "general")
        out = zmat(backend().apply_gate_half_density_matrix(real, np_matrix(rho), n))
        terms.append(f"(let n := {n}%nat in let rho := {cmat(rho)} in let ex := {cmat(out)} in\n"
                     f"   [meqb (apply_gate_half_dm Ziops n {cnats(g['cs'] + g['ts'])} {cmat(g['M'])} rho) ex;\n"
                     f"    meqb (mmul Ziops (embed Ziops n {cnats(ts)} {cmat(g['intent'][2])}) rho) ex])")
        metas.append({"n": n, "gates": [g], "init": rho})
    res = eval_cases(run, "C02_half", terms, 2)
    for case, bs in zip(metas, res):
        run.case(["half", case], nontrivial=True)
        key = case_key("half", case)
        if bs is None:
            run.find("coq-eval:" + key, "Coq evaluation failed", {"case": case}, concrete=False)
        elif not bs[1]:
            run.find(key, "apply_gate_half_density_matrix contradicts E rho", {"case": case, "mechanism": "half"})
        elif not bs[0]:
            run.find("model:" + key, "model of apply_gate_half_density_matrix disagrees with the implementation", {"case": case}, concrete=False)
    # the controlled_by branch of the half call must refuse
    g = unitary_gate(rng, 2, [0], [1], 1)
    real = make_real_gate(g)
    try:
        backend().apply_gate_half_density_matrix(real, np.eye(4, dtype=complex), 2)
        run.find("half:controlled_accepted", "apply_gate_half_density_matrix accepted a controlled_by gate", {}, concrete=True)
    except NotImplementedError:
        pass
    run.notes["half_cases"] = len(terms)


def shrink_dm(run):
    def f(case):
        singles = []
        for g in case["gates"]:
            c1 = {"n": case["n"], "gates": [g], "init": case["init"]}
            try:
                singles.append((c1, real_state(c1["n"], c1["gates"], c1["init"], dm=True)))
            except Exception:
                continue
        if not singles:
            return None
        res = eval_cases(run, "C02_shrink", [dm_case_term(c, o) for c, o in singles], len(DM_LABELS))
        for (c1, _), bs in zip(singles, res):
            if bs is not None and not bs[2]:
                return c1
        return None
    return f


def main(run):
    import qibo
    qibo.set_backend("numpy")
    rng = random.Random(run.seed + 2)
    run.trusted += c01.TRUSTED
    run.assumptions += ["exact arithmetic (rounding not modelled)",
                        "positivity / trace / Hermiticity preservation follow from the U rho U^dagger form for unitary U; "
                        "unitarity of the gate tables is checked by the table obligations, not here"]
    c01.oblige_theorems(run, "C01/PropsDM")
    cases = gen_dm_cases(run, rng)
    outs, good = [], []
    for case in cases:
        try:
            outs.append(real_state(case["n"], case["gates"], case["init"], dm=True))
            good.append(case)
        except Exception as e:
            run.find(case_key("raises", case), f"well-formed circuit raised {type(e).__name__}: {e}", {"case": case})
    res = eval_cases(run, "C02_dm", [dm_case_term(c, o) for c, o in zip(good, outs)], len(DM_LABELS), chunk=60)
    for c in good:
        run.case(c, nontrivial=is_nontrivial(c))
    for c in good[:3]:
        run.sample({"n": c["n"], "rho": c["rho_kind"], "gates": [[g["name"], g["args"], g["extra"]] for g in c["gates"]]})
    judge(run, "dm", good, outs, res, DM_LABELS, ["spec_dm"], ["model_dm", "thmspec_dm", "gate_ok"], shrink_dm(run))
    half_check(run, rng)
    c01.malformed_check(run, rng, dm=True)
    return run.finish(level="proof", rule=(
        "as C01 with density_matrix=True: random circuits n in 1..5 depth 1..6 plus depth-1 sweep of all (ordered targets, control "
        "subset) placements (quick: all n<=3 arity<=2 + samples up to n=5 arity 3; thorough: all n<=4 arity<=3 + n=5 sample), rho alternately "
        "integer Hermitian and non-Hermitian with complex off-diagonals; nontrivial as in C01"))


def replay(run, data):
    import qibo
    qibo.set_backend("numpy")
    rp = data.get("replay", {})
    case = rp.get("case")
    if case and rp.get("mechanism") != "half":
        try:
            out = real_state(case["n"], case["gates"], case["init"], dm=True)
            bs = eval_cases(run, "C02_replay", [dm_case_term(case, out)], len(DM_LABELS))[0]
            if bs is None or not bs[2]:
                run.find(data["key"], data.get("what", ""), {"case": case, "observed": out})
        except Exception as e:
            run.find(data["key"], f"raised {type(e).__name__}: {e}", {"case": case})
    elif case:
        g = case["gates"][0]
        real = make_real_gate(g)
        describe(real, g)
        n = case["n"]
        out = zmat(backend().apply_gate_half_density_matrix(real, np_matrix(case["init"]), n))
        t = f"[meqb (mmul Ziops (embed Ziops {n}%nat {cnats(g['intent'][1])} {cmat(g['intent'][2])}) {cmat(case['init'])}) {cmat(out)}]"
        bs = eval_cases(run, "C02_replay", [t], 1)[0]
        if bs is None or not bs[0]:
            run.find(data["key"], data.get("what", ""), {"case": case})
    return run.finish(rule="replay of one recorded case")
