"""C02  Density-matrix execution equals U rho U^dagger of the same circuit.

Static theorems (coq/theories/C01/PropsDM.v): the executable model of
`NumpyBackend.apply_gate_density_matrix` (plain branch and the controlled 00/01/10/11 block
branch), of `apply_gate_half_density_matrix` and of the density-matrix execution loop equals
E rho E^dagger with E = Base/Mat.embed / cembed, for every n, placement, matrix and rho over any
commutative semiring with a conjugation.

Tie to /repo on every run: the same circuits as C01 (Gaussian-integer `Unitary` gates, plain and
controlled_by, exact named gates, random ordered non-adjacent placements) are executed by the real
numpy backend with density_matrix=True on integer Hermitian and non-Hermitian rho whose
off-diagonal entries have non-zero imaginary parts, and `.state()` is compared exactly, inside Coq,
with the model, with the Spec of the theorems and with U rho U^dagger for U = Base/Mat.circ_mat.
Histories on long-lived objects (harness/c01_history.py, model C01/History.v, theorems C01/PropsHistory.v): a second
density-matrix execution after parameter updates through the circuit / the gate / an alias circuit must be U_new rho U_new^dagger.
 * round 5 (harness/c01_repr.py, C01/PropsLayout.v): labels (Unitary name= / trainable= / check_unitary= colliding with other
   classes' names, gates.I / gates.Align mixed in) and representations of the initial density matrix / of a Unitary's matrix.
"""
STATIC = ["C01/PropsDM", "C01/Examples", "C01/PropsHistory", "C01/ExamplesHistory", "C01/PropsLayout"]
import random

import numpy as np

from harness import c01
from harness.c01 import (HEADER, cgates, cintents, cmat, cnats, cgate, eval_cases, judge, case_key,
                         real_state, rand_zi, random_circuit, unitary_gate, named_gate, placements,
                         NAMED, NAMED_ARITY, is_nontrivial, zmat, np_matrix, make_real_gate, describe, backend)

DM_LABELS = ["model_dm", "thmspec_dm", "spec_dm", "gate_ok"]


def rand_rho(rng, n, kind):
    d = 2 ** n
    A = [[rand_zi(rng, 2, 0.15) for _ in range(d)] for _ in range(d)]
    for i in range(d):            # force complex off-diagonal entries
        for j in range(d):
            if i != j and A[i][j][1] == 0:
                A[i][j][1] = rng.choice([-2, -1, 1, 2])
    if kind == "pure":
        v = [rand_zi(rng, 2, 0.1) for _ in range(d)]
        if d > 1:
            v[0], v[1] = [1, 1], [2, -1]
        z = [complex(a, b) for a, b in v]
        return [[[int((z[i] * z[j].conjugate()).real), int((z[i] * z[j].conjugate()).imag)] for j in range(d)] for i in range(d)]
    if kind == "hermitian":
        R = [[[A[i][j][0] + A[j][i][0], A[i][j][1] - A[j][i][1]] for j in range(d)] for i in range(d)]
        if d > 1 and all(R[i][j][1] == 0 for i in range(d) for j in range(d) if i != j):
            R[0][1][1] += 1
            R[1][0][1] -= 1
        return R
    return A


def dm_case_term(case, out):
    n = case["n"]
    return (f"(let n := {n}%nat in let gs := {cgates(case['gates'])} in\n"
            f"   let its := {cintents(case['gates'])} in\n"
            f"   let rho := {cmat(case['init'])} in let ex := {cmat(out['state'])} in\n"
            f"   [meqb (execute_dm Ziops zi_conj n gs rho) ex;\n"
            f"    meqb (sandwich Ziops zi_conj n (circ_op Ziops n gs) rho) ex;\n"
            f"    meqb (sandwich Ziops zi_conj n (circ_mat Ziops n its) rho) ex;\n"
            f"    forallb (gate_ok n) gs])")


def gen_dm_cases(run, rng):
    cases = []
    quick = run.tier != "thorough"
    kinds = ["hermitian", "general", "general", "hermitian", "pure"]
    for i in range(130 if quick else 1500):
        n = rng.choice([1, 2, 2, 3, 3, 3, 4, 4, 5] if quick else [1, 2, 2, 3, 3, 3, 4, 4, 4, 5])
        depth = rng.randint(1, 6 if n < 5 else 3)
        cases.append({"n": n, "gates": random_circuit(rng, n, depth, 1, dm=True),
                      "init": rand_rho(rng, n, kinds[i % 5]), "rho_kind": kinds[i % 5]})
    allp = [(n, ts, cs) for n in range(1, 5) for ts, cs in placements(n, 3 if not quick else 2)]
    if quick:
        small = [p for p in allp if p[0] <= 3]
        big = [p for p in allp if p[0] > 3]
        sel = small + rng.sample(big, 50)
        sel += [(5, ts, cs) for ts, cs in rng.sample(list(placements(5, 3)), 6)]
        sel += [(n, ts, cs) for n in (3, 4) for ts, cs in rng.sample([p for p in placements(n, 3) if len(p[0]) == 3], 6)]
    else:
        sel = allp + [(5, ts, cs) for ts, cs in rng.sample(list(placements(5, 3)), 80)]
    for j, (n, ts, cs) in enumerate(sel):
        cases.append({"n": n, "gates": [unitary_gate(rng, n, ts, cs, 2)], "init": rand_rho(rng, n, kinds[j % 5]),
                      "rho_kind": kinds[j % 5]})
    for name in NAMED:
        need = NAMED[name][0] + NAMED_ARITY[name]
        for n in (need, need + 1):
            if n > 4:
                continue
            qs = rng.sample(range(n), need)
            rest = [q for q in range(n) if q not in qs]
            cases.append({"n": n, "gates": [named_gate(rng, n, name, qs, rest)], "init": rand_rho(rng, n, "general"),
                          "rho_kind": "general"})
    # deterministic corpus: every named class that takes controlled_by, with 1, 2 and 3 GENERIC controls (from two controls
    # on, X / Y / Z / ... keep their class and go through the controlled branch of the density-matrix kernel; a class-level
    # fast path that forgets the controls is only visible there), with and without a spectator qubit
    for name in NAMED:
        if NAMED[name][0] != 0:
            continue
        need = NAMED_ARITY[name]
        for nc in (1, 2, 3):
            for spect in (0, 1):
                n = need + nc + spect
                if n > 5 or (n == 5 and need > 1):
                    continue
                order = rng.sample(range(n), n)
                qs, extra = order[:need], order[need:need + nc]
                cases.append({"n": n, "gates": [named_gate(rng, n, name, qs, extra)], "init": rand_rho(rng, n, "general"),
                              "rho_kind": "general"})
    return cases


def half_check(run, rng):
    """apply_gate_half_density_matrix (plain gates only; the real code refuses controlled_by gates): E rho"""
    terms, metas = [], []
    sel = [(n, ts) for n in range(1, 5) for ts, cs in placements(n, 3) if not cs]
    if run.tier != "thorough":
        sel = rng.sample(sel, 40)
    for n, ts in sel:
        g = unitary_gate(rng, n, ts, [], 2)
        real = make_real_gate(g)
        describe(real, g)
        rho = rand_rho(rng, n, "general")
        out = zmat(backend().apply_gate_half_density_matrix(real, np_matrix(rho), n))
        terms.append(f"(let n := {n}%nat in let rho := {cmat(rho)} in let ex := {cmat(out)} in\n"
                     f"   [meqb (apply_gate_half_dm Ziops n {cnats(g['cs'] + g['ts'])} {cmat(g['M'])} rho) ex;\n"
                     f"    meqb (mmul Ziops (embed Ziops n {cnats(ts)} {cmat(g['intent'][2])}) rho) ex])")
        metas.append({"n": n, "gates": [g], "init": rho})
    res = eval_cases(run, "C02_half", terms, 2)
    for case, bs in zip(metas, res):
        run.case(["half", case], nontrivial=True)
        key = case_key("half", case)
        if bs is None:
            run.find("coq-eval:" + key, "Coq evaluation failed", {"case": case}, concrete=False)
        elif not bs[1]:
            run.find(key, "apply_gate_half_density_matrix contradicts E rho", {"case": case, "mechanism": "half"})
        elif not bs[0]:
            run.find("model:" + key, "model of apply_gate_half_density_matrix disagrees with the implementation", {"case": case}, concrete=False)
    # the controlled_by branch of the half call must refuse
    g = unitary_gate(rng, 2, [0], [1], 1)
    real = make_real_gate(g)
    try:
        backend().apply_gate_half_density_matrix(real, np.eye(4, dtype=complex), 2)
        run.find("half:controlled_accepted", "apply_gate_half_density_matrix accepted a controlled_by gate", {}, concrete=True)
    except NotImplementedError:
        pass
    run.notes["half_cases"] = len(terms)


# ------------------------------------------------------------------ parametrized classes at special angles
import math

SPECIAL = [0.0, math.pi / 2, math.pi, -math.pi, 2 * math.pi]
SCALES = [1.0, math.sqrt(2.0), 2.0, 2.0 * math.sqrt(2.0)]


def param_classes():
    """every parametrized gate class of gates.py with fixed arity (enumerated from the source)"""
    from lib import qtrace
    return [(nm, nq, ps) for nm, nq, ps in qtrace.catalogue() if ps]


def scaled_int_matrix(M):
    """smallest s in {1, sqrt2, 2, 2sqrt2} with s*M Gaussian-integer (entries of every class at multiples of pi/2
    lie in (1/s) Z[i]); returns (s, integer matrix) or None"""
    M = np.asarray(M, dtype=complex)
    for s in SCALES:
        S = M * s
        R = np.round(S.real) + 1j * np.round(S.imag)
        if np.abs(S - R).max() < 1e-9:
            return s, [[[int(round(x.real)), int(round(x.imag))] for x in row] for row in R]
    return None


def param_gate(name, qubits, params):
    return {"name": name, "args": list(qubits), "params": [float(x) for x in params], "extra": []}


def build_param_circuit(n, gs, dm=True):
    """real circuit; fills the model view; parametrized gates get the scaled integer matrix s*M.
    Returns (circuit, product of s^2) or raises ValueError('lattice') when a matrix is not on the lattice"""
    from qibo import Circuit
    from lib import qtrace
    c = Circuit(n, density_matrix=dm)
    scale2 = 1.0
    for g in gs:
        if "params" in g:
            real = qtrace.make_gate(g["name"], g["args"], g["params"])
            sm = scaled_int_matrix(real.matrix(backend()))
            if sm is None:
                raise ValueError("lattice")
            sc, S = sm
            scale2 *= sc * sc
            g["ctrl"] = bool(real.is_controlled_by)
            g["cs"] = [int(q) for q in real._control_qubits]
            g["ts"] = [int(q) for q in real.target_qubits]
            g["M"] = S
            g["intent"] = [[], [int(q) for q in real.qubits], S]
        else:
            real = make_real_gate(g)
            describe(real, g)
        c.add(real)
    return c, scale2


def real_param_dm(case):
    """density-matrix execution through circuit(initial_state=rho); output rescaled to the integer lattice"""
    c, scale2 = build_param_circuit(case["n"], case["gates"])
    res = np.asarray(c(initial_state=np_matrix(case["init"]).copy()).state()) * scale2
    R = np.round(res.real) + 1j * np.round(res.imag)
    if np.abs(res - R).max() > 1e-6 * max(1.0, np.abs(res).max()):
        return None
    return {"state": [[[int(round(x.real)), int(round(x.imag))] for x in row] for row in R], "scale2": scale2}


def param_key(case):
    sig = []
    for g in case["gates"]:
        if "params" in g:
            sig.append(g["name"] + "(" + ",".join(f"{x / (math.pi / 2):g}" for x in g["params"]) + ")q" + "".join(map(str, g["args"])))
    return "dmparam:" + ";".join(sig)


def draw_params(rng, nm, nq, ps, one):
    """draw parameters with `one()` until the constructor accepts them (some classes restrict the domain,
    e.g. MS: 0 <= theta <= pi/2); falls back to restricted draws, finally to all zeros"""
    from lib import qtrace
    for attempt in range(30):
        params = [one() for _ in ps] if attempt < 15 else [rng.choice([0.0, math.pi / 2]) for _ in ps]
        try:
            qtrace.make_gate(nm, list(range(nq)), params)
            return params
        except ValueError:
            continue
    return [0.0] * len(ps)


def gen_param_cases(run, rng):
    cases = []
    classes = param_classes()
    # deterministic sweep: every parametrized class with ALL parameters 0, non-ascending placement, one
    # spectator qubit, mixed non-Hermitian rho
    for nm, nq, ps in classes:
        n = nq + 1
        qs = list(range(n))[::-1][:nq]
        cases.append({"n": n, "gates": [param_gate(nm, qs, [0.0] * len(ps))], "init": rand_rho(rng, n, "general"),
                      "rho_kind": "general", "stream": "zero-sweep"})
    # random special angles (multiples of pi/2, 0 included), after a random Unitary gate
    reps = 1 if run.tier != "thorough" else 6
    for nm, nq, ps in classes:
        for _ in range(reps):
            n = min(4, nq + rng.randint(0, 2))
            qs = rng.sample(range(n), nq)
            params = draw_params(rng, nm, nq, ps, lambda: rng.choice(SPECIAL))
            if rng.random() < 0.3:
                params = [0.0] * len(ps)
            pre = random_circuit(rng, n, 1, 1, dm=True, max_arity=2)
            kind = rng.choice(["hermitian", "general"])
            cases.append({"n": n, "gates": pre + [param_gate(nm, qs, params)], "init": rand_rho(rng, n, kind),
                          "rho_kind": kind, "stream": "special-angles"})
    return cases


def param_check(run, rng):
    """parametrized classes at special angles: exact comparison on the scaled integer lattice"""
    cases = gen_param_cases(run, rng)
    good, outs, skipped = [], [], 0
    for case in cases:
        try:
            out = real_param_dm(case)
        except ValueError:
            skipped += 1
            continue
        except Exception as e:
            run.find(param_key(case) + ":raises", f"well-formed circuit raised {type(e).__name__}: {e}", {"case": case, "mechanism": "param"})
            continue
        if out is None:
            run.find(param_key(case), "density-matrix execution of a gate at a multiple of pi/2 is not U rho U^dagger "
                     "(result is off the exact lattice)", {"case": case, "mechanism": "param"})
            continue
        good.append(case)
        outs.append(out)
    res = eval_cases(run, "C02_param", [dm_case_term(c, o) for c, o in zip(good, outs)], len(DM_LABELS), chunk=40)
    for case, out, bs in zip(good, outs, res):
        run.case(["param", case], nontrivial=True)
        key = param_key(case)
        if bs is None:
            run.find("coq-eval:" + key, "Coq evaluation failed", {"case": case}, concrete=False)
            continue
        d = dict(zip(DM_LABELS, bs))
        if not d["spec_dm"]:
            small = None
            if len(case["gates"]) > 1:      # shrink: the parametrized gate alone
                c1 = {"n": case["n"], "gates": [g for g in case["gates"] if "params" in g], "init": case["init"],
                      "rho_kind": case["rho_kind"], "stream": case["stream"]}
                try:
                    o1 = real_param_dm(c1)
                    b1 = eval_cases(run, "C02_param_shrink", [dm_case_term(c1, o1)], len(DM_LABELS))[0] if o1 else None
                    if o1 is None or (b1 is not None and not b1[2]):
                        small = c1
                except Exception:
                    pass
            rep = small or case
            run.find(param_key(rep), "density-matrix execution through circuit(initial_state=rho) is not U rho U^dagger for the "
                     "operator U of the same circuit (parametrized gate at a multiple of pi/2)",
                     {"case": rep, "mechanism": "param", "observed_scaled": out if rep is case else None})
        elif not (d["model_dm"] and d["thmspec_dm"] and d["gate_ok"]):
            run.find("model:" + key, "model and implementation disagree while the implementation matches the spec",
                     {"case": case, "mechanism": "param"}, concrete=False)
    run.notes["param_cases"] = {"exact": len(good), "skipped_off_lattice": skipped, "classes": len(param_classes())}


def float_check(run, rng):
    """TEST level (tolerance 1e-9, labelled): for every parametrized class at random angles (25% of the angles drawn
    from the special set), density-matrix execution against U rho U^dagger with U = Circuit.unitary() of the same
    gates (state-vector semantics, C01)"""
    from qibo import Circuit
    from lib import qtrace
    classes = param_classes()
    reps = 1 if run.tier != "thorough" else 5
    ncases = 0
    for nm, nq, ps in classes:      # all-zero sweep also at test level (covers classes off the exact lattice, e.g. CU2)
        n = nq + 1
        qs = list(range(n))[::-1][:nq]
        params = [0.0] * len(ps)
        rho = np_matrix(rand_rho(rng, n, "general"))
        bad = float_case(nm, qs, params, n, rho)
        ncases += 1
        run.case(["float-zero", nm], nontrivial=True)
        if bad is not None:
            run.find(f"dmfloat:{nm}:zero", f"density-matrix execution differs from U rho U^dagger at all-zero parameters (max abs diff {bad:.3g})",
                     {"mechanism": "float", "class": nm, "qubits": qs, "params": params, "n": n,
                      "rho": [[[x.real, x.imag] for x in row] for row in rho]})
    for nm, nq, ps in classes:
        for _ in range(reps):
            n = min(4, nq + rng.randint(0, 1))
            qs = rng.sample(range(n), nq)
            params = draw_params(rng, nm, nq, ps, lambda: rng.choice(SPECIAL) if rng.random() < 0.25 else round(rng.uniform(-3.0, 3.0), 4))
            rho = np_matrix(rand_rho(rng, n, "general"))
            bad = float_case(nm, qs, params, n, rho)
            ncases += 1
            run.case(["float", nm, qs, params], nontrivial=True)
            if bad is not None:
                run.find(f"dmfloat:{nm}", f"density-matrix execution differs from U rho U^dagger (max abs diff {bad:.3g})",
                         {"mechanism": "float", "class": nm, "qubits": qs, "params": params, "n": n,
                          "rho": [[[x.real, x.imag] for x in row] for row in rho]})
    run.notes["float_test_cases"] = ncases


def float_case(nm, qs, params, n, rho):
    from qibo import Circuit
    from lib import qtrace
    cd, cs = Circuit(n, density_matrix=True), Circuit(n)
    cd.add(qtrace.make_gate(nm, qs, params))
    cs.add(qtrace.make_gate(nm, qs, params))
    U = np.asarray(cs.unitary(backend()))
    got = np.asarray(cd(initial_state=rho.copy()).state())
    diff = float(np.abs(got - U @ rho @ U.conj().T).max())
    return diff if diff > 1e-9 * max(1.0, float(np.abs(rho).max())) else None


# ------------------------------------------------------------------ execute_circuit: initial states
INIT_LABELS = ["sv_default", "sv_initial_circuit", "dm_default", "dm_initial_circuit", "sv_bad_shape", "dm_bad_shape"]


def init_term(meta):
    n, gs, g0 = meta["n"], meta["gates"], meta["init_circuit"]
    out = {}
    for dm in (False, True):
        c0 = c01.build_circuit(n, g0, dm)
        c = c01.build_circuit(n, gs, dm)
        conv = zmat if dm else c01.zvec
        out[("none", dm)] = conv(c().state())
        out[("circ", dm)] = conv(c(initial_state=c0).state())
        bad = np.ones((2 ** n, 2 ** n + 1), dtype=complex) if dm else np.ones(2 ** n + 1, dtype=complex)
        try:
            c(initial_state=bad)
            out[("bad", dm)] = False
        except ValueError:
            out[("bad", dm)] = True
    G_, G0 = cgates(gs), cgates(g0)
    badv = "[" + ";".join(["(1,0)"] * (2 ** n + 1)) + "]"
    badm = "[" + ";".join([badv] * (2 ** n)) + "]"
    return (
        f"(let n := {n}%nat in let gs := {G_} in let g0 := {G0} in\n"
        f"   [osv (execute_circuit Ziops n gs (InitNone (T:=Zi))) {c01.cvec(out[('none', False)])};\n"
        f"    osv (execute_circuit Ziops n gs (InitCircuit g0)) {c01.cvec(out[('circ', False)])};\n"
        f"    odm (execute_circuit_dm Ziops zi_conj n gs (DInitNone (T:=Zi))) {cmat(out[('none', True)])};\n"
        f"    odm (execute_circuit_dm Ziops zi_conj n gs (DInitCircuit g0)) {cmat(out[('circ', True)])};\n"
        f"    Bool.eqb (onone (execute_circuit Ziops n gs (InitArray {badv}))) {c01.cbool(out[('bad', False)])};\n"
        f"    Bool.eqb (onone (execute_circuit_dm Ziops zi_conj n gs (DInitArray {badm}))) {c01.cbool(out[('bad', True)])}])")


def init_check(run, rng):
    """initial_state = None / a Circuit / an array of the wrong shape, both modes, against Model.execute_circuit(_dm)"""
    from qibo import Circuit
    terms, metas = [], []
    for i in range(16 if run.tier != "thorough" else 80):
        n = rng.choice([1, 2, 2, 3, 3, 4])
        meta = {"n": n, "gates": random_circuit(rng, n, rng.randint(1, 4), 1, dm=True),
                "init_circuit": random_circuit(rng, n, rng.randint(1, 2), 1, dm=True)}
        terms.append(init_term(meta))
        metas.append(meta)
    labels = INIT_LABELS
    res = eval_cases(run, "C02_init", terms, len(labels), chunk=40)
    for meta, bs in zip(metas, res):
        run.case(["init", meta], nontrivial=True)
        key = "init:" + case_key("c", {"n": meta["n"], "gates": meta["gates"]})
        if bs is None:
            run.find("coq-eval:" + key, "Coq evaluation failed", {"case": meta}, concrete=False)
            continue
        badl = [l for l, b in zip(labels, bs) if not b]
        if badl:
            run.find(key, "execute_circuit with initial_state None / Circuit / wrong-shape array differs from the model "
                     f"({', '.join(badl)})", {"case": meta, "mechanism": "init", "failed": badl})
    run.notes["initial_state_cases"] = len(terms)


# ------------------------------------------------------------------ fused circuits in density-matrix mode
def fused_dm_term(case):
    from qibo import gates
    n, gs, rho = case["n"], case["gates"], case["init"]
    c = c01.build_circuit(n, gs, True)
    fc = c.fuse(max_qubits=2)
    view, nfused = [], 0
    for fg in fc.queue:
        if isinstance(fg, gates.FusedGate):
            nfused += 1
            view.append({"fused": [describe(x, {}) for x in fg.gates], "ts": [int(q) for q in fg.target_qubits]})
        else:
            view.append(describe(fg, {}))
    st = zmat(fc(initial_state=np_matrix(rho).copy()).state())
    queue = "([" + ";\n     ".join(
        (f"QFused {cnats(v['ts'])} {cgates(v['fused'])}" if "fused" in v else f"QGate ({cgate(v)})") for v in view
    ) + "] : list (qitem (T:=Zi)))"
    return (f"(let n := {n}%nat in let q := {queue} in let its := {cintents(gs)} in\n"
            f"   let rho := {cmat(rho)} in let ex := {cmat(st)} in\n"
            f"   [meqb (execute_dm_queue Ziops zi_conj n q rho) ex; meqb (sandwich Ziops zi_conj n (circ_mat Ziops n its) rho) ex])"), nfused


def fused_dm_check(run, rng):
    terms, metas = [], []
    for i in range(10 if run.tier != "thorough" else 50):
        n = rng.choice([2, 2, 3, 3, 4])
        gs = [g for g in random_circuit(rng, n, rng.randint(3, 6), 1, dm=True, max_arity=2)
              if len(g["intent"][0]) + len(g["intent"][1]) <= 2]
        if not gs:
            continue
        kind = rng.choice(["hermitian", "general"])
        rho = rand_rho(rng, n, kind)
        case = {"n": n, "gates": gs, "init": rho, "rho_kind": kind}
        term, nfused = fused_dm_term(case)
        terms.append(term)
        metas.append(({"n": n, "gates": gs, "init": rho, "rho_kind": kind}, nfused))
    res = eval_cases(run, "C02_fused", terms, 2, chunk=25)
    for (case, nfused), bs in zip(metas, res):
        run.case(["fused-dm", case], nontrivial=nfused > 0)
        key = case_key("fused-dm", case)
        if bs is None:
            run.find("coq-eval:" + key, "Coq evaluation failed", {"case": case}, concrete=False)
        elif not bs[1]:
            run.find(key, "density-matrix execution of the fused circuit is not U rho U^dagger of the original circuit",
                     {"case": case, "mechanism": "fused-dm"})
        elif not bs[0]:
            run.find("model:" + key, "model of fused density-matrix execution disagrees with the implementation",
                     {"case": case}, concrete=False)
    run.notes["fused_dm_circuits"] = len(terms)


# ------------------------------------------------------------------ Gram forms on the real code
def gram_one(case):
    n, gs = case["n"], case["gates"]
    cplx = lambda p: complex(p[0], p[1])
    terms = [(cplx(a), np.array([cplx(x) for x in v]), np.array([cplx(x) for x in w])) for a, v, w in case["terms"]]
    rho = sum(a * np.outer(v, w.conj()) for a, v, w in terms)
    cd, cs = c01.build_circuit(n, gs, True), c01.build_circuit(n, gs, False)
    got = zmat(cd(initial_state=rho.copy()).state())
    exp = zmat(sum(a * np.outer(np.asarray(cs(initial_state=v.copy()).state()),
                                np.asarray(cs(initial_state=w.copy()).state()).conj()) for a, v, w in terms))
    return got == exp


def gram_check(run, rng):
    """PropsDM.dm_run_preserves_gram_form replayed on the implementation, exactly (integers): the density-matrix run of
    sum_i a_i |v_i><w_i| equals sum_i a_i |SV-run v_i><SV-run w_i|"""
    from qibo import Circuit
    ncase = 0
    for i in range(12 if run.tier != "thorough" else 60):
        n = rng.choice([1, 2, 2, 3, 3, 4])
        gs = random_circuit(rng, n, rng.randint(1, 4), 1, dm=True)
        terms = [(complex(*rand_zi(rng, 2, 0.0)), np.array([complex(*p) for p in c01.rand_state(rng, n)]),
                  np.array([complex(*p) for p in c01.rand_state(rng, n)])) for _ in range(rng.randint(1, 3))]
        if rng.random() < 0.5:
            terms = [(a, v, v) for a, v, _ in terms]
        tj = [[c01.zpair(a), c01.zvec(v), c01.zvec(w)] for a, v, w in terms]
        ncase += 1
        case = {"n": n, "gates": gs, "terms": tj}
        run.case(["gram", case], nontrivial=True)
        if not gram_one(case):
            run.find(case_key("gram", case), "density-matrix run of a Gram form is not the Gram form of the state-vector runs",
                     {"case": case, "mechanism": "gram"})
    run.notes["gram_cases"] = ncase


def shrink_dm(run):
    def f(case):
        singles = []
        for g in case["gates"]:
            c1 = {"n": case["n"], "gates": [g], "init": case["init"]}
            try:
                singles.append((c1, real_state(c1["n"], c1["gates"], c1["init"], dm=True)))
            except Exception:
                continue
        if not singles:
            return None
        res = eval_cases(run, "C02_shrink", [dm_case_term(c, o) for c, o in singles], len(DM_LABELS))
        for (c1, _), bs in zip(singles, res):
            if bs is not None and not bs[2]:
                return c1
        return None
    return f


def main(run):
    import qibo
    qibo.set_backend("numpy")
    rng = random.Random(run.seed + 2)
    run.trusted += c01.TRUSTED
    run.assumptions += ["exact arithmetic (rounding not modelled)",
                        "positivity / trace / Hermiticity preservation follow from the U rho U^dagger form for unitary U; "
                        "unitarity of the gate tables is checked by the table obligations, not here"]
    c01.oblige_theorems(run, "C01/PropsDM")
    c01.oblige_theorems(run, "C01/PropsHistory")
    c01.oblige_theorems(run, "C01/PropsLayout")
    cases = gen_dm_cases(run, rng)
    outs, good = [], []
    for case in cases:
        try:
            outs.append(real_state(case["n"], case["gates"], case["init"], dm=True))
            good.append(case)
        except Exception as e:
            run.find(case_key("raises", case), f"well-formed circuit raised {type(e).__name__}: {e}", {"case": case})
    res = eval_cases(run, "C02_dm", [dm_case_term(c, o) for c, o in zip(good, outs)], len(DM_LABELS), chunk=60)
    for c in good:
        run.case(c, nontrivial=is_nontrivial(c))
    for c in good[:3]:
        run.sample({"n": c["n"], "rho": c["rho_kind"], "gates": [[g["name"], g["args"], g["extra"]] for g in c["gates"]]})
    judge(run, "dm", good, outs, res, DM_LABELS, ["spec_dm"], ["model_dm", "thmspec_dm", "gate_ok"], shrink_dm(run))
    half_check(run, rng)
    param_check(run, rng)
    float_check(run, rng)
    init_check(run, rng)
    fused_dm_check(run, rng)
    gram_check(run, rng)
    from harness import c01_repr
    c01_repr.labels_check(run, random.Random(run.seed * 104729 + 21), dm=True)
    c01_repr.repr_check(run, random.Random(run.seed * 104729 + 22), dm=True)
    from harness import c01_history
    c01_history.check(run, random.Random(run.seed * 7919 + 202), "dm")
    c01.malformed_check(run, rng, dm=True)
    return run.finish(level="proof", rule=(
        "labels and representations as in C01 (harness/c01_repr.py) with density_matrix=True: Unitary keyword options / colliding "
        "names / gates.I / gates.Align, and the initial density matrix (general complex, real non-symmetric) as C / Fortran / "
        "transposed / strided / sliced views, read-only, complex64, float / int, lists, with each kind of gate as FIRST operation "
        "and through backend.apply_gate_density_matrix: exact equality with the canonical run (itself against the Coq spec); "
        "histories (harness/c01_history.py, density_matrix=True): execute / update parameters through the circuit, the gate, a "
        "fused / shallow / `+` alias / derive (controlled_by 1..3 controls, dagger, on_qubits, invert, deep copy) / execute again on "
        "mixed, pure and non-Hermitian rho, every parametrised class + Unitary; exact ones inside Coq against U rho U^dagger of a "
        "from-scratch rebuild and against the history machine C01/History.v, float ones at 1e-12 (TEST level); inputs not mutated; "
        "initial_state None / Circuit / wrong shape in both modes; fused circuits (Circuit.fuse) in density-matrix mode; Gram forms "
        "sum a_i |v_i><w_i| against the state-vector runs; parametrized classes (every class of gates.py, enumerated from the source): all-zero sweep and random multiples of pi/2 "
        "through circuit(initial_state=rho), exact on the lattice (1/s)Z[i]; random angles at test level against Circuit.unitary(); "
        "as C01 with density_matrix=True: random circuits n in 1..5 depth 1..6 plus depth-1 sweep of all (ordered targets, control "
        "subset) placements (quick: all n<=3 arity<=2 + samples up to n=5 arity 3; thorough: all n<=4 arity<=3 + n=5 sample), rho alternately "
        "integer Hermitian and non-Hermitian with complex off-diagonals; nontrivial as in C01"))


def replay(run, data):
    import qibo
    qibo.set_backend("numpy")
    rp = data.get("replay", {})
    case = rp.get("case")
    if rp.get("mechanism") == "history":
        from harness import c01_history
        return c01_history.replay(run, data)
    if rp.get("mechanism") in ("labels", "repr", "matrix_repr"):
        from harness import c01_repr
        return c01_repr.replay(run, data)
    if rp.get("mechanism") == "param":
        try:
            out = real_param_dm(case)
            bs = eval_cases(run, "C02_replay", [dm_case_term(case, out)], len(DM_LABELS))[0] if out else None
            if out is None or bs is None or not bs[2]:
                run.find(data["key"], data.get("what", ""), {"case": case, "mechanism": "param"})
        except Exception as e:
            run.find(data["key"], f"raised {type(e).__name__}: {e}", {"case": case, "mechanism": "param"})
        return run.finish(rule="replay of one recorded case")
    if rp.get("mechanism") in ("init", "fused-dm", "gram"):
        try:
            if rp["mechanism"] == "gram":
                bad = not gram_one(case)
            elif rp["mechanism"] == "init":
                bs = eval_cases(run, "C02_replay", [init_term(case)], len(INIT_LABELS))[0]
                bad = bs is None or not all(bs)
            else:
                bs = eval_cases(run, "C02_replay", [fused_dm_term(case)[0]], 2)[0]
                bad = bs is None or not bs[1]
            if bad:
                run.find(data["key"], data.get("what", ""), rp)
        except Exception as e:
            run.find(data["key"], f"raised {type(e).__name__}: {e}", rp)
        return run.finish(rule="replay of one recorded case")
    if rp.get("mechanism") == "float":
        rho = np.array([[complex(a, b) for a, b in row] for row in rp["rho"]])
        bad = float_case(rp["class"], rp["qubits"], rp["params"], rp["n"], rho)
        if bad is not None:
            run.find(data["key"], data.get("what", ""), rp)
        return run.finish(rule="replay of one recorded case")
    if case and rp.get("mechanism") != "half":
        try:
            out = real_state(case["n"], case["gates"], case["init"], dm=True)
            bs = eval_cases(run, "C02_replay", [dm_case_term(case, out)], len(DM_LABELS))[0]
            if bs is None or not bs[2]:
                run.find(data["key"], data.get("what", ""), {"case": case, "observed": out})
        except Exception as e:
            run.find(data["key"], f"raised {type(e).__name__}: {e}", {"case": case})
    elif case:
        g = case["gates"][0]
        real = make_real_gate(g)
        describe(real, g)
        n = case["n"]
        out = zmat(backend().apply_gate_half_density_matrix(real, np_matrix(case["init"]), n))
        t = f"[meqb (mmul Ziops (embed Ziops {n}%nat {cnats(g['intent'][1])} {cmat(g['intent'][2])}) {cmat(case['init'])}) {cmat(out)}]"
        bs = eval_cases(run, "C02_replay", [t], 1)[0]
        if bs is None or not bs[0]:
            run.find(data["key"], data.get("what", ""), {"case": case})
    return run.finish(rule="replay of one recorded case")
