"""C12 extension streams (gap families A-E of STRENGTHEN_GUIDE.md).  Every stream is differential against the
state-vector simulation or against a from-scratch rebuild and reports a CONCRETE replay (circuit, shots, numpy seed,
recorded outcomes, tableau).

  traj       collapsing / final measurements on permuted (non-ascending) qubit lists, several registers, basis=,
             nshots 1 / batches: every recorded trajectory (mid-circuit outcomes in the order given to M, final
             sample) must have non-zero Born probability in an independent state-vector trajectory simulation; after
             an nshots=1 execution the collapsed tableau must stabilise the collapsed state vector; result views of
             repeated executions (samples / frequencies / probabilities(qubits=perm) / registers) agree exactly
  angles     every rotation class at k*pi/2 (k in -12..12; spellings k*np.pi/2, np.pi*k/2, k*(np.pi/2); CR* at k*pi,
             |k| <= 16), directly and through dagger()/double dagger: if flagged, the simulated gate must be the gate
             (stabilisers stabilise the state vector) on entangled inputs and several placements;  prep + U + U.invert()
             must return the prepared stabiliser state
  history    one backend, one circuit, executed repeatedly with parameter updates in between (gate.parameters = ...,
             Circuit.set_parameters, through shallow/deep copies, sums and inverses): flag, acceptance and tableau must
             equal those of a from-scratch rebuild with the current parameter values
  accessors  one result object queried in every accessor order: accessors are pure (tableau unchanged, samples stable,
             views consistent, state()/stabilizers()/to_circuit() the same as on a fresh result); results of different
             circuits are independent (also after in-place mutation of another result's arrays); user-supplied initial
             tableaus / Clifford(data) arrays are not mutated and `c` from tableau(prep) == prep + c from |0>;
             the same gate object at two positions / in two circuits
  channels   PauliNoiseChannel (incl. zero probabilities at every position, multi-qubit strings, with_pauli_noise):
             with the sampler's choice enumerated over its support, the (applied operator, probability) pairs must be
             exactly the user's (Pauli string, probability) pairs with positive probability plus the identity remainder;
             one-hot channels through the repeated execution must act as the gate
The model statements behind these streams are in coq/theories/C12/ModelRecord.v / PropsRecord.v (recording by qubit is
independent of the listed order; execution from a user-supplied tableau composes).
"""
import collections
import itertools
import random

import numpy as np

from harness import c12 as base

TOL = base.TOL
MAXREP = 4          # findings reported per stream


# ------------------------------------------------------------------ extended descriptions
def mk(d):
    from qibo import gates
    if d["g"] == "M":
        kw = {}
        if d.get("collapse"):
            kw["collapse"] = True
        if d.get("basis"):
            kw["basis"] = [getattr(gates, b) for b in d["basis"]]
        if d.get("name"):
            kw["register_name"] = d["name"]
        return gates.M(*d["q"], **kw)
    if d["g"] == "PN":
        qs = d["q"] if len(d["q"]) > 1 else d["q"][0]
        return gates.PauliNoiseChannel(tuple(qs) if isinstance(qs, list) else qs, [(p, float.fromhex(v)) for p, v in d["ops"]])
    g = base.make_gate(d)
    for _ in range(d.get("dag", 0)):
        g = g.dagger()
    return g


def build(n, descs):
    from qibo import Circuit
    c = Circuit(n)
    gs = []
    for d in descs:
        g = mk(d)
        c.add(g)
        gs.append(g)
    return c, gs


def desc_str(descs, limit=14):
    out = []
    for d in descs[:limit]:
        if d["g"] == "M":
            out.append("M(%s%s%s)" % (",".join(map(str, d["q"])), ",collapse=True" if d.get("collapse") else "",
                                      ",basis=" + "".join(d["basis"]) if d.get("basis") else ""))
        elif d["g"] == "PN":
            out.append("PauliNoise(%s,%s)" % (d["q"], [(p, float.fromhex(v)) for p, v in d["ops"]]))
        else:
            th = ""
            if "theta" in d:
                v = float.fromhex(d["theta"])
                th = ",%g*pi" % (v / np.pi)
            elif "theta_int" in d:
                th = ",%d" % d["theta_int"]
            out.append("%s(%s%s)%s" % (d["g"], ",".join(map(str, d["q"])), th, ".dagger()" * d.get("dag", 0)))
    return ".".join(out) + ("..." if len(descs) > limit else "")


_H = np.array([[1, 1], [1, -1]], dtype=complex) / np.sqrt(2)
_SDG = np.diag([1, -1j])
BASIS_U = {"Z": np.eye(2, dtype=complex), "X": _H, "Y": _H @ _SDG}


def apply_1q(psi, n, q, U):
    t = psi.reshape([2] * n)
    t = np.moveaxis(np.tensordot(U, t, axes=([1], [q])), 0, q)
    return t.reshape(-1)


def project(psi, n, qubits, bits):
    t = psi.reshape([2] * n).copy()
    for q, v in zip(qubits, bits):
        idx = [slice(None)] * n
        idx[q] = 1 - int(v)
        t[tuple(idx)] = 0
    return t.reshape(-1)


def trajectory(n, descs, mids, final_bits):
    """independent state-vector trajectory: gates through the numpy backend, measurements by own projectors in the
    order of the qubit list given to M (bit j belongs to qubit q_j).  Returns (squared norm of the projected state,
    normalised state before the final measurements or None)."""
    from qibo.backends import NumpyBackend
    nb = NumpyBackend()
    psi = np.zeros(2 ** n, dtype=complex)
    psi[0] = 1
    mids = list(mids)
    finals = []
    for d in descs:
        if d["g"] == "M":
            for q, bname in zip(d["q"], d.get("basis") or ["Z"] * len(d["q"])):
                if bname != "Z":
                    psi = apply_1q(psi, n, q, BASIS_U[bname])
            if d.get("collapse"):
                psi = project(psi, n, d["q"], mids.pop(0))
            else:
                finals += list(d["q"])       # final measurements are sampled from the final state
        else:
            psi = np.asarray(nb.apply_gate(mk(d), psi, n))
    nrm = np.linalg.norm(psi)
    state = psi / nrm if nrm > 0 else None
    if final_bits is not None:
        psi = project(psi, n, finals, list(final_bits))
    return float(np.vdot(psi, psi).real), state


def run_traj(n, descs, nshots, seed, engine="numpy"):
    """execute on the Clifford backend with a seeded numpy RNG; returns dict(mids=[per shot [per gate bits]], finals=[per shot bits],
    result=Clifford, circuit=c, gates=gs) or raises"""
    from qibo.backends import CliffordBackend
    b = CliffordBackend(engine=engine)
    c, gs = build(n, descs)
    np.random.seed(seed)
    res = b.execute_circuit(c, nshots=nshots)
    mgs = [g for d, g in zip(descs, gs) if d["g"] == "M" and d.get("collapse")]
    fgs = [g for d, g in zip(descs, gs) if d["g"] == "M" and not d.get("collapse")]
    finals = None
    if fgs:
        finals = [[int(v) for v in row] for row in np.asarray(res.samples())]
    mids = []
    for i in range(nshots):
        mids.append([[int(v) for v in np.asarray(g.result.samples()[i]).ravel()] for g in mgs])
    return {"mids": mids, "finals": finals, "result": res, "circuit": c, "mgates": mgs, "fgates": fgs, "backend": b}


def check_traj(n, descs, nshots, seed):
    """returns None or (key-suffix, message)"""
    try:
        out = run_traj(n, descs, nshots, seed)
    except (AttributeError, TypeError, NotImplementedError, RuntimeError, ValueError, IndexError, KeyError) as e:
        return ("raises", f"raises {type(e).__name__}: {str(e)[:100]}")
    fw = sum(len(d["q"]) for d in descs if d["g"] == "M" and not d.get("collapse"))
    if out["finals"] is not None and (len(out["finals"]) != nshots or any(len(r) != fw for r in out["finals"])):
        return ("shape", f"Clifford.samples() has shape {np.asarray(out['finals']).shape}, expected ({nshots}, {fw})")
    for i in range(nshots):
        for g, bits in zip(out["mgates"], out["mids"][i]):
            if len(bits) != len(g.target_qubits):
                return ("shape", f"recorded mid-circuit outcome {bits} for M{g.target_qubits}")
        fb = out["finals"][i] if out["finals"] is not None else None
        p, _ = trajectory(n, descs, out["mids"][i], fb)
        if p < TOL:
            # which part is impossible: the mid-circuit record alone?
            pm, _ = trajectory(n, descs, out["mids"][i], None)
            mids_txt = "; ".join(f"M{tuple(g.target_qubits)}->{bits}" for g, bits in zip(out["mgates"], out["mids"][i]))
            if pm < TOL:
                return ("mid", f"shot {i} of {nshots} (numpy seed {seed}): the recorded collapsed outcomes [{mids_txt}] have Born probability 0 "
                               "in the state-vector trajectory (bit j of the record does not belong to the j-th listed qubit / wrong outcome)")
            return ("final", f"shot {i} of {nshots} (numpy seed {seed}): final sample {fb} after the recorded collapses [{mids_txt}] has Born "
                             "probability 0 in the state-vector trajectory")
    res = out["result"]
    # nshots == 1: the returned tableau is the collapsed state
    if nshots == 1 and getattr(res, "symplectic_matrix", None) is not None:
        _, psi = trajectory(n, descs, out["mids"][0], None)
        T = np.asarray(res.symplectic_matrix).astype(np.uint8)
        if psi is not None:
            d = base.stabiliser_defect(T, n, psi)
            if d > 1e-7:
                return ("collapsed_state", f"nshots=1 (numpy seed {seed}): the stabilisers of the returned tableau do not stabilise the state vector "
                                           f"collapsed on the recorded outcomes {out['mids'][0]} (defect {d:.3g})")
    # views of the result
    if out["finals"] is not None:
        rows = ["".join(map(str, r)) for r in out["finals"]]
        try:
            fr = dict(res.frequencies())
            if fr != dict(collections.Counter(rows)):
                return ("views", f"frequencies() {fr} are not the counts of samples() {dict(collections.Counter(rows))}")
            mq = [q for g in out["fgates"] for q in g.target_qubits]
            perm = list(mq)
            random.Random(seed).shuffle(perm)
            perm = perm[:max(1, len(perm) - (seed % 2))]
            pr = np.asarray(res.probabilities(qubits=perm), dtype=float)
            want = np.zeros(2 ** len(perm))
            for r in out["finals"]:
                idx = 0
                for q in perm:
                    idx = 2 * idx + r[mq.index(q)]
                want[idx] += 1.0 / nshots
            if pr.shape != want.shape or np.abs(pr - want).max() > 1e-9:
                return ("views", f"probabilities(qubits={perm}) = {pr.tolist()} but the samples give {want.tolist()} (measured order {mq})")
            regs = res.samples(registers=True)
            pos = 0
            for g in out["fgates"]:
                w = len(g.target_qubits)
                got = np.asarray(regs[g.register_name]).astype(int).tolist()
                if got != [r[pos:pos + w] for r in out["finals"]]:
                    return ("views", f"samples(registers=True)[{g.register_name}] are not columns {pos}..{pos + w - 1} of samples()")
                pos += w
        except (AttributeError, TypeError, IndexError, KeyError, ValueError) as e:
            return ("views_raise", f"result views raise {type(e).__name__}: {str(e)[:100]}")
    return None


def prep_descs(kind, n):
    """special preparations: deterministic and correlated outcomes"""
    if kind == "demo" and n >= 4:      # q3 = |1>, (q0, q1) Bell, q2 = |+>
        return [{"g": "X", "q": [3]}, {"g": "H", "q": [0]}, {"g": "CNOT", "q": [0, 1]}, {"g": "H", "q": [2]}]
    if kind == "basis":
        return [{"g": "X", "q": [q]} for q in range(n) if q % 2 == 1]
    if kind == "ghz":
        return [{"g": "H", "q": [0]}] + [{"g": "CNOT", "q": [0, q]} for q in range(1, n)] + [{"g": "X", "q": [n - 1]}]
    return []


def gen_traj_cases(rng, quick):
    a1, a2 = base.clifford_angles()
    cases = []
    # deterministic corpus: every ordered subset (size 1..3) of 4 qubits as one collapsing measurement
    for k in (1, 2, 3):
        for qs in itertools.permutations(range(4), k):
            if k == 3 and (sum(qs) + qs[0]) % 2 and quick:
                continue
            descs = prep_descs("demo", 4) + [{"g": "M", "q": list(qs), "collapse": True}, {"g": "CZ", "q": [0, 2]}, {"g": "S", "q": [1]},
                                              {"g": "M", "q": [3, 1], "name": "a"}, {"g": "M", "q": [2, 0], "name": "b"}]
            cases.append((4, descs, 1 if len(cases) % 3 == 0 else 4))
    # several collapsing gates on permuted lists, repeated collapse of one qubit, permuted final registers, basis=
    for j in range(70 if quick else 500):
        n = rng.randint(2, 4)
        kind = rng.choice(["basis", "ghz", "random", "random", "demo"])
        descs = prep_descs(kind, n) if kind != "random" else []
        descs = descs + base.random_descs(rng, n, rng.randint(0, 2 * n), a1, a2)
        for _ in range(rng.randint(1, 3)):
            qs = rng.sample(range(n), rng.randint(1, n))
            if len(qs) > 1 and qs == sorted(qs) and rng.random() < 0.7:
                qs = qs[::-1]
            m = {"g": "M", "q": qs, "collapse": True}
            if rng.random() < 0.2:
                m["basis"] = [rng.choice(["X", "Z"]) for _ in qs]
            descs.append(m)
            descs += base.random_descs(rng, n, rng.randint(0, n), a1, a2, rot_weight=0.2)
        if rng.random() < 0.85:
            fq = rng.sample(range(n), rng.randint(1, n))
            cut = rng.randint(1, len(fq))
            regs = [fq[:cut]] + ([fq[cut:]] if cut < len(fq) else [])
            for i, r in enumerate(regs):
                m = {"g": "M", "q": r, "name": f"r{i}"}
                if rng.random() < 0.2:
                    m["basis"] = [rng.choice(["X", "Z"]) for _ in r]
                descs.append(m)
        has_final = any(d["g"] == "M" and not d.get("collapse") for d in descs)
        # (only collapsing measurements + nshots > 1: execute_circuit_repeated raises "No measurement provided" -- a refusal)
        cases.append((n, descs, rng.choice([1, 1, 2, 3, 6]) if has_final else 1))
    # final measurements only (no repeated execution): permuted registers, basis, batches
    for j in range(25 if quick else 200):
        n = rng.randint(1, 4)
        descs = prep_descs(rng.choice(["basis", "ghz", "random"]), n) + base.random_descs(rng, n, rng.randint(0, 3 * n), a1, a2)
        fq = rng.sample(range(n), rng.randint(1, n))
        cut = rng.randint(1, len(fq))
        for i, r in enumerate([fq[:cut]] + ([fq[cut:]] if cut < len(fq) else [])):
            m = {"g": "M", "q": r, "name": f"r{i}"}
            if rng.random() < 0.3:
                m["basis"] = [rng.choice(["X", "Z", "Z"]) for _ in r]
            descs.append(m)
        cases.append((n, descs, rng.choice([1, 4, 8, 16])))
    return cases


def sec_traj(run, rng):
    quick = run.tier == "quick"
    cases = gen_traj_cases(rng, quick)
    bad = 0
    reported = collections.Counter()
    for j, (n, descs, nshots) in enumerate(cases):
        seed = rng.randrange(2 ** 31)
        r = check_traj(n, descs, nshots, seed)
        mids = [tuple(d["q"]) for d in descs if d["g"] == "M" and d.get("collapse")]
        run.case(["traj", n, descs, nshots, seed], nontrivial=any(len(q) > 1 and list(q) != sorted(q) for q in mids) or len(mids) > 1)
        if j in (0, 45):
            run.sample({"trajectory_case": desc_str(descs), "n": n, "nshots": nshots, "numpy_seed": seed})
        if r is not None:
            bad += 1
            kind, msg = r
            first = next((q for q in mids if len(q) > 1 and list(q) != sorted(q)), None)
            tag = "M(%s,collapse=True)" % ",".join(map(str, first)) if (first and kind == "mid") else f"case{reported[kind]}"
            if reported[kind] < MAXREP:
                reported[kind] += 1
                base.report(run, f"traj:{kind}:{tag}", f"Clifford backend, circuit {desc_str(descs)} on {n} qubits: {msg}",
                            {"kind": "traj", "n": n, "descs": descs, "nshots": nshots, "np_seed": seed})
    run.oblige(f"test:every recorded trajectory (collapsing outcomes in the order given to M, final samples per register) has non-zero Born "
               f"probability in the state-vector trajectory; collapsed tableau stabilises the collapsed state; views consistent ({len(cases)} circuits, "
               "permuted / non-ascending qubit lists, several registers, basis=, nshots 1..16)", bad == 0, "test")


# ------------------------------------------------------------------ special angles
def angle_variants():
    out = {"R": [], "CR": []}
    for k in sorted(range(-12, 13), key=lambda k: (abs(k), k)):
        for sp, v in (("k*np.pi/2", k * np.pi / 2), ("np.pi*k/2", np.pi * k / 2), ("k*(np.pi/2)", k * (np.pi / 2))):
            out["R"].append((k, sp, float(v)))
    for k in sorted(range(-16, 17), key=lambda k: (abs(k), k)):
        for sp, v in (("k*np.pi", k * np.pi), ("np.pi*k", np.pi * k), ("2*k*(np.pi/2)", 2 * k * (np.pi / 2))):
            out["CR"].append((k, sp, float(v)))
    return out


ANGLE_PREPS = [
    [{"g": "H", "q": [0]}, {"g": "H", "q": [1]}, {"g": "H", "q": [2]}, {"g": "S", "q": [0]}, {"g": "CNOT", "q": [0, 1]}, {"g": "CZ", "q": [1, 2]},
     {"g": "SX", "q": [2]}, {"g": "CNOT", "q": [2, 0]}],
    [{"g": "H", "q": [1]}, {"g": "CNOT", "q": [1, 0]}, {"g": "X", "q": [2]}, {"g": "S", "q": [1]}, {"g": "H", "q": [2]}, {"g": "CY", "q": [2, 1]}],
]


def circuit_defect(b, n, descs):
    c, _ = build(n, descs)
    T = np.asarray(b.execute_circuit(c).symplectic_matrix).astype(np.uint8)
    c2, _ = build(n, descs)
    return base.stabiliser_defect(T, n, base.statevector(c2)), T


def sec_angles(run, rng):
    from qibo.backends import CliffordBackend
    b = CliffordBackend(engine="numpy")
    av = angle_variants()
    seen = set()
    bad = nflag = 0
    reported = 0
    for fam, classes in (("R", base.ROT1), ("CR", base.ROT2)):
        for cls in classes:
            for (k, sp, v) in av[fam]:
                for dag in (0, 1, 2):
                    key = (cls, float(v).hex(), dag)
                    if key in seen:
                        continue
                    seen.add(key)
                    placements = ([[0], [2]] if fam == "R" else [[0, 1], [2, 0]])
                    d0 = {"g": cls, "q": placements[0], "theta": float(v).hex(), "dag": dag}
                    g = mk(d0)
                    if not g.clifford:
                        continue
                    nflag += 1
                    for pi_, prep in enumerate(ANGLE_PREPS):
                        for pl in placements:
                            if (dag == 2 or pi_ == 1) and pl != placements[0]:
                                continue
                            descs = prep + [{"g": cls, "q": pl, "theta": float(v).hex(), "dag": dag}]
                            try:
                                d, _ = circuit_defect(b, 3, descs)
                            except (AttributeError, TypeError):
                                continue        # refusal by exception
                            except Exception as e:      # noqa: BLE001
                                base.report(run, f"angle:raises:{cls}", f"{desc_str(descs)}: raises {type(e).__name__}: {str(e)[:100]}",
                                            {"kind": "xcircuit", "n": 3, "descs": descs})
                                bad += 1
                                continue
                            run.case(["angle", cls, k, sp, dag, pl, pi_])
                            if d > 1e-7:
                                bad += 1
                                if reported < 2 * MAXREP:
                                    reported += 1
                                    unit = "pi/2" if fam == "R" else "pi"
                                    how = ["", " obtained by .dagger()", " obtained by .dagger().dagger()"][dag]
                                    eff = float(mk(descs[-1]).parameters[0])
                                    base.report(run, f"angle:{cls}({k}*{unit}){':dagger' * dag}",
                                                f"{cls}({','.join(map(str, pl))}, theta={sp} with k={k}){how} (effective theta {eff / np.pi:g}*pi) reports "
                                                f"clifford=True and is accepted, but after {desc_str(prep)} the stabilisers of the Clifford result do not "
                                                f"stabilise the state-vector result (defect {d:.3g}): the engine applies another gate / none",
                                                {"kind": "xcircuit", "n": 3, "descs": descs})
    run.oblige(f"test:every flagged rotation (RX RY RZ at k*pi/2, |k|<=12, three float spellings; CRX CRY CRZ at k*pi, |k|<=16; direct, .dagger(), "
               f".dagger().dagger(); {nflag} flagged gate instances, entangled inputs, two placements) is simulated as the gate", bad == 0, "test")
    # prep + U + U.invert() returns the prepared state
    a1, a2 = base.clifford_angles()
    big2 = [float(k * np.pi) for k in range(-16, 17)]
    bad = 0
    cnt = 60 if run.tier == "quick" else 400
    for j in range(cnt):
        n = rng.randint(2, 4)
        prep = base.random_descs(rng, n, rng.randint(1, 3 * n), a1, a2)
        U = base.random_descs(rng, n, rng.randint(1, 8), a1, big2, rot_weight=0.7)
        try:
            cp, _ = build(n, prep)
            cu, _ = build(n, U)
            full = cp + cu + cu.invert()
            T = np.asarray(b.execute_circuit(full).symplectic_matrix).astype(np.uint8)
        except Exception as e:      # noqa: BLE001
            run.notes.setdefault("invert_refused", []).append(f"{desc_str(U)}: {type(e).__name__}")
            if not isinstance(e, (AttributeError, TypeError, RuntimeError)):
                bad += 1
                base.report(run, "invert:raises", f"prep + U + U.invert() raises {type(e).__name__}: {str(e)[:100]}; U = {desc_str(U)}",
                            {"kind": "invert", "n": n, "prep": prep, "U": U})
            continue
        cp2, _ = build(n, prep)
        cu2, _ = build(n, U)
        psi_prep = base.statevector(cp2)
        cp3, _ = build(n, prep)
        psi_full = base.statevector(cp3 + cu2 + cu2.invert())
        if abs(abs(np.vdot(psi_full, psi_prep)) - 1) > 1e-9:
            # U.invert() is not the inverse already on the state-vector backend (iSWAP.dagger(), open finding of C05): compare with
            # the state-vector result of the same circuit only
            run.notes["invert_not_inverse_on_statevector"] = run.notes.get("invert_not_inverse_on_statevector", 0) + 1
        d = base.stabiliser_defect(T, n, psi_full)
        run.case(["invert", n, prep, U])
        if d > 1e-7:
            bad += 1
            if bad <= MAXREP:
                base.report(run, f"invert:case{bad}", f"prep + U + U.invert(): the Clifford result is not the state-vector result"
                            f"{' (which is the prepared state)' if abs(abs(np.vdot(psi_full, psi_prep)) - 1) < 1e-9 else ''} (defect {d:.3g}); "
                            f"prep = {desc_str(prep)}; U = {desc_str(U)}; U.invert() = "
                            + ", ".join(f"{type(g).__name__}{g.parameters}" for g in cu.invert().queue if g.parameters)[:300],
                            {"kind": "invert", "n": n, "prep": prep, "U": U})
    run.oblige(f"test:prep + U + U.invert(): Clifford result == state-vector result == prepared state ({cnt} circuits, rotations at negative / large multiples; "
               "where U.invert() is not the inverse on the state-vector backend either -- iSWAP.dagger(), open finding of C05 -- only the first equality)", bad == 0, "test")


# ------------------------------------------------------------------ histories
def snapshot_gate(g):
    return {"g": type(g).__name__, "q": [int(q) for q in g.init_args], "p": [p for p in g.parameters]}


def rebuild(n, queue):
    """from-scratch circuit with the current public data of every gate (class, qubits, parameters)"""
    from qibo import Circuit, gates
    c = Circuit(n)
    for g in queue:
        cls = getattr(gates, type(g).__name__)
        args = [int(q) for q in g.init_args]
        if g.parameters:
            c.add(cls(*args, *[p for p in g.parameters]))
        else:
            c.add(cls(*args))
    return c


def observe(b, c):
    """(accepted?, tableau or error class, flags)"""
    flags = [bool(g.clifford) for g in c.queue]
    try:
        T = np.asarray(b.execute_circuit(c).symplectic_matrix).astype(np.uint8)
        return ("ok", T.tolist(), flags)
    except RuntimeError as e:
        return ("refused" if "non-Clifford" in str(e) else "RuntimeError", None, flags)
    except (AttributeError, TypeError) as e:
        return (type(e).__name__, None, flags)


def play_history(n, descs, ops, b=None):
    """returns None or (step, alias, message)"""
    from qibo.backends import CliffordBackend
    b = b or CliffordBackend(engine="numpy")
    c, _ = build(n, descs)
    aliases = {"c": c}
    for step, op in enumerate(ops):
        kind = op[0]
        if kind == "alias":
            _, name, how, src = op
            s = aliases[src]
            if how == "copy":
                aliases[name] = s.copy()
            elif how == "deep":
                aliases[name] = s.copy(deep=True)
            elif how == "invert":
                aliases[name] = s.invert()
            elif how == "add":
                aliases[name] = s + aliases["c"].copy(deep=True)
            elif how == "invinv":
                aliases[name] = s.invert().invert()
        elif kind == "setp":
            _, name, idx, th = op
            par = [g for g in aliases[name].queue if g.parameters]
            if par:
                par[idx % len(par)].parameters = float.fromhex(th)
        elif kind == "setall":
            _, name, ths = op
            cc = aliases[name]
            npar = len([g for g in cc.queue if g.parameters])
            if npar:
                cc.set_parameters([float.fromhex(ths[i % len(ths)]) for i in range(npar)])
        elif kind == "exec":
            _, name = op
            cc = aliases[name]
            got = observe(b, cc)
            fresh = rebuild(n, cc.queue)
            want = observe(CliffordBackend(engine="numpy"), fresh)
            if got != want:
                pars = [(type(g).__name__, tuple(int(q) for q in g.init_args), [float(p) / np.pi for p in g.parameters]) for g in cc.queue if g.parameters]
                if got[2] != want[2]:
                    k = [i for i, (x, y) in enumerate(zip(got[2], want[2])) if x != y][0]
                    g = cc.queue[k]
                    msg = (f"gate {k} ({type(g).__name__}{tuple(g.init_args)}, parameters {g.parameters}) reports clifford={got[2][k]} after the history, "
                           f"a fresh gate with the same parameters reports {want[2][k]}")
                elif got[0] != want[0]:
                    msg = f"the long-lived circuit is '{got[0]}', the from-scratch rebuild with the same parameters is '{want[0]}'"
                else:
                    msg = "the tableau of the long-lived circuit differs from the tableau of a from-scratch rebuild with the same current parameters"
                return (step, name, msg + f"; current parameters (in units of pi): {pars}")
    return None


def gen_history(rng, n):
    a1, a2 = base.clifford_angles()
    descs = base.random_descs(rng, n, rng.randint(3, 8), a1, a2, rot_weight=0.75)
    names = ["c"]
    ops = [("exec", "c")]
    pool1 = [float(a).hex() for a in a1] + [float(0.3).hex(), float(np.pi / 4).hex()]
    for _ in range(rng.randint(4, 9)):
        r = rng.random()
        if r < 0.25 and len(names) < 5:
            nm = f"a{len(names)}"
            ops.append(("alias", nm, rng.choice(["copy", "deep", "invert", "add", "invinv"]), rng.choice(names)))
            names.append(nm)
        elif r < 0.6:
            # angles valid for both families keep the circuit accepted most of the time
            th = rng.choice([float(a).hex() for a in a2]) if rng.random() < 0.7 else rng.choice(pool1)
            ops.append(("setp", rng.choice(names), rng.randrange(8), th))
        elif r < 0.75:
            ops.append(("setall", rng.choice(names), [rng.choice([float(a).hex() for a in a2]) for _ in range(3)]))
        ops.append(("exec", rng.choice(names)))
    for nm in names:
        ops.append(("exec", nm))
    return descs, ops


def sec_history(run, rng):
    from qibo.backends import CliffordBackend
    b = CliffordBackend(engine="numpy")       # ONE backend for every history
    cnt = 50 if run.tier == "quick" else 400
    bad = 0
    for j in range(cnt):
        n = rng.randint(2, 4)
        descs, ops = gen_history(rng, n)
        try:
            r = play_history(n, descs, ops, b)
        except Exception as e:      # noqa: BLE001  (a crash of the history itself is reported as such)
            r = (-1, "?", f"the history raises {type(e).__name__}: {str(e)[:120]}")
        run.case(["history", n, descs, [list(o) for o in ops]])
        if j == 0:
            run.sample({"history": desc_str(descs), "ops": [list(o) for o in ops][:8]})
        if r is not None:
            bad += 1
            if bad <= MAXREP:
                step, name, msg = r
                base.report(run, f"history:case{bad}", f"circuit {desc_str(descs)} on {n} qubits, after the operations "
                            f"{[list(o) for o in ops[:step + 1]][-6:]} (step {step}, circuit '{name}'): {msg}",
                            {"kind": "history", "n": n, "descs": descs, "ops": [list(o) for o in ops]})
    run.oblige(f"test:history == fresh: one backend / long-lived circuits executed repeatedly with parameter updates through the gate, the circuit "
               f"and aliases (copy, deep copy, invert, sum): flags, acceptance and tableau equal a from-scratch rebuild ({cnt} histories)", bad == 0, "test")


# ------------------------------------------------------------------ accessors / independence / non-mutation / same object twice
PURE = ["state", "stabilizers", "destabilizers", "stab_sym", "destab_sym", "generators", "generators_arr", "AG04", "BM20", "copy", "deepcopy"]
SAMPLED = ["samples", "samples_dec", "frequencies", "frequencies_dec", "freq_regs", "samples_regs", "probabilities", "prob_perm"]


def call_accessor(res, name, perm=None):
    if name == "state":
        return np.asarray(res.state())
    if name == "stabilizers":
        return list(res.stabilizers())
    if name == "destabilizers":
        return list(res.destabilizers())
    if name == "stab_sym":
        return np.asarray(res.stabilizers(symplectic=True)).astype(int)
    if name == "destab_sym":
        return np.asarray(res.destabilizers(symplectic=True)).astype(int)
    if name == "generators":
        g, p = res.generators()
        return (list(g), [int(x) for x in p])
    if name == "generators_arr":
        g, p = res.generators(return_array=True)
        return (np.asarray(g), [int(x) for x in p])
    if name in ("AG04", "BM20"):
        circ = res.to_circuit(name)
        return [(type(g).__name__, tuple(g.qubits)) for g in circ.queue]
    if name == "copy":
        return np.asarray(res.copy().symplectic_matrix).astype(int)
    if name == "deepcopy":
        return np.asarray(res.copy(deep=True).symplectic_matrix).astype(int)
    if name == "samples":
        return np.asarray(res.samples()).astype(int)
    if name == "samples_dec":
        return np.asarray(res.samples(binary=False)).astype(int)
    if name == "frequencies":
        return dict(res.frequencies())
    if name == "frequencies_dec":
        return dict(res.frequencies(binary=False))
    if name == "freq_regs":
        return {k: dict(v) for k, v in res.frequencies(registers=True).items()}
    if name == "samples_regs":
        return {k: np.asarray(v).astype(int) for k, v in res.samples(registers=True).items()}
    if name == "probabilities":
        return np.asarray(res.probabilities(), dtype=float)
    if name == "prob_perm":
        return np.asarray(res.probabilities(qubits=perm), dtype=float)
    raise KeyError(name)


def same(a, b_):
    if isinstance(a, np.ndarray) or isinstance(b_, np.ndarray):
        a, b_ = np.asarray(a), np.asarray(b_)
        if a.dtype.kind in "fc" or b_.dtype.kind in "fc":
            return a.shape == b_.shape and bool(np.allclose(a, b_, atol=1e-12, rtol=0))
        return a.shape == b_.shape and bool(np.array_equal(a, b_))
    if isinstance(a, tuple) and isinstance(b_, tuple):
        return len(a) == len(b_) and all(same(x, y) for x, y in zip(a, b_))
    if isinstance(a, dict) and isinstance(b_, dict):
        return a.keys() == b_.keys() and all(same(a[k], b_[k]) for k in a)
    return a == b_


def check_accessor_order(n, descs, nshots, seed, order, perm):
    """the accessors in `order` on one result object vs each accessor on its own fresh result (same numpy seed before the first sampling)"""
    from qibo.backends import CliffordBackend

    def fresh():
        b = CliffordBackend(engine="numpy")
        c, _ = build(n, descs)
        return b.execute_circuit(c, nshots=nshots)
    ref = {}
    for name in order:
        r = fresh()
        np.random.seed(seed)
        try:
            ref[name] = call_accessor(r, name, perm)
        except Exception as e:      # noqa: BLE001
            ref[name] = ("raises", type(e).__name__)
    res = fresh()
    T0 = np.asarray(res.symplectic_matrix).copy()
    first_sampled = True
    seen = {}
    for i, name in enumerate(order):
        if name in SAMPLED and first_sampled:
            np.random.seed(seed)
            first_sampled = False
        try:
            got = call_accessor(res, name, perm)
        except Exception as e:      # noqa: BLE001
            got = ("raises", type(e).__name__)
        if not same(got, ref[name]):
            return f"accessor #{i} '{name}' after {order[:i]} returns a different value than on a fresh result of the same circuit (numpy seed {seed})"
        if not np.array_equal(np.asarray(res.symplectic_matrix), T0):
            return f"accessor #{i} '{name}' (after {order[:i]}) changed the symplectic matrix of the result"
        if name in seen and not same(got, seen[name]):
            return f"accessor '{name}' returns different values on two calls"
        seen[name] = got
    return None


def safe(fn, *args):
    """an exception of the code under test inside a stream is a finding of that stream (with its replay), never a harness crash"""
    try:
        return fn(*args)
    except Exception as e:      # noqa: BLE001
        import traceback
        tb = traceback.extract_tb(e.__traceback__)
        where = next((f"{f.name} ({f.filename.split('/')[-1]}:{f.lineno})" for f in reversed(tb) if "/qibo/" in f.filename), "?")
        return f"raises {type(e).__name__}: {str(e)[:100]} in {where}"


def sec_accessors(run, rng):
    from qibo import Circuit, gates
    from qibo.backends import CliffordBackend
    from qibo.quantum_info.clifford import Clifford
    a1, a2 = base.clifford_angles()
    quick = run.tier == "quick"
    # (a) accessor orders
    bad = 0
    cnt = 24 if quick else 150
    for j in range(cnt):
        n = rng.randint(1, 3)
        descs = base.random_descs(rng, n, rng.randint(1, 4 * n), a1, a2)
        fq = rng.sample(range(n), rng.randint(1, n))
        cut = rng.randint(1, len(fq))
        for i, r in enumerate([fq[:cut]] + ([fq[cut:]] if cut < len(fq) else [])):
            descs.append({"g": "M", "q": r, "name": f"r{i}"})
        names = [x for x in PURE if not (x == "BM20" and n > 3)] + SAMPLED
        order = [rng.choice(names) for _ in range(rng.randint(6, 12))]
        if not any(x in SAMPLED for x in order):
            order.insert(rng.randrange(len(order)), "samples")
        perm = rng.sample(fq, rng.randint(1, len(fq)))
        nshots = rng.choice([1, 3, 8])
        seed = rng.randrange(2 ** 31)
        msg = safe(check_accessor_order, n, descs, nshots, seed, order, perm)
        run.case(["accessors", n, descs, nshots, seed, order, perm])
        if msg:
            bad += 1
            if bad <= MAXREP:
                culprit = msg.split("'")[1] if "'" in msg else "?"
                base.report(run, f"accessors:{culprit}:case{bad}", f"Clifford result of {desc_str(descs)} (n={n}, nshots={nshots}), probabilities qubits {perm}: {msg}",
                            {"kind": "accessors", "n": n, "descs": descs, "nshots": nshots, "np_seed": seed, "order": order, "perm": perm})
    run.oblige(f"test:accessors of one Clifford result are pure and order-independent (samples, frequencies, probabilities(qubits=perm), registers, "
               f"state, (de)stabilizers, generators, to_circuit AG04/BM20, copy) ({cnt} results x 6..12 accessor calls)", bad == 0, "test")

    # (b) independence of results of different circuits on one backend; in-place mutation of returned arrays
    bad = 0
    b = CliffordBackend(engine="numpy")
    cnt = 20 if quick else 120
    for j in range(cnt):
        n = rng.randint(1, 4)
        mk_descs = lambda: base.random_descs(rng, n, rng.randint(1, 3 * n), a1, a2) + [{"g": "M", "q": rng.sample(range(n), rng.randint(1, n))}]
        d1, d2, d3 = mk_descs(), mk_descs(), mk_descs()
        seed = rng.randrange(2 ** 31)
        msg = safe(check_independence, b, n, d1, d2, d3, seed)
        run.case(["independence", n, d1, d2, d3, seed])
        if msg:
            bad += 1
            if bad <= MAXREP:
                base.report(run, f"independence:case{bad}", f"one CliffordBackend, circuits A = {desc_str(d1)}, B = {desc_str(d2)}, C = {desc_str(d3)} "
                            f"(n={n}, numpy seed {seed}): {msg}", {"kind": "independence", "n": n, "d1": d1, "d2": d2, "d3": d3, "np_seed": seed})
    run.oblige(f"test:results of different circuits executed on one backend are independent (earlier results unchanged by later executions and by "
               f"in-place mutation of another result's arrays; later results equal those of a fresh backend) ({cnt} triples)", bad == 0, "test")

    # (c) user-supplied initial tableau / Clifford(data): not mutated; execution composes
    bad = 0
    cnt = 30 if quick else 200
    for j in range(cnt):
        n = rng.randint(1, 4)
        prep = base.random_descs(rng, n, rng.randint(1, 3 * n), a1, a2)
        body = base.random_descs(rng, n, rng.randint(0, 3 * n), a1, a2)
        variant = rng.choice(["plain", "collapse1", "collapse3", "final"])
        dtype = rng.choice(["uint8", "bool"])
        seed = rng.randrange(2 ** 31)
        msg = safe(check_initial_state, n, prep, body, variant, dtype, seed)
        run.case(["initial_state", n, prep, body, variant, dtype])
        if msg:
            bad += 1
            if bad <= MAXREP:
                base.report(run, f"initial_state:{variant}:case{bad}", f"execute_circuit(body, initial_state=T0) with T0 = tableau of {desc_str(prep)}, "
                            f"body = {desc_str(body)} (n={n}, variant {variant}, dtype {dtype}): {msg}",
                            {"kind": "initial_state", "n": n, "prep": prep, "body": body, "variant": variant, "dtype": dtype, "np_seed": seed})
    run.oblige(f"test:user-supplied initial tableaus and Clifford(data) arrays are not mutated; executing `body` from tableau(prep) gives exactly the "
               f"tableau of prep + body from |0> ({cnt} cases)", bad == 0, "test")

    # (d) the same gate object twice / in two circuits
    bad = 0
    cnt = 30 if quick else 200
    for j in range(cnt):
        n = rng.randint(2, 4)
        descs = base.random_descs(rng, n, rng.randint(2, 3 * n), a1, a2, rot_weight=0.5)
        i = rng.randrange(len(descs))
        pos = sorted(rng.sample(range(len(descs) + 1), 2))
        msg = safe(check_same_object, n, descs, i, pos)
        run.case(["same_object", n, descs, i, pos])
        if msg:
            bad += 1
            if bad <= MAXREP:
                base.report(run, f"same_object:case{bad}", f"gate object {desc_str([descs[i]])} inserted at positions {pos} of {desc_str(descs)} (n={n}): {msg}",
                            {"kind": "same_object", "n": n, "descs": descs, "i": i, "pos": pos})
    run.oblige(f"test:one gate object at two positions of a queue and in a second circuit (executed alternately) behaves as two equal gates ({cnt} cases)",
               bad == 0, "test")


def check_independence(b, n, d1, d2, d3, seed):
    from qibo.backends import CliffordBackend
    c1, _ = build(n, d1)
    c2, _ = build(n, d2)
    c3, _ = build(n, d3)
    np.random.seed(seed)
    r1 = b.execute_circuit(c1, nshots=5)
    s1 = np.asarray(r1.samples()).copy()
    T1 = np.asarray(r1.symplectic_matrix).copy()
    st1 = np.asarray(r1.state()).copy() if n <= 3 else None
    r2 = b.execute_circuit(c2, nshots=3)
    r2.samples()
    if not np.array_equal(np.asarray(r1.symplectic_matrix), T1) or not np.array_equal(np.asarray(r1.samples()), s1):
        return "the tableau / samples of the result of A changed when B was executed and sampled on the same backend"
    if np.asarray(r2.samples()).shape[0] != 3:
        return f"the result of B (nshots=3) has {np.asarray(r2.samples()).shape[0]} sample rows"
    # caller mutates everything B returned
    try:
        np.asarray(r2.samples())[...] = 1 - np.asarray(r2.samples())
        r2.symplectic_matrix[...] = 1 - np.asarray(r2.symplectic_matrix)
    except (ValueError, TypeError):
        pass
    if not np.array_equal(np.asarray(r1.symplectic_matrix), T1) or not np.array_equal(np.asarray(r1.samples()), s1):
        return "the tableau / samples of the result of A changed when the caller overwrote the arrays returned for B"
    if st1 is not None and not np.array_equal(np.asarray(r1.state()), st1):
        return "state() of the result of A changed after B"
    fr = dict(r1.frequencies())
    if fr != dict(collections.Counter("".join(str(int(v)) for v in row) for row in s1)):
        return "frequencies() of A are no longer the counts of A's samples"
    np.random.seed(seed + 1)
    r3 = b.execute_circuit(c3, nshots=4)
    s3 = np.asarray(r3.samples()).copy()
    c3f, _ = build(n, d3)
    np.random.seed(seed + 1)
    r3f = CliffordBackend(engine="numpy").execute_circuit(c3f, nshots=4)
    if not np.array_equal(np.asarray(r3.symplectic_matrix), np.asarray(r3f.symplectic_matrix)):
        return "the tableau of C on the used backend differs from the tableau of C on a fresh backend (state leaked between executions)"
    if not np.array_equal(s3, np.asarray(r3f.samples())):
        return "the samples of C (same numpy seed) on the used backend differ from those on a fresh backend"
    return None


def check_initial_state(n, prep, body, variant, dtype, seed):
    from qibo.backends import CliffordBackend
    from qibo.quantum_info.clifford import Clifford
    b = CliffordBackend(engine="numpy")
    cp, _ = build(n, prep)
    T0 = np.asarray(b.execute_circuit(cp).symplectic_matrix).astype(dtype)
    snap = T0.copy()
    bd = list(body)
    nshots = 1
    if variant.startswith("collapse"):
        qs = list(range(n))[::-1][:max(1, n - 1)]
        bd = bd + [{"g": "M", "q": qs, "collapse": True}, {"g": "M", "q": list(range(n))}]
        nshots = 1 if variant == "collapse1" else 3
    elif variant == "final":
        bd = bd + [{"g": "M", "q": list(range(n))[::-1]}]
        nshots = 4
    cb, gs = build(n, bd)
    np.random.seed(seed)
    try:
        r = b.execute_circuit(cb, initial_state=T0, nshots=nshots)
    except (AttributeError, TypeError) as e:
        return None if dtype == "bool" else f"raises {type(e).__name__}: {str(e)[:80]}"
    if r.measurements:
        r.samples()
    if not np.array_equal(T0, snap) or T0.dtype != snap.dtype:
        return "the user's initial tableau was modified by the execution"
    if variant in ("plain", "final"):
        full, _ = build(n, prep + [d for d in bd if d["g"] != "M"])
        Tw = np.asarray(CliffordBackend(engine="numpy").execute_circuit(full).symplectic_matrix).astype(np.uint8)
        if not np.array_equal(np.asarray(r.symplectic_matrix).astype(np.uint8), Tw):
            return "the final tableau differs from the tableau of prep + body executed from |0...0>"
    else:
        # trajectory check relative to prep + body
        mids = [[int(v) for v in np.asarray(gs[-2].result.samples()[i]).ravel()] for i in range(nshots)]
        fin = [[int(v) for v in row] for row in np.asarray(r.samples())]
        for i in range(nshots):
            p, _ = trajectory(n, prep + bd, [mids[i]], fin[i])
            if p < TOL:
                return f"shot {i}: recorded collapse {mids[i]} on qubits {bd[-2]['q']} + final sample {fin[i]} has Born probability 0 for prep + body"
    # Clifford(data): accessors do not touch the user's array; missing scratch row is added
    T = snap.astype(np.uint8).copy()
    keep = T.copy()
    obj = Clifford(T, _backend=b)
    obj.stabilizers()
    obj.destabilizers()
    obj.to_circuit("AG04")
    if n <= 3:
        s_full = np.asarray(obj.state())
        obj.to_circuit("BM20")
        s_cut = np.asarray(Clifford(keep[:-1].copy(), _backend=b).state())
        if not np.array_equal(s_full, s_cut):
            return "Clifford(T without scratch row).state() differs from Clifford(T).state()"
    if not np.array_equal(T, keep):
        return "Clifford(data): an accessor modified the user's array"
    S = keep.copy()
    packed_before = S.copy()
    b.sample_shots(S, list(range(n))[::-1], n, 3)
    if not np.array_equal(S, packed_before):
        return "sample_shots(state, ..., collapse=False) modified the state"
    return None


def check_same_object(n, descs, i, pos):
    from qibo import Circuit
    from qibo.backends import CliffordBackend
    b = CliffordBackend(engine="numpy")
    g = mk(descs[i])
    c = Circuit(n)
    want = []
    k = 0
    for p in range(len(descs) + 1):
        while k < 2 and pos[k] == p:
            c.add(g)
            want.append(descs[i])
            k += 1
        if p < len(descs):
            c.add(mk(descs[p]))
            want.append(descs[p])
    o1 = observe(b, c)
    # the same object in a second circuit, executed in between
    c2 = Circuit(n)
    c2.add(g)
    o2 = observe(b, c2)
    o1b = observe(b, c)
    f1, _ = build(n, want)
    f2, _ = build(n, [descs[i]])
    w1 = observe(CliffordBackend(engine="numpy"), f1)
    w2 = observe(CliffordBackend(engine="numpy"), f2)
    if o1 != w1:
        return "the circuit containing the object twice differs from the circuit with two equal gates"
    if o2 != w2:
        return "a second circuit containing the same object differs from a fresh one-gate circuit"
    if o1b != w1:
        return "re-executing the first circuit after the second gives a different result"
    return None


# ------------------------------------------------------------------ Pauli noise channels: the sampler's support enumerated
class _ChoiceProxy:
    """numpy whose random.choice is recorded and forced (the Clifford backend's only use of randomness in apply_channel)"""

    def __init__(self, log, forced):
        self._log, self._forced = log, forced

    def __getattr__(self, k):
        return getattr(np, k)

    @property
    def random(self):
        outer = self

        class R:
            def __getattr__(self, k):
                return getattr(np.random, k)

            def choice(self, a, size=None, p=None, **kw):
                p_ = [float(x) for x in p] if p is not None else None
                outer._log.append((list(a) if not isinstance(a, int) else list(range(a)), p_))
                v = outer._forced.pop(0) if outer._forced else int(np.random.choice(a, p=p))
                return np.array([v]) if size is not None else v
        return R()


PAULI_G = {"X": "X", "Y": "Y", "Z": "Z"}


def pauli_descs(qubits, string):
    return [{"g": PAULI_G[ch], "q": [q]} for q, ch in zip(qubits, string) if ch != "I"]


CHANNEL_CORPUS = [
    ([0], [("X", 0.0), ("Y", 0.0), ("Z", 0.35)]),
    ([1], [("X", 0.25), ("Y", 0.0), ("Z", 0.5)]),
    ([0], [("X", 0.0), ("Y", 0.4), ("Z", 0.0)]),
    ([2], [("X", 0.0), ("Y", 0.0), ("Z", 0.0)]),
    ([1], [("Z", 1.0)]),
    ([0], [("X", 0.0), ("Z", 1.0)]),
    ([0], [("Y", 0.125), ("X", 0.25), ("Z", 0.5)]),
    ([0, 1], [("XZ", 0.0), ("IY", 0.5), ("ZZ", 0.25)]),
    ([2, 0], [("XI", 0.25), ("YX", 0.0), ("ZY", 0.0), ("IZ", 0.25)]),
    ([1, 2], [("XX", 0.0), ("YY", 0.0), ("ZZ", 1.0)]),
]


def check_channel(n, prep, qubits, ops):
    """enumerate the support of the sampler: {(applied operator, probability)} must be {(P_j, p_j) : p_j > 0} + identity remainder"""
    from qibo.backends import CliffordBackend
    b = CliffordBackend(engine="numpy")
    chd = {"g": "PN", "q": list(qubits), "ops": [(s, float(p).hex()) for s, p in ops]}

    def run_forced(forced):
        log = []
        c, _ = build(n, prep + [chd])
        saved = b.np
        b.np = _ChoiceProxy(log, list(forced))
        try:
            r = b.execute_circuit(c, nshots=1)
        finally:
            b.np = saved
        return np.asarray(r.symplectic_matrix).astype(np.uint8), log
    try:
        _, log = run_forced([])
    except (AttributeError, TypeError, ValueError, RuntimeError) as e:
        return None, f"refused:{type(e).__name__}"
    if len(log) != 1 or log[0][1] is None:
        return "the channel did not draw exactly one sample with an explicit probability vector", None
    support, p = log[0]
    cands = {}
    for s, _ in ops:
        if s not in cands:
            c, _ = build(n, prep + pauli_descs(qubits, s))
            cands[s] = np.asarray(CliffordBackend(engine="numpy").execute_circuit(c).symplectic_matrix).astype(np.uint8)
    cI, _ = build(n, prep)
    ident = "I" * len(qubits)
    cands.setdefault(ident, np.asarray(CliffordBackend(engine="numpy").execute_circuit(cI).symplectic_matrix).astype(np.uint8))
    keys = list(cands)
    for a, b_ in itertools.combinations(keys, 2):
        if np.array_equal(cands[a], cands[b_]):
            return None, "indistinguishable"
    got = collections.Counter()
    for idx, pi_ in zip(support, p):
        if pi_ <= 0:
            continue
        T, _ = run_forced([idx])
        who = [s for s in keys if np.array_equal(T, cands[s])]
        got[who[0] if who else "?"] += pi_
    want = collections.Counter()
    for s, pr in ops:
        if pr > 0:
            want[s] += pr
    rest = 1 - float(np.sum([pr for _, pr in ops]))
    if rest > 1e-15:
        want[ident] += rest
    if set(got) != set(want) or any(abs(got[k] - want[k]) > 1e-12 for k in want):
        return (f"enumerating the sampler's support, the channel applies {dict(got)} (operator: total probability) but the user specified "
                f"{dict(want)}"), None
    return None, None


def sec_channels(run, rng):
    from qibo.backends import CliffordBackend, NumpyBackend
    quick = run.tier == "quick"
    n = 3
    prep = [{"g": "H", "q": [0]}, {"g": "H", "q": [1]}, {"g": "H", "q": [2]}, {"g": "S", "q": [0]}, {"g": "CNOT", "q": [0, 1]}, {"g": "CZ", "q": [1, 2]},
            {"g": "S", "q": [2]}, {"g": "H", "q": [1]}, {"g": "CNOT", "q": [2, 0]}, {"g": "SX", "q": [1]}]
    corpus = list(CHANNEL_CORPUS)
    for _ in range(10 if quick else 80):
        k = rng.choice([1, 1, 2])
        qs = rng.sample(range(n), k)
        strings = rng.sample(["".join(s) for s in itertools.product("IXYZ", repeat=k) if set(s) != {"I"}], rng.randint(1, 3 if k == 1 else 4))
        weights = [rng.choice([0, 0, 1, 2, 3]) for _ in strings]
        ops = [(s, w / 8.0) for s, w in zip(strings, weights)]
        corpus.append((qs, ops))
    bad = skipped = refused = 0
    for (qs, ops) in corpus:
        r_ = safe(check_channel, n, prep, qs, ops)
        msg, note = (r_, None) if isinstance(r_, str) else r_
        run.case(["channel", qs, ops], nontrivial=any(p == 0 for _, p in ops))
        if note == "indistinguishable":
            skipped += 1
        elif note:
            refused += 1
        if msg:
            bad += 1
            if bad <= MAXREP:
                zero_before = any(p == 0 and any(p2 > 0 for _, p2 in ops[i + 1:]) for i, (_, p) in enumerate(ops))
                base.report(run, f"channel:{'zero_before_nonzero' if zero_before else 'ops'}:case{bad}",
                            f"PauliNoiseChannel({qs}, {ops}) after {desc_str(prep)} on the Clifford backend: {msg}",
                            {"kind": "channel", "n": n, "prep": prep, "q": list(qs), "ops": [[s, p] for s, p in ops]})
    run.notes["channels"] = {"specs": len(corpus), "indistinguishable_skipped": skipped, "refused": refused}
    run.oblige(f"test:PauliNoiseChannel on the Clifford backend applies exactly the user's (Pauli string, probability) pairs (support of the sampler "
               f"enumerated; zero probabilities at every position; 1- and 2-qubit strings; {len(corpus)} specs)", bad == 0 and skipped < len(corpus) // 2, "test")
    # one-hot channels through the repeated execution, final samples compared with the state vector (deterministic)
    bad = 0
    specs = []
    for (qs, ops) in corpus:
        for i, (s, _) in enumerate(ops):
            specs.append((qs, [(t, 1.0 if j == i else 0.0) for j, (t, _) in enumerate(ops)]))
    rng.shuffle(specs)
    specs = specs[:16 if quick else 80]
    for (qs, ops) in specs:
        pre = [{"g": "X", "q": [1]}, {"g": "H", "q": [0]}, {"g": "CNOT", "q": [0, 2]}, {"g": "H", "q": [0]}, {"g": "H", "q": [2]}]   # (|000>+|011>+|110>-|101>..) generic
        post = [{"g": "H", "q": [2]}, {"g": "H", "q": [0]}, {"g": "CNOT", "q": [0, 2]}, {"g": "H", "q": [0]}]
        chd = {"g": "PN", "q": list(qs), "ops": [(s, float(p).hex()) for s, p in ops]}
        hot = [s for s, p in ops if p == 1.0][0]
        descs = pre + [chd] + post + [{"g": "M", "q": [2, 0, 1]}]
        ref = pre + pauli_descs(qs, hot) + post
        try:
            c, _ = build(n, descs)
            np.random.seed(7)
            smp = np.asarray(CliffordBackend(engine="numpy").execute_circuit(c, nshots=4).samples()).astype(int)
        except (AttributeError, TypeError, ValueError, RuntimeError):
            continue
        cr, _ = build(n, ref)
        psi = base.statevector(cr)
        run.case(["channel_onehot", qs, ops])
        for row in smp:
            if base.born_probability(psi, n, [2, 0, 1], row) < TOL:
                bad += 1
                if bad <= 2:
                    base.report(run, f"channel:onehot:case{bad}", f"PauliNoiseChannel({qs}, {ops}) (one-hot: always {hot}) inside {desc_str(descs)}: "
                                f"repeated execution returns sample {row.tolist()} of qubits (2,0,1), which has Born probability 0 when the channel "
                                f"is replaced by the gate(s) {hot}", {"kind": "channel_onehot", "n": n, "descs": descs, "ref": ref})
                break
    run.oblige(f"test:one-hot Pauli noise channels (zeros at every other position) in repeated execution act as the Pauli gate ({len(specs)} circuits)",
               bad == 0, "test")


# ------------------------------------------------------------------ entry points
def main_sections(run, rng, timed):
    timed("x:traj", sec_traj, run, rng)
    timed("x:angles", sec_angles, run, rng)
    timed("x:history", sec_history, run, rng)
    timed("x:accessors", sec_accessors, run, rng)
    timed("x:channels", sec_channels, run, rng)
    static_record(run)


def static_record(run):
    import os
    from lib import vcore
    p = "C12/PropsRecord.v"
    if not os.path.exists(os.path.join(vcore.THEORIES, p)):
        return
    names = vcore.props_theorems(p)
    ok, res = vcore.static_assumptions("C12/PropsRecord")
    import re
    for nm in names:
        run.oblige(f"theorem:{nm}", ok and nm in res, "theorem")
        for m in re.finditer(r"([A-Za-z_][\w.]*) :", res.get(nm, "")):
            run.axioms.add(m.group(1))      # only kernel primitives of PrimFloat/PrimInt63 (through the float dispatch of the gate model)


def replay(run, data):
    """returns True if the replay kind belongs to this module"""
    rp = data.get("replay", {})
    kind, key, what = rp.get("kind"), data["key"], data.get("what", "")
    from qibo.backends import CliffordBackend
    if kind == "traj":
        r = check_traj(rp["n"], rp["descs"], rp["nshots"], rp["np_seed"])
        hit = r is not None
    elif kind == "xcircuit":
        try:
            d, _ = circuit_defect(CliffordBackend(engine="numpy"), rp["n"], rp["descs"])
            hit = d > 1e-7
        except (AttributeError, TypeError):
            hit = False
        except Exception:       # noqa: BLE001
            hit = True
    elif kind == "invert":
        n = rp["n"]
        cp, _ = build(n, rp["prep"])
        cu, _ = build(n, rp["U"])
        T = np.asarray(CliffordBackend(engine="numpy").execute_circuit(cp + cu + cu.invert()).symplectic_matrix).astype(np.uint8)
        cp2, _ = build(n, rp["prep"])
        cu2, _ = build(n, rp["U"])
        hit = base.stabiliser_defect(T, n, base.statevector(cp2 + cu2 + cu2.invert())) > 1e-7
    elif kind == "history":
        hit = play_history(rp["n"], rp["descs"], [tuple(o) for o in rp["ops"]]) is not None
    elif kind == "accessors":
        hit = safe(check_accessor_order, rp["n"], rp["descs"], rp["nshots"], rp["np_seed"], rp["order"], rp["perm"]) is not None
    elif kind == "independence":
        hit = safe(check_independence, CliffordBackend(engine="numpy"), rp["n"], rp["d1"], rp["d2"], rp["d3"], rp["np_seed"]) is not None
    elif kind == "initial_state":
        hit = safe(check_initial_state, rp["n"], rp["prep"], rp["body"], rp["variant"], rp["dtype"], rp["np_seed"]) is not None
    elif kind == "same_object":
        hit = safe(check_same_object, rp["n"], rp["descs"], rp["i"], rp["pos"]) is not None
    elif kind == "channel":
        r_ = safe(check_channel, rp["n"], rp["prep"], rp["q"], [(s, p) for s, p in rp["ops"]])
        hit = isinstance(r_, str) or r_[0] is not None
    elif kind == "channel_onehot":
        n = rp["n"]
        c, _ = build(n, rp["descs"])
        np.random.seed(7)
        smp = np.asarray(CliffordBackend(engine="numpy").execute_circuit(c, nshots=4).samples()).astype(int)
        cr, _ = build(n, rp["ref"])
        psi = base.statevector(cr)
        hit = any(base.born_probability(psi, n, [2, 0, 1], row) < TOL for row in smp)
    else:
        return False
    run.case(["replay", key])
    if hit:
        run.find(key, what, rp)
    return True
