"""C14  Every execution result stands alone, whatever was run before, after or beside it.

Static part: coq/theories/C14 (Model = seeded generator + parallel helpers on top of the result
state machine C03/ModelResult.v; Props = results_standalone for ALL histories, the historical
4-operation witness of the sharing defect on the model of the old code, one_execution_standalone,
parallel_exec_results, seed_reproducible).

Correspondence (this file): random histories of <= 10 operations with <= 3 executions of ONE
circuit object (different dyadic initial states and shot counts), accessor calls on all results
interleaved, circuit.final_state; the implementation's draws are fed to the model and every
output is compared exactly inside Coq; the outputs of the implementation are then judged by the
Coq specification `spec_verdicts` (one admissible list of shots per result).  The histories that
exposed the former sharing of M.result between results are replayed on the real code.  parallel_execution /
parallel_circuits_execution / parallel_parametrized_execution run with processes = 1..3 under a
timeout; seeding is checked by re-running with the same seed.

Isolation streams (harness/c14_iso.py; gap families B and A): xhist = extended histories (all input kinds, every
branch of apply_gate as first gate, apply_bitflips / expectation_from_samples / state / to_dict / dump accessors) tied
to C14/ModelIso.v step by step (heap trace after every call, theorems of C14/PropsIso.v); diff = every execution mode
against seeded solo replicas on fresh objects, inputs against deep snapshots; retw = the caller writes into returned objects.
"""
STATIC = ["C14/Props", "C14/PropsIso", "C14/CheckIso", "C03/Check"]
import collections
import random
import threading

import numpy as np

from harness import c03, c14_iso
from harness.c03 import (HistoryRun, backend, dyadic_state, eval_cases, judge_history, ordered_sublist, parse_case,
                         random_accessor, random_registers, static_obligations)

SHARED_KEY = "standalone:result_not_own_execution"


def shared_key_for(hr):
    def f(bad_results):
        # the first sampling accessor on a result whose views are not its own
        for e in hr.log:
            if e.get("result") in bad_results and e["op"] in ("samples", "freqs"):
                return f"{SHARED_KEY}:{'samples' if e['op'] == 'samples' else 'frequencies'}"
        return f"{SHARED_KEY}:other"
    return f


# ------------------------------------------------------------------ the Coq witness on the real code
def witness_histories(be):
    """(name, HistoryRun) for the witness of results_standalone_refuted and for the coordinator's
    r1=c(s0); r2=c(s3); r1.samples(); r2.samples(); r2.probabilities()"""
    out = []
    hr = HistoryRun(be, 1, [[0]])
    hr.execute([1, 0], 0, 1)
    hr.execute([0, 1], 0, 1)
    hr.accessor("samples", 0, False, False)
    hr.accessor("samples", 1, False, False)
    out.append(("coq_witness", hr))
    hr = HistoryRun(be, 3, [[0, 1, 2]])
    s0, s3 = [0] * 8, [0] * 8
    s0[0], s3[3] = 1, 1
    hr.execute(s0, 0, 5)
    hr.execute(s3, 0, 5)
    hr.accessor("samples", 0, True, False)
    hr.accessor("samples", 1, True, False)
    hr.accessor("probs", 1, qubits=[0, 1, 2])
    hr.accessor("freqs", 1, True, False)
    out.append(("r1=c(s0);r2=c(s3);r1.samples();r2.samples()", hr))
    # frequency variant: r2.frequencies() overwrites the register frequencies seen through r1
    hr = HistoryRun(be, 2, [[1], [0]])
    hr.execute([1, 0, 0, 0], 0, 4)
    hr.execute([0, 0, 0, 1], 0, 4)
    hr.accessor("freqs", 0, False, True)
    hr.accessor("freqs", 1, False, True)
    hr.accessor("freqs", 0, False, True)
    out.append(("r1.frequencies(registers);r2.frequencies(registers);r1.frequencies(registers)", hr))
    return out


def part_witness(run, be):
    try:
        ws = witness_histories(be)
    except Exception as e:  # noqa
        run.find("witness:raised", "executing the witness histories raised: " + repr(e)[:200], {"part": "witness", "raised": repr(e)[:300]})
        return
    vals = eval_cases(run, "witness", [hr.coq_case() for _, hr in ws])
    if vals is None:
        run.find("witness:coq-failed", "generated witness file did not compile", {}, concrete=False)
        return
    reproduced = 0
    for (name, hr), v in zip(ws, vals):
        bools, verdicts = parse_case(v)
        info = {"part": "witness", "name": name, "n": hr.n, "registers": hr.regs, "history": hr.log, "verdicts": verdicts}
        run.case({"witness": name, "log": hr.log}, True)
        run.sample(info)
        before = len(run.findings)
        judge_history(run, hr, v, f"witness:{name}", info, shared_key=shared_key_for(hr))
        if any(f.key.startswith(SHARED_KEY) for f in run.findings[before:]):
            reproduced += 1
    run.notes["witness_histories_violating_on_the_real_code"] = f"{reproduced}/{len(ws)}"
    if reproduced:
        run.refuted.append("results_standalone")


# ------------------------------------------------------------------ random histories
def one_history(run, be, i):
    crng = random.Random(f"{run.seed}:hist:{i}")
    freq_first = (i % 5 == 2)   # >= 2 registers, superposed states, frequencies(registers=True) before samples()
    n = crng.randint(2 if freq_first else 1, 3)
    regs = random_registers(crng, n)
    while freq_first and len(regs) < 2:
        regs = random_registers(crng, n)
    cyc = (i % 4 == 3)
    if cyc:
        # cyclic orders of >= 3 qubits in one or several registers (a permutation and its inverse coincide on swaps)
        regs = [list(r) for r in c03.CYCLIC_LAYOUTS[(i // 4) % len(c03.CYCLIC_LAYOUTS)]]
        n = max(q for r in regs for q in r) + 1
        freq_first = freq_first and len(regs) >= 2
    # both execution modes: every second history runs the circuit object as a density-matrix circuit
    hr = HistoryRun(be, n, regs, density_matrix=(i % 2 == 1 and n <= 3))
    Q = [q for r in regs for q in r]
    be.set_seed(crng.randrange(2 ** 31))
    nexec = crng.randint(1, 3)
    nops = crng.randint(nexec + 1, 10)
    # positions of the executions: the first operation is an execution
    pos = sorted([0] + crng.sample(range(1, nops), nexec - 1))
    import qibo
    default_batch = qibo.get_batch_size()
    try:
        if freq_first and i % 10 == 2:
            # frequencies are drawn in batches: small batch size so that shot counts hit its multiples
            qibo.set_batch_size(crng.choice([2, 4]))
            hr.log.append({"op": "set_batch_size", "batch_size": qibo.get_batch_size()})
        made = 0
        for t in range(nops):
            if t in pos:
                ints, j = dyadic_state(crng, n, deterministic=(crng.random() < 0.3 and not freq_first))
                while freq_first and sum(1 for a in ints if a != 0) < 3:
                    ints, j = dyadic_state(crng, n)
                hr.execute(ints, j, crng.randint(4 if freq_first else 1, 8))
                made += 1
                if freq_first:
                    hr.accessor("freqs", made - 1, crng.random() < 0.5, True)
                if cyc:
                    hr.accessor("probs", made - 1, qubits=(Q if crng.random() < 0.5 else Q[1:] + Q[:1]))
            elif crng.random() < 0.08:
                hr.final()
            else:
                random_accessor(crng, hr, crng.randrange(made), n)
    finally:
        qibo.set_batch_size(default_batch)
    return hr


def part_histories(run, be, count):
    exprs, hrs = [], []
    for i in range(count):
        try:
            hr = one_history(run, be, i)
            expr = hr.coq_case()
        except Exception as e:  # noqa
            run.case({"hist": i, "raised": True}, False)
            run.find("hist:raised", "executing a history of executions and accessor calls raised: " + repr(e)[:200],
                     {"part": "hist", "case": i, "raised": repr(e)[:300]})
            continue
        hr.case_index = i
        hrs.append(hr)
        exprs.append(expr)
        readers = {e["result"] for e in hr.log if e["op"] in ("samples", "freqs")}
        run.case({"hist": hr.log, "regs": hr.regs}, len(hr.results) >= 2 and len(readers) >= 1)
        if i < 2:
            run.sample({"part": "hist", "n": hr.n, "registers": hr.regs, "history": hr.log})
    vals = eval_cases(run, "hist", exprs)
    if vals is None:
        run.oblige("correspondence:histories", False, "correspondence")
        run.find("hist:coq-failed", "generated histories file did not compile", {}, concrete=False)
        return
    model_ok, multi, multi_bad, single_bad = not any(f.key == "hist:raised" for f in run.findings), 0, 0, 0
    for i0, (hr, v) in enumerate(zip(hrs, vals)):
        i = getattr(hr, "case_index", i0)
        info = {"part": "hist", "case": i, "n": hr.n, "registers": hr.regs, "history": hr.log}
        bools, verdicts = parse_case(v)
        readers = {e["result"] for e in hr.log if e["op"] in ("samples", "freqs")}
        before = len(run.findings)
        judge_history(run, hr, v, f"hist:case{i}", info, shared_key=shared_key_for(hr))
        new = run.findings[before:]
        if bools is None or not all(bools[1:]) or any(k for k, _ in hr.problems):
            model_ok = False
        bad = any(f.key.startswith(SHARED_KEY) for f in new)
        if len(readers) >= 2:
            multi += 1
            multi_bad += bad
        elif bad:
            # results_standalone_partial says this cannot happen for the model
            single_bad += 1
            run.find(f"hist:case{i}:single_reader_violation",
                     "a history that reads only one result violates the specification (contradicts results_standalone_partial)", info)
    run.oblige("correspondence:histories", model_ok, "correspondence")
    run.notes["histories_reading_two_or_more_results"] = multi
    run.notes["of_which_violating_standalone"] = multi_bad
    run.notes["single_reader_histories_violating"] = single_bad


# ------------------------------------------------------------------ seeding
def seeded_run(be, n, regs, execs, script, seed, circuit_holder=None):
    hr = circuit_holder or HistoryRun(be, n, regs)
    be.set_seed(seed)
    outs = []
    base = len(hr.results)
    for ints, j, ns in execs:
        hr.execute(ints, j, ns)
    for (kind, r, b, rg) in script:
        v = hr.accessor(kind, base + r, b, rg)
        outs.append(c03.out_term(kind, b, rg, v, hr.circuit.measurements))
    return hr, outs


def part_seed(run, be, count):
    ok = True
    reruns = []
    for i in range(count):
        crng = random.Random(f"{run.seed}:seed:{i}")
        n = crng.randint(1, 3)
        regs = random_registers(crng, n)
        # special seed values in EVERY run (0 is falsy, 1, the largest value numpy accepts), then random ones
        special = {0: 0, 1: 1, 2: 2 ** 32 - 1, 3: 0, 4: 0}.get(i)
        if special is not None and n < 2:      # one qubit has no dyadic superposition with exact probabilities
            n = 2
            regs = random_registers(crng, n)
        execs = []
        for _ in range(crng.randint(1, 2)):
            st = dyadic_state(crng, n)
            while special is not None and sum(1 for a in st[0] if a != 0) < 2:
                st = dyadic_state(crng, n)      # outcomes must be random, or a missing re-seed is invisible
            execs.append(st + (crng.randint(10 if special is not None else 2, 12),))
        script = [(crng.choice(["samples", "freqs"]), crng.randrange(len(execs)), crng.random() < 0.5, crng.random() < 0.5)
                  for _ in range(crng.randint(1, 4))]
        if special is not None:
            script.append(("samples", 0, False, False))
        seed = crng.randrange(2 ** 31) if special is None else special
        # two fresh circuit objects, different generator states before seeding
        np.random.random(crng.randint(1, 5))
        try:
            _, o1 = seeded_run(be, n, regs, execs, script, seed)
            np.random.random(crng.randint(6, 9))
            hr2, o2 = seeded_run(be, n, regs, execs, script, seed)
            # the same circuit object once more with the same seed
            _, o3 = seeded_run(be, n, regs, execs, script, seed, circuit_holder=hr2)
        except Exception as e:  # noqa
            ok = False
            run.case({"seed": i, "raised": True}, False)
            run.find("seed:raised", "seeding / executing / reading a result raised: " + repr(e)[:200],
                     {"part": "seed", "case": i, "n": n, "registers": regs, "seed": seed, "script": script, "raised": repr(e)[:300]})
            continue
        info = {"part": "seed", "case": i, "n": n, "registers": regs, "seed": seed, "script": script,
                "executions": [[str(a) for a in e[0]] + [e[1], e[2]] for e in execs]}
        run.case({"seed": info}, True)
        if i == 0:
            run.sample(info)
        if o1 != o2:
            ok = False
            run.find("seed:fresh_circuits", "same seed, same operations on two fresh circuit objects give different samples/frequencies", info)
        reruns.append((hr2, info, o3 != o2))
    # the re-run on the same circuit object is a history with several results: model + specification
    vals = eval_cases(run, "seed", [hr.coq_case() for hr, _, _ in reruns])
    if vals is None:
        run.find("seed:coq-failed", "generated seed file did not compile", {}, concrete=False)
        ok = False
    else:
        for (hr, info, differs), v in zip(reruns, vals):
            before = len(run.findings)
            judge_history(run, hr, v, f"seed:case{info['case']}", dict(info, history=hr.log), shared_key=shared_key_for(hr))
            bools, _ = parse_case(v)
            # the faithful model (whose only channel between results is the shared M.result) reproduces
            # every output of this history, and the same script on fresh circuits was reproducible
            shared = (any(f.key.startswith(SHARED_KEY) for f in run.findings[before:])
                      or (bools is not None and all(bools) and not hr.problems))
            if any(not f.key.startswith(SHARED_KEY) for f in run.findings[before:]):
                ok = False
            if differs:
                ok = False
                run.find("seed:same_circuit_rerun", "re-running the same operations with the same seed on the same circuit object gives different samples/frequencies", info)
    run.oblige("test:same_seed_same_samples_on_fresh_circuits", ok, "test")


# ------------------------------------------------------------------ parallel helpers
def with_timeout(fn, seconds=90):
    box = {}

    def target():
        try:
            box["value"] = fn()
        except Exception as e:  # noqa
            box["error"] = e
    th = threading.Thread(target=target, daemon=True)
    th.start()
    th.join(seconds)
    if th.is_alive():
        return "timeout", None
    if "error" in box:
        return "error", box["error"]
    return "ok", box["value"]


def part_parallel(run, be, count):
    from qibo import Circuit, gates
    from qibo.parallel import parallel_circuits_execution, parallel_execution, parallel_parametrized_execution
    exprs, hrs, metas = [], [], []
    ok_plain = True
    for i in range(count):
        n_e, n_h, n_m = len(exprs), len(hrs), len(metas)
        try:
            crng = random.Random(f"{run.seed}:par:{i}")
            n = crng.randint(1, 2)
            regs = random_registers(crng, n)
            k = 1 + i % 3
            nst = crng.randint(2, 4)
            sts = [dyadic_state(crng, n, deterministic=(crng.random() < 0.4)) for _ in range(nst)]
            be.set_seed(crng.randrange(2 ** 31))
            mode = ("same_circuit", "circuits", "parametrized")[i % 3]
            info = {"part": "parallel", "case": i, "helper": mode, "processes": k, "n": n, "registers": regs,
                    "states_times_2^j": [[str(a) for a in s[0]] + [s[1]] for s in sts]}
            run.case({"parallel": info}, k >= 2)
            if i < 3:
                run.sample(info)
            if mode == "same_circuit":
                hr = HistoryRun(be, n, regs)
                arrs = [np.array(a, dtype=complex) / 2 ** j for a, j in sts]
                status, res = with_timeout(lambda: parallel_execution(hr.circuit, arrs, processes=k, backend=be))
                if status != "ok":
                    ok_plain = False
                    run.find(f"parallel_execution:{status}", f"parallel_execution(processes={k}) {status}: {res!r}"[:300], info)
                    continue
                if len(res) != nst or not any(r is hr.circuit._final_state for r in res):
                    ok_plain = False
                    run.find("parallel_execution:results", "wrong number of results or circuit._final_state is none of them", info)
                    continue
                for r, (a, j) in zip(res, sts):
                    hr.adopt(r, a, j, 1000)     # parallel_execution uses the default nshots
                # read every result: probabilities, then frequencies/samples in a random order
                order = list(range(nst))
                crng.shuffle(order)
                for r in order:
                    hr.accessor("probs", r, qubits=ordered_sublist(crng, n, 1))
                for r in order:
                    hr.accessor("freqs", r, False, crng.random() < 0.5)
                hr.accessor("samples", order[0], False, False)
                hr.accessor("freqs", order[-1], False, True)
                hrs.append(hr)
                metas.append((info, True))
                exprs.append(hr.coq_case())
            else:
                # independent circuit objects: one machine per result
                if mode == "circuits":
                    circs = [c03.make_circuit(n, regs) for _ in range(nst)]
                    arrs = [np.array(a, dtype=complex) / 2 ** j for a, j in sts]
                    ns = crng.randint(1, 9)
                    status, res = with_timeout(lambda: parallel_circuits_execution(circs, arrs, nshots=ns, processes=k, backend=be))
                else:
                    ns = 1000
                    a0, j0 = sts[0]
                    base = Circuit(n)
                    perms = []
                    for q in range(n):
                        base.add(gates.Unitary(np.eye(2, dtype=complex), q))
                    for reg in regs:
                        base.add(gates.M(*reg))
                    X = np.array([[0, 1], [1, 0]], dtype=complex)
                    params = [[(X if crng.random() < 0.5 else np.eye(2, dtype=complex)) for _ in range(n)] for _ in range(nst)]
                    status, res = with_timeout(lambda: parallel_parametrized_execution(
                        base, params, initial_state=np.array(a0, dtype=complex) / 2 ** j0, processes=k, backend=be))
                if status != "ok":
                    ok_plain = False
                    run.find(f"parallel_{mode}:{status}", f"parallel helper {mode}(processes={k}) {status}: {res!r}"[:300], info)
                    continue
                gates_shared = len({id(r.measurements[0]) for r in res}) != len(res)
                if gates_shared:
                    ok_plain = False
                    run.find(f"parallel_{mode}:shared_gates", "results of independent circuit objects share measurement gates", info)
                for t, r in enumerate(res):
                    hr = HistoryRun(be, n, regs)
                    hr.circuit = type("C", (), {"measurements": r.measurements, "_final_state": r})()
                    if mode == "circuits":
                        a, j = sts[t]
                    else:
                        # the state after the X gates chosen for this task
                        a, j = list(sts[0][0]), sts[0][1]
                        for q in range(n):
                            if params[t][q][0, 0] == 0:
                                a = [a[x ^ (1 << (n - 1 - q))] for x in range(2 ** n)]
                    hr.adopt(r, a, j, ns)
                    hr.accessor("probs", 0, qubits=ordered_sublist(crng, n, 1))
                    hr.accessor("freqs", 0, False, crng.random() < 0.5)
                    hr.accessor("samples", 0, False, crng.random() < 0.5)
                    hrs.append(hr)
                    metas.append((dict(info, task=t), False))
                    exprs.append(hr.coq_case())
        except Exception as e:  # noqa
            del exprs[n_e:], hrs[n_h:], metas[n_m:]
            ok_plain = False
            run.find("parallel:raised", "a parallel helper or reading its results raised: " + repr(e)[:200],
                     {"part": "parallel", "case": i, "raised": repr(e)[:300]})
    vals = eval_cases(run, "parallel", exprs, chunk=6)
    if vals is None:
        run.oblige("correspondence:parallel_helpers", False, "correspondence")
        run.find("parallel:coq-failed", "generated parallel file did not compile", {}, concrete=False)
        return
    model_ok = ok_plain
    for hr, (info, shared), v in zip(hrs, metas, vals):
        info = dict(info, history=hr.log)
        bools, _ = parse_case(v)
        judge_history(run, hr, v, f"parallel:{info['helper']}:case{info['case']}", info,
                      shared_key=(lambda bad: f"{SHARED_KEY}:parallel_execution") if shared else None)
        if bools is None or not all(bools[1:]) or hr.problems:
            model_ok = False
    run.oblige("correspondence:parallel_helpers", model_ok, "correspondence")



# ------------------------------------------------------------------ repeated execution (collapse) of one circuit object
def part_repeated_sharing(run, be, count):
    """circuits with a collapsing measurement are executed shot by shot; every execution resets and
    re-registers the samples on the circuit's measurement gates.  The views of an earlier result
    must still be its own samples after a later execution (Coq oracle: explainsb)."""
    items, meta = [], []
    for i in range(count):
        crng = random.Random(f"{run.seed}:repshare:{i}")
        n = crng.randint(1, 3)
        fixed = None
        if i % 3 == 2:
            fixed = [list(r_) for r_ in c03.CYCLIC_LAYOUTS[(i // 3) % 6]]
            n = 3
        dm_ = (i % 2 == 1)
        c, regs, cq = c03.repeated_circuit(crng, n, density_matrix=dm_, regs=fixed)
        be.set_seed(crng.randrange(2 ** 31))
        results, S = [], []
        info = {"part": "repeated_sharing", "case": i, "n": n, "density_matrix": dm_, "collapse": f"M({','.join(map(str, cq))}, collapse=True)",
                "registers": regs, "executions": []}
        try:
            for _ in range(2):
                ints, j = dyadic_state(crng, n)
                ns = crng.randint(1, 5)
                info["executions"].append({"state_times_2^j": [str(a) for a in ints], "j": j, "nshots": ns})
                with np.errstate(all="ignore"):
                    psi_ = np.array(ints, dtype=complex) / 2 ** j
                    r = c(initial_state=(np.outer(psi_, psi_.conj()) if dm_ else psi_), nshots=ns)
                results.append(r)
                S.append([int(x) for x in np.asarray(r.samples(binary=False)).tolist()])
                info["executions"][-1]["samples"] = S[-1]
            terms = [c03.view_terms(r, c.measurements, regs, "repshare", run, info, report_shape=False) for r in results]
            if dm_:
                # the averaged state of the result contains every shot's final state with weight 1/nshots: each sample
                # must have non-zero probability under result.probabilities(measured qubits in the order given)
                Qm = [q for reg in regs for q in reg]
                for t_, r in enumerate(results):
                    pq = np.asarray(r.probabilities(qubits=Qm)).ravel()
                    st_ = np.asarray(r.state())
                    exp_ = born_marginal(np.real(np.diag(st_)), n, Qm)
                    if pq.shape != exp_.shape or not np.max(np.abs(pq - exp_)) <= 1e-12:
                        run.find("standalone:self_consistency:probabilities:dm_collapse", f"result {t_}: probabilities(qubits={Qm}) is not the Born marginal of the result's own (averaged) state",
                                 dict(info, result=t_))
                    elif any(not pq[s_] > 1e-12 for s_ in S[t_]):
                        run.find("standalone:self_consistency:samples:dm_collapse", f"result {t_}: a sample has probability zero in the result's own (averaged) state",
                                 dict(info, result=t_))
        except Exception as e:  # noqa
            run.case({"repeated_sharing": info, "raised": True}, False)
            run.find("repeated_sharing:raised", "shot-by-shot execution of a circuit with a collapsing measurement (or reading its result) raised: " + repr(e)[:200],
                     dict(info, raised=repr(e)[:300]))
            continue
        run.case({"repeated_sharing": info}, S[0] != S[1])
        if i == 0:
            run.sample(info)
        cfg = f"(mkcfg {n}%nat {c03.nat_list_list(regs)})"
        for t, r in enumerate(results):
            for label, op, out in terms[t]:
                items.append((f"repshare:case{i}:r{t}:{label}", f"explainsb {cfg} (@nil Z) {c03.nat_list(S[t])} ({op}) ({out})"))
                meta.append((f"repshare:case{i}:r{t}:{label}", info, t, label))
    res, _ = run.coq_bools("repshare.v", c03.HEADER, items, timeout=600)
    if res is None:
        run.find("repshare:coq-failed", "generated file did not compile", {}, concrete=False)
        return
    bad = 0
    for label, info, t, view in meta:
        if not res[label]:
            bad += 1
            which = "earlier" if t == 0 else "later"
            run.find(f"{SHARED_KEY}:repeated_execution:{which}_result:{view.split(':')[0]}_registers={view.split(':')[2]}",
                     "after another shot-by-shot execution of the same circuit object a view of the result is no longer its own samples "
                     "(the per-register samples live on the circuit's measurement gates)", dict(info, result=t, view=view))
    run.notes["repeated_execution_views_not_own"] = bad
    if not bad and not any(f.key == "repeated_sharing:raised" for f in run.findings):
        run.oblige("test:repeated_execution_results_standalone", True, "test")


# ------------------------------------------------------------------ Clifford results of one circuit object
CLIFFORD_KEY = "standalone:clifford_shared_M_result"


def part_clifford(run, be_np, count):
    """quantum_info/clifford.py has its own copy of the samples/frequencies logic: two executions of
    one circuit object on the Clifford backend from different basis stabiliser states and with
    different shot counts; every view of each result is judged by the Coq oracle against the
    result's OWN execution (shots_okb: count and support; explainsb: views)."""
    from qibo import Circuit, gates
    from qibo.backends import CliffordBackend
    cb = CliffordBackend()
    items, meta = [], []
    for i in range(count):
        n_items, n_meta = len(items), len(meta)
        try:
            crng = random.Random(f"{run.seed}:clifford:{i}")
            n = crng.randint(1, 3)
            regs = random_registers(crng, n)
            c = c03.make_circuit(n, regs)
            results, execs = [], []
            for _ in range(2):
                x = [crng.randint(0, 1) for _ in range(n)]
                prep = Circuit(n)
                for q in range(n):
                    if x[q]:
                        prep.add(gates.X(q))
                init = cb.execute_circuit(prep).symplectic_matrix if any(x) else None
                ns = crng.randint(1, 6)
                results.append(cb.execute_circuit(c, initial_state=init, nshots=ns))
                execs.append((x, ns))
            order = [0, 1] if crng.random() < 0.5 else [1, 0]
            info = {"part": "clifford", "case": i, "n": n, "registers": regs, "read_order": order,
                    "executions": [{"basis_state_bits": x, "nshots": ns} for x, ns in execs]}
            run.case({"clifford": info}, execs[0] != execs[1])
            if i == 0:
                run.sample(info)
            cfg = f"(mkcfg {n}%nat {c03.nat_list_list(regs)})"
            for t in order:
                r = results[t]
                x, ns = execs[t]
                w = [0] * 2 ** n
                w[int("".join(map(str, x)), 2)] = 1
                S = [int(v) for v in np.asarray(r.samples(binary=False)).tolist()]
                info["executions"][t]["samples"] = S
                items.append((f"cl{i}:r{t}:shots", f"shots_okb {cfg} {c03.z_list(w)} {ns}%nat {c03.nat_list(S)}"))
                meta.append((f"cl{i}:r{t}:shots", info, t, "shots"))
                for label, op, out in c03.view_terms(r, c.measurements, regs, "clifford", run, info, report_shape=False):
                    items.append((f"cl{i}:r{t}:{label}", f"explainsb {cfg} {c03.z_list(w)} {c03.nat_list(S)} ({op}) ({out})"))
                    meta.append((f"cl{i}:r{t}:{label}", info, t, label))
        except Exception as e:  # noqa
            del items[n_items:], meta[n_meta:]
            run.case({"clifford": i, "raised": True}, False)
            run.find("clifford:raised", "executing a circuit on the Clifford backend / reading its result raised: " + repr(e)[:200],
                     {"part": "clifford", "case": i, "raised": repr(e)[:300]})
    res, _ = run.coq_bools("clifford.v", c03.HEADER, items, timeout=600)
    if res is None:
        run.find("clifford:coq-failed", "generated file did not compile", {}, concrete=False)
        return
    bad = 0
    for label, info, t, view in meta:
        if not res[label]:
            bad += 1
            what = ("samples of a Clifford result have the wrong count or zero probability for its own execution"
                    if view == "shots" else "a view of a Clifford result is not the same data as its own samples")
            run.find(f"{CLIFFORD_KEY}:{'shots' if view == 'shots' else 'views'}", what, dict(info, result=t, view=view))
    run.notes["clifford_views_not_own"] = bad
    if bad:
        run.refuted.append("clifford_results_standalone")
    else:
        run.oblige("test:clifford_results_standalone", True, "test")

# ------------------------------------------------------------------ a result agrees with itself: state vs probabilities vs samples
SELF_LAYOUTS = [[[2, 0, 1]], [[1, 2, 0]], [[2], [0], [1]], [[1], [2], [0]], [[2, 0], [1]], [[1, 3, 0, 2]], [[3, 0], [2]], [[0, 1, 2]], [[1], [0]], [[3, 1], [0]]]


def born_marginal(p_full, n, qs):
    """independent Born marginal: sum of p_full[x] over the basis states x whose bits on qs (in that order) spell the key"""
    out = np.zeros(2 ** len(qs))
    for x in range(2 ** n):
        key = 0
        for q in qs:
            key = 2 * key + ((x >> (n - 1 - q)) & 1)
        out[key] += p_full[x]
    return out


def self_case(run, be, i):
    """one circuit object (float gates, asymmetric state), registers in cyclic / non-ascending order, executed twice in
    state-vector mode and twice in density-matrix mode (different initial basis states and shot counts); accessors read in
    reverse order of the executions.  Every result: probabilities(qubits) for several qubit orders == Born marginal of ITS
    OWN state(), every sample has non-zero probability under its own state, frequencies are the counts of its samples, and
    the two modes agree."""
    from qibo import Circuit, gates
    crng = random.Random(f"{run.seed}:self:{i}")
    regs = [list(r) for r in SELF_LAYOUTS[i % len(SELF_LAYOUTS)]] if i < 2 * len(SELF_LAYOUTS) else random_registers(crng, crng.randint(3, 4))
    Q = [q for r in regs for q in r]
    n = max(Q) + 1 + int(crng.random() < 0.3)
    script = []

    def build(dm):
        g = random.Random(f"{run.seed}:self:{i}:gates")
        c = Circuit(n, density_matrix=dm)
        ones = g.sample(range(n), g.randint(1, max(1, n - 1)))
        for q in ones:
            c.add(gates.X(q))
        for q in range(n):
            if g.random() < 0.6:
                c.add(gates.RY(q, theta=g.choice([0.3, 1.1, 2.0, -0.7, 1e-3])))
        if n >= 2 and g.random() < 0.5:
            a, b = g.sample(range(n), 2)
            c.add(gates.CNOT(a, b))
        for reg in regs:
            c.add(gates.M(*reg))
        if not dm:
            script[:] = [f"{type(x).__name__}({','.join(map(str, x.qubits))}" + (f", theta={x.parameters[0]}" if x.parameters else "") + ")" for x in c.queue]
        return c
    info = {"part": "self", "case": i, "n": n, "registers": regs, "executions": []}
    problems = []
    per_mode = {}
    for dm in (False, True):
        c = build(dm)
        erng = random.Random(f"{run.seed}:self:{i}:exec")
        results = []
        for e in range(2):
            x0 = erng.randrange(2 ** n) if e else 0
            ns = erng.randint(5, 12)
            psi0 = np.zeros(2 ** n, dtype=complex)
            psi0[x0] = 1
            be.set_seed(erng.randrange(2 ** 31))
            init = (np.outer(psi0, psi0.conj()) if dm else psi0) if e else None
            results.append((c(initial_state=init, nshots=ns), ns, x0))
            if not dm:
                info["executions"].append({"initial_basis_state": x0, "nshots": ns})
        for e in (1, 0):
            r, ns, x0 = results[e]
            st = np.asarray(r.state())
            p_full = (np.real(np.diag(st)) if dm else np.abs(st) ** 2)
            orders = [Q, Q[1:] + Q[:1], sorted(Q), list(reversed(Q))]
            mode = "dm" if dm else "sv"
            for qs in orders:
                got = np.asarray(r.probabilities(qubits=qs)).ravel()
                exp = born_marginal(p_full, n, qs)
                if got.shape != exp.shape or not np.max(np.abs(got - exp)) <= 1e-12:
                    problems.append((f"probabilities:{mode}", f"execution {e} ({mode}): result.probabilities(qubits={qs}) is not the Born marginal of result.state() in that qubit order", {"qubits": qs, "execution": e}))
                per_mode.setdefault((e, tuple(qs)), {})[mode] = got
            pq = born_marginal(p_full, n, Q)
            S = [int(v) for v in np.asarray(r.samples(binary=False)).tolist()]
            if len(S) != ns:
                problems.append((f"nshots:{mode}", f"execution {e} ({mode}): {len(S)} samples for nshots={ns}", {"execution": e}))
            bad = [s_ for s_ in S if not pq[s_] > 1e-12]
            if bad:
                problems.append((f"samples:{mode}", f"execution {e} ({mode}): samples {sorted(set(bad))} (over the measured qubits {Q}) have probability zero in the result's own state", {"execution": e, "samples": S}))
            F = r.frequencies(binary=False)
            if dict(F) != dict(collections.Counter(S)):
                problems.append((f"frequencies:{mode}", f"execution {e} ({mode}): frequencies are not the counts of the samples", {"execution": e}))
            FR = r.frequencies(binary=True, registers=True)
            SR = r.samples(binary=True, registers=True)
            for k_, (m_, reg) in enumerate(zip(c.measurements, regs)):
                rows = ["".join(str((s_ >> (len(Q) - 1 - Q.index(q))) & 1) for q in reg) for s_ in S]
                if dict(FR[m_.register_name]) != dict(collections.Counter(rows)) or ["".join(str(int(b)) for b in row) for row in np.asarray(SR[m_.register_name]).tolist()] != rows:
                    problems.append((f"registers:{mode}", f"execution {e} ({mode}): register {reg} does not show the bits of its qubits of the result's samples", {"execution": e, "register": reg}))
    for (e, qs), d in per_mode.items():
        if "sv" in d and "dm" in d and not np.max(np.abs(d["sv"] - d["dm"])) <= 1e-12:
            problems.append(("modes_disagree", f"execution {e}: probabilities(qubits={list(qs)}) of the state-vector and of the density-matrix execution of the same circuit differ", {"qubits": list(qs), "execution": e}))
    info["script"] = script
    return info, problems


def part_self(run, be, count, only=None):
    import collections as _c
    globals().setdefault("collections", _c)
    ok = True
    for i in (range(count) if only is None else only):
        try:
            info, problems = self_case(run, be, i)
        except Exception as e:  # noqa
            info, problems = {"part": "self", "case": i}, [("raised", "raised: " + repr(e)[:300], {})]
        run.case({"self": info}, c03_layout_nontrivial(info.get("registers")))
        if i < 2:
            run.sample(info)
        seen = set()
        for kind, what, extra in problems:
            ok = False
            if kind in seen:
                continue
            seen.add(kind)
            run.find(f"standalone:self_consistency:{kind}", what, dict(info, **extra))
    if only is None:
        run.oblige("test:result_state_probabilities_samples_agree_both_modes", ok, "test")


def c03_layout_nontrivial(regs):
    if not regs:
        return False
    Q = [q for r in regs for q in r]
    return Q != sorted(Q)


# ------------------------------------------------------------------ main
RULE = ("histories: n<=3, registers = random partition of a random qubit subset in permuted order; 1..3 executions of one circuit object "
        "with different dyadic states (30% basis states) and 1..8 shots at random positions among <=10 operations; accessors "
        "samples/frequencies x binary x registers, probabilities(random ordered qubits), circuit.final_state on random results; "
        "non-trivial = >=2 executions and >=1 sampling accessor.  witness: the history of results_standalone_refuted and two variants, "
        "replayed on the real code.  seed: same script twice on fresh circuits and once more on the same circuit.  parallel: "
        "parallel_execution / parallel_circuits_execution / parallel_parametrized_execution with processes 1..3, 2..4 tasks, under a 90 s timeout.  "
        "repeated: two shot-by-shot executions (collapsing measurement) of one circuit object, all views of both results judged against their own samples.  "
        "clifford: two executions of one circuit object on the Clifford backend from different basis stabiliser states / shot counts, read in random order.  "
        "bitflip_two_results: two results of one circuit object with measurement bit-flip noise, all views of both in random order, each judged against its own samples / own noiseless draws.  "
        "xhist: n=2..3, first gate cycling through {no gate, plain 1-qubit, plain 2-qubit, controlled_by with leading control(s) in increasing order, two leading controls, trailing controls, "
        "unordered controls, fused} built from exact X/Y/Z/S/SWAP gates (50% followed by 1-2 more), 1..3 executions with input kinds cycling through {complex128, the SAME array again, complex64, "
        "float64, strided view, read-only, list, an earlier result's state(), default}, <=11 operations from {samples, frequencies, probabilities, apply_bitflips(float/dict/list/tuple forms, "
        "75% deterministic), expectation_from_samples, state/state(numpy)/symbolic/str/to_dict/dump+load, final_state}; after every operation inputs vs deep snapshots and the heap of all results vs xtrace.  "
        "diff: modes cycling through {state vector, density matrix, shot-by-shot with collapse, noisy trajectories, density matrix with channel / collapse, parallel_execution, "
        "parallel_parametrized_execution, parallel_circuits_execution} x first-gate kinds (also Unitary, channel, collapsing M) x input kinds (also Fortran-ordered), float data, 4..10 operations "
        "each preceded by a re-seed; every result against a seeded solo replica on fresh objects; finally the caller overwrites its input arrays.  "
        "self: 10 fixed register layouts (3-/4-cycles, registers in non-ascending order) then random ones, X/RY/CNOT float circuits, ONE circuit object per mode executed twice "
        "(default and basis initial state, 5..12 shots), read in reverse: probabilities(qubits) for 4 orders (given, rotated, sorted, reversed) against the Born marginal of the result's own state(), "
        "samples in its support, frequencies / register views = counts of its samples, state-vector and density-matrix probabilities equal (1e-12, test).  "
        "hist additionally: every 4th history on cyclic layouts with probabilities(qubits = Q or Q rotated), every 2nd history as density-matrix circuit.  "
        "retw: 14 accessor calls x {sv, dm, shot-by-shot} x {samples first, frequencies first}, the caller writes into the returned object.")


def budgets(tier):
    if tier == "thorough":
        return {"hist": 3000, "seed": 200, "par": 90, "rep": 150, "cliff": 120, "flip": 150, "xhist": 1600, "diff": 2400, "cliffin": 200, "self": 200}
    return {"hist": 300, "seed": 40, "par": 18, "rep": 30, "cliff": 24, "flip": 30, "xhist": 240, "diff": 330, "cliffin": 30, "self": 40}


def main(run):
    be = backend()
    run.trusted += ["Coq 8.16.1 kernel, vm_compute",
                    "C03/ModelResult.v as the model of result.py / measurements.py (tied by the exact correspondence of this run and of C03)",
                    "harness/c03.py HistoryRun: recording of the implementation's draws, serialisation",
                    "joblib threads: every schedule is represented at method-call granularity only"]
    run.trusted += ["harness/c14_iso.py: deep snapshots of inputs, attribute peek of what the result objects hold (heap trace), exact Gaussian-integer "
                    "application of X/Y/Z/S/SWAP (+controls) as the oracle of the executed state, bit-for-bit comparison with seeded solo replicas"]
    run.notes["isolation_model"] = ("C14/ModelIso.v (xop = base operations + apply_bitflips + read-only peeks); theorems C14/PropsIso.v: accessors_write_once(_run), "
                                    "other_results_untouched, executions_keep_results, materialised_accessor_identity, result_function_of_own_execution(_fresh), "
                                    "first/later_execution_standalone; tied by xtrace (heap after every call) and xsolo_ok (outputs == solo run) on every xhist case")
    run.assumptions += ["measurement-gate bit-flip probabilities p = 0 inside the model-tied histories (the post-hoc accessor result.apply_bitflips IS modelled: deterministic maps exactly, "
                        "fractional maps by their effect on the heap only); no collapse / repeated execution inside the model-tied histories (covered differentially by part diff)",
                        "np.random.* are oracles (contract checked on every draw); thread interleavings inside one method call are not modelled"]
    names = static_obligations(run, "C14/Props")
    if run.tier == "thorough":
        c03.coqchk(run, "QV.C14.Props")
    b = budgets(run.tier)
    sp = c03.safe_part
    sp(run, "witness", lambda: part_witness(run, be))
    sp(run, "hist", lambda: part_histories(run, be, b["hist"]))
    sp(run, "seed", lambda: part_seed(run, be, b["seed"]))
    sp(run, "parallel", lambda: part_parallel(run, be, b["par"]))
    sp(run, "self", lambda: part_self(run, be, b["self"]))
    sp(run, "repeated_sharing", lambda: part_repeated_sharing(run, be, b["rep"]))
    sp(run, "clifford", lambda: part_clifford(run, be, b["cliff"]))
    sp(run, "bitflip_two_results", lambda: c03.part_bitflip(run, None, be, b["flip"], tag="bitflip_two_results", executions=2))
    names += static_obligations(run, "C14/PropsIso")
    sp(run, "xhist", lambda: c14_iso.part_xhist(run, be, b["xhist"]))
    sp(run, "diff", lambda: c14_iso.part_diff(run, be, b["diff"]))
    sp(run, "retw", lambda: c14_iso.part_retw(run, be))
    sp(run, "cliff_inputs", lambda: c14_iso.part_cliff_inputs(run, be, b["cliffin"]))
    run.refuted = list(dict.fromkeys(run.refuted))
    return run.finish(rule=RULE)


def replay(run, data):
    be = backend()
    rp = data.get("replay", {})
    run.seed = data.get("seed", run.seed)
    part = rp.get("part")
    if part == "hist":
        hr = one_history(run, be, rp["case"])
        vals = eval_cases(run, "replay_hist", [hr.coq_case()])
        if vals:
            judge_history(run, hr, vals[0], f"hist:case{rp['case']}", rp, shared_key=shared_key_for(hr))
    elif part == "witness":
        part_witness(run, be)
    elif part == "self":
        part_self(run, be, 0, only=[rp["case"]])
    elif part == "seed":
        part_seed(run, be, rp["case"] + 1)
    elif part == "parallel":
        part_parallel(run, be, rp["case"] + 1)
    elif part == "bitflip_two_results":
        c03.part_bitflip(run, None, be, 0, tag="bitflip_two_results", executions=2, only=[rp["case"]])
    elif part == "clifford":
        part_clifford(run, be, rp["case"] + 1)
    elif part == "repeated_sharing":
        part_repeated_sharing(run, be, rp["case"] + 1)
    elif part == "xhist":
        c14_iso.part_xhist(run, be, 0, only=[rp["case"]])
    elif part == "diff":
        c14_iso.part_diff(run, be, 0, only=[rp["case"]])
    elif part == "retw":
        c14_iso.part_retw(run, be)
    elif part == "cliff_inputs":
        c14_iso.part_cliff_inputs(run, be, rp["case"] + 1)
    return run.finish(rule="replay of one recorded case")
