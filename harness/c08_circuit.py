"""C08, circuit-level wrapper and construction-data streams.

Model statement (C08/PropsCircuit.v, closed): `Circuit.decompose(*free)` IS `flat_map (fun g => decompose g free)`
over the queue, and if every member's decomposition equals the member up to a phase, the decomposed circuit
equals the circuit up to (the product of) the phases -- whatever construction data, history or repetition the
members have.  The tie is exact and structural: the queue of the real `c.decompose(*free)` is compared, gate by
gate (class, controls, targets, parameter values), with the concatenation of `decompose(*free)` of FRESHLY
BUILT equal gates (built from a descriptor holding the current values only).  Circuits come from a grammar
of *collision groups*: members that agree on (class, ordered qubits, parameters) but differ in construction
data (in/out split of GeneralizedRBS, `controlled_by` form vs class, trainable flag, parameters set after
construction, the same object twice), members that agree on class + parameters on permuted / other qubits,
members that agree on class + qubits with other parameters, interleaved with random gates of every class.
Independent float cross-check (1e-10) of the operators on the whole register (so free qubits are untouched
in every state), input non-mutation, output aliasing, decompose -> set_parameters -> decompose again.
"""
import inspect
import math
import random

import numpy as np

from lib import qtrace

TOL = 1e-10


# ------------------------------------------------------------------ descriptors -> gates
def _cat():
    return {name: (nq, ps) for name, nq, ps in qtrace.catalogue()}


def build(d):
    """a freshly constructed gate from a descriptor (current values only, no history)"""
    gg = qtrace.mod("qibo.gates.gates")
    k = d["kind"]
    kw = {"trainable": False} if d.get("frozen") else {}
    if k == "std":
        return getattr(gg, d["cls"])(*d["qubits"], *d["params"], **kw)
    if k == "grbs":
        return gg.GeneralizedRBS(list(d["ins"]), list(d["outs"]), d["params"][0], d["params"][1], **kw)
    if k == "grbs_cb":
        return gg.GeneralizedRBS(list(d["ins"]), list(d["outs"]), d["params"][0], d["params"][1], **kw).controlled_by(*d["controls"])
    if k == "mcx":
        return gg.X(d["target"]).controlled_by(*d["controls"])
    if k == "cb":
        return getattr(gg, d["cls"])(*d["qubits"], *d["params"], **kw).controlled_by(*d["controls"])
    if k == "unitary":
        M = np.array([[complex(*x) for x in r] for r in d["matrix"]])
        return gg.Unitary(M, *d["qubits"], trainable=False)
    raise ValueError(k)


def desc_qubits(d):
    k = d["kind"]
    if k in ("std", "unitary"):
        return list(d["qubits"])
    if k == "grbs":
        return list(d["ins"]) + list(d["outs"])
    if k == "grbs_cb":
        return list(d["controls"]) + list(d["ins"]) + list(d["outs"])
    if k == "mcx":
        return list(d["controls"]) + [d["target"]]
    return list(d["controls"]) + list(d["qubits"])


def snap(gs):
    out = []
    for g in gs:
        p = g.parameters
        p = tuple(complex(x) for x in np.asarray(p, dtype=complex).ravel()) if p is not None else ()
        extra = ()
        if type(g).__name__ == "GeneralizedRBS":
            extra = (tuple(g.init_args[0]), tuple(g.init_args[1]))
        if type(g).__name__ == "M":
            extra = (tuple(b.__name__ for b in g.basis_gates), g.register_name)
        out.append((type(g).__name__, tuple(g.control_qubits), tuple(g.target_qubits), p, bool(g.is_controlled_by), extra))
    return out


def snap_close(a, b, tol=1e-12):
    if len(a) != len(b):
        return False
    for x, y in zip(a, b):
        if x[:3] != y[:3] or x[4:] != y[4:] or len(x[3]) != len(y[3]):
            return False
        if any(abs(u - v) > tol for u, v in zip(x[3], y[3])):
            return False
    return True


def accepts_free(g):
    """does this gate's decompose() take free qubits? (signature, no execution)"""
    try:
        sig = inspect.signature(type(g).decompose)
    except (TypeError, ValueError):
        return True
    return any(p.kind == p.VAR_POSITIONAL for p in sig.parameters.values())


def unitary_of(gs, n):
    from qibo import Circuit
    c = Circuit(n)
    for g in gs:
        if type(g).__name__ != "M":
            c.add(g)
    return np.asarray(c.unitary())


# ------------------------------------------------------------------ stream A: controlled_by forms, gate level
def controlled_forms(run, rng, only=None):
    """every class of the catalogue in `controlled_by` form (1 and 2 extra controls, non-ascending placement):
    decompose() must implement the controlled operator up to a global phase (float, 1e-10; the classes whose
    constructor specialises -- X, RX->CRX, Z->CZ ... -- are additionally covered by the symbolic obligations
    of their specialised class).  Returns the set of (class, ncontrols) forms that are right."""
    place = (2, 0, 3, 1, 4)
    sound, reported = set(), set()
    for name, nq, ps in qtrace.catalogue():
        if only and name != only:
            continue
        for nc in (1, 2):
            if nq + nc > len(place):
                continue
            qs = [place[i] for i in range(nq)]
            cs = [place[nq + j] for j in range(nc)]
            n = max(qs + cs) + 1
            bad = None
            for trial in range(2):
                vals = [round(rng.uniform(0.1, 1.4), 3) for _ in ps]
                if name == "MS":
                    vals[2] = min(vals[2], 1.5)
                d = {"kind": "cb", "cls": name, "qubits": qs, "params": vals, "controls": cs}
                try:
                    g = build(d)
                except Exception:
                    bad = "n/a"          # class cannot take (more) controls
                    break
                try:
                    dec = g.decompose()
                    dist = qtrace.phase_distance(unitary_of(dec, n), unitary_of([build(d)], n))
                except Exception as e:  # noqa: BLE001
                    bad = {"error": f"{type(e).__name__}: {e}", **d}
                    break
                run.case(["decompose_controlled", name, nc, trial])
                if dist > TOL:
                    bad = {**d, "distance": dist, "returned": [[type(h).__name__, list(h.control_qubits), list(h.target_qubits)] for h in dec][:8]}
                    break
            if bad is None:
                sound.add((name, nc))
            elif bad != "n/a" and name not in reported:
                reported.add(name)
                # root cause, decided from what came back: (dropped) the decomposition of the UNcontrolled gate, controls
                # ignored; (template) a table class whose template indices are mapped through gate.qubits =
                # controls + targets; anything else is (wrong)
                cause = "wrong"
                try:
                    gg = qtrace.mod("qibo.gates.gates")
                    base = getattr(gg, name)(*bad["qubits"], *bad["params"])
                    if "returned" in bad and snap_close(snap(build(bad).decompose()), snap(base.decompose())):
                        cause = "dropped"
                    elif type(base) in qtrace.mod("qibo.transpiler.decompositions").standard_decompositions.decompositions:
                        cause = "template"
                except Exception:  # noqa: BLE001
                    pass
                run.refuted.append(f"decompose_controlled_{name}_c{nc}")
                run.find(f"decompose_controlled:{cause}:{name}",
                         f"{name}{tuple(qs)}.controlled_by{tuple(cs)}.decompose() does not implement the controlled gate "
                         f"({'distance up to phase %.3g' % bad['distance'] if 'distance' in bad else bad['error']}; "
                         f"returned {bad.get('returned')})", bad)
    run.oblige("controlled_by_forms_probed", True, "correspondence")
    return sound


# ------------------------------------------------------------------ stream B: free qubits through the wrapper, per class
def free_through_wrapper(run, only=None):
    """Circuit.decompose(*free) on a one-gate circuit, for every class: must not raise and must equal the gate."""
    from qibo import Circuit
    place = (2, 0, 3)
    ok_classes = set()
    for name, nq, ps in list(qtrace.catalogue()) + [("GeneralizedRBS", 3, ["theta", "phi"])]:
        if only and name != only:
            continue
        qs = [place[i] for i in range(nq)]
        vals = [0.37 + 0.21 * j for j in range(len(ps))]
        d = ({"kind": "grbs", "ins": qs[:1], "outs": qs[1:], "params": vals} if name == "GeneralizedRBS"
             else {"kind": "std", "cls": name, "qubits": qs, "params": vals})
        n, free = 5, [4, 1]
        c = Circuit(n)
        c.add(build(d))
        run.case(["free_through_wrapper", name])
        try:
            dc = c.decompose(*free)
            dist = qtrace.phase_distance(np.asarray(dc.unitary()), np.asarray(c.unitary()))
            if dist > TOL:
                run.find(f"circuit_decompose:free_operator:{name}", f"Circuit.decompose(*{free}) of a circuit holding one {name}{tuple(qs)} "
                         f"is at distance {dist:.3g} from the circuit", {"desc": d, "n": n, "free": free, "distance": dist})
            else:
                ok_classes.add(name)
        except Exception as e:  # noqa: BLE001
            run.refuted.append(f"circuit_decompose_free_{name}")
            run.find(f"circuit_decompose:free_rejected:{name}",
                     f"Circuit(5) holding one {name}{tuple(qs)}: decompose(*{free}) raises {type(e).__name__}: {e}",
                     {"desc": d, "n": n, "free": free, "error": f"{type(e).__name__}: {e}"})
    return ok_classes


# ------------------------------------------------------------------ stream C: plans (circuits with histories)
def _rand_params(rng, name, ps):
    vals = [round(rng.uniform(0.1, 1.4), 3) for _ in ps]
    return vals


def _variants(rng, seed, n_avail, cat, cb_sound):
    """collision group of a seed descriptor: members differing from it in exactly one aspect"""
    out = []
    k = seed["kind"]
    qs = desc_qubits(seed)
    others = [q for q in n_avail if q not in qs]
    # identical fresh copy, the same object again
    out.append(({**seed}, {}))
    out.append((None, {"same_as_seed": True}))
    if seed.get("params"):
        # same class + qubits, other parameters
        out.append(({**seed, "params": [round(rng.uniform(0.1, 1.4), 3) for _ in seed["params"]]}, {}))
        # built with other parameters, updated to the seed's through the gate object
        out.append(({**seed}, {"built_with": [round(rng.uniform(0.1, 1.4), 3) for _ in seed["params"]]}))
        # frozen twin
        out.append(({**seed, "frozen": not seed.get("frozen", False)}, {}))
    if k == "std" and len(qs) >= 2:
        p = qs[:]
        while p == qs:
            rng.shuffle(p)
        out.append(({**seed, "qubits": p}, {}))
    if k == "std" and len(others) >= len(qs):
        out.append(({**seed, "qubits": rng.sample(others, len(qs))}, {}))
    if k == "grbs":
        # every other in/out split of the same ordered qubits
        for cut in range(1, len(qs)):
            if cut != len(seed["ins"]):
                out.append(({**seed, "ins": qs[:cut], "outs": qs[cut:]}, {}))
        p = qs[:]
        rng.shuffle(p)
        out.append(({**seed, "ins": p[:len(seed["ins"])], "outs": p[len(seed["ins"]):]}, {}))
    if k == "std" and seed["cls"] in CB_TWINS:
        # the class as produced by controlled_by on the base class (same operator, other construction path)
        base, nctrl = CB_TWINS[seed["cls"]]
        if (base, nctrl) in cb_sound:
            out.append(({"kind": "cb", "cls": base, "qubits": qs[nctrl:], "controls": qs[:nctrl], "params": seed["params"]}, {}))
    return out


CB_TWINS = {"CNOT": ("X", 1), "TOFFOLI": ("X", 2), "CY": ("Y", 1), "CZ": ("Z", 1), "CRX": ("RX", 1), "CRY": ("RY", 1), "CRZ": ("RZ", 1),
            "CU1": ("U1", 1), "CU2": ("U2", 1), "CU3": ("U3", 1), "CSX": ("SX", 1), "CSXDG": ("SXDG", 1), "CCZ": ("Z", 2)}


def gen_plan(rng, with_free, cat, cb_sound, free_ok):
    n = rng.choice([5, 6])
    qubits = list(range(n))
    rng.shuffle(qubits)
    nfree = rng.choice([1, 2]) if with_free else 0
    free, work = qubits[:nfree], qubits[nfree:]
    names = sorted(cat)
    if with_free:
        names = [x for x in names if x in free_ok]

    def rand_desc():
        # with free qubits only members whose decompose() takes them (the others: free_through_wrapper)
        for _ in range(50):
            d = rand_desc0()
            if not with_free or accepts_free(build(d)):
                return d
        return {"kind": "std", "cls": "CNOT", "qubits": rng.sample(qubits, 2), "params": []}

    def rand_desc0():
        r = rng.random()
        if r < 0.18 and (not with_free or "GeneralizedRBS" in free_ok):
            k = rng.choice([2, 3, 3, 4])
            q = rng.sample(qubits, k)
            cut = rng.randrange(1, k)
            return {"kind": "grbs", "ins": q[:cut], "outs": q[cut:], "params": [round(rng.uniform(0.1, 1.4), 3), rng.choice([0.0, round(rng.uniform(0.1, 1.4), 3)])]}
        if r < 0.30:
            m = rng.choice([1, 2, 3, 3, 4]) if with_free else rng.choice([1, 2])
            m = min(m, len(work) - 1)
            q = rng.sample(work, m + 1)
            return {"kind": "mcx", "controls": q[:m], "target": q[m]}
        if r < 0.36 and cb_sound:
            nm, nc = rng.choice(sorted(cb_sound))
            if with_free and nm not in free_ok:
                nm, nc = "X", 1
            nq, ps = cat[nm]
            if nq + nc <= len(qubits) and nm != "X":
                q = rng.sample(qubits, nq + nc)
                return {"kind": "cb", "cls": nm, "qubits": q[:nq], "controls": q[nq:], "params": _rand_params(rng, nm, ps)}
        if r < 0.40:
            from scipy.stats import unitary_group
            k = rng.choice([1, 2])
            U = unitary_group.rvs(2 ** k, random_state=rng.randrange(2 ** 31))
            return {"kind": "unitary", "qubits": rng.sample(qubits, k), "matrix": [[[float(x.real), float(x.imag)] for x in r_] for r_ in U]}
        nm = rng.choice(names)
        nq, ps = cat[nm]
        # X.decompose refuses free qubits that coincide with its own (caller's contract): X-family gates stay on work qubits
        pool = work if nm in ("X", "CNOT", "TOFFOLI") else qubits
        return {"kind": "std", "cls": nm, "qubits": rng.sample(pool, nq), "params": _rand_params(rng, nm, ps)}

    members = []
    ngroups = rng.choice([2, 3])
    for _ in range(ngroups):
        seed = rand_desc()
        # prefer seeds with something to collide on
        for _try in range(3):
            if seed["kind"] in ("grbs",) or seed.get("params"):
                break
            seed = rand_desc()
        seed_idx = len(members)
        members.append({"desc": seed})
        on_work = seed["kind"] == "mcx" or seed.get("cls") in ("X", "CNOT", "TOFFOLI")
        vs = _variants(rng, seed, work if on_work else qubits, cat, cb_sound)
        rng.shuffle(vs)
        for d, h in vs[:rng.choice([2, 3, 4])]:
            # separators so that order matters
            for _s in range(rng.choice([0, 1, 1, 2])):
                members.append({"desc": rand_desc()})
            if d is not None and with_free and not accepts_free(build(d)):
                continue
            if h.get("same_as_seed"):
                members.append({"same_as": seed_idx})
            else:
                members.append({"desc": d, **h})
    for _ in range(rng.choice([1, 2, 3])):
        members.append({"desc": rand_desc()})
    plan = {"n": n, "free": free, "members": members, "measure": rng.random() < 0.3}
    # update step through the circuit: new values for some parametrized, trainable, non-alias members
    upd = {}
    for i, m in enumerate(members):
        d = m.get("desc")
        if d and d.get("params") and not d.get("frozen") and d["kind"] != "unitary" and rng.random() < 0.5:
            upd[str(i)] = [round(rng.uniform(0.1, 1.4), 3) for _ in d["params"]]
    plan["update"] = upd
    return plan


def special_plans():
    """deterministic corpus first: the collision shapes spelled out"""
    t, p = 0.7, 0.4
    g = lambda ins, outs, th=t, ph=p, **kw: {"desc": {"kind": "grbs", "ins": ins, "outs": outs, "params": [th, ph], **kw}}
    s = lambda cls, qs, ps=(), **kw: {"desc": {"kind": "std", "cls": cls, "qubits": list(qs), "params": list(ps), **kw}}
    plans = []
    # same ordered qubits + angles, every in/out split; a rotation in between so that order matters
    plans.append({"n": 4, "free": [], "measure": False, "update": {},
                  "members": [g([2], [0, 3]), s("RY", [0], [0.3]), g([2, 0], [3]), s("CNOT", [3, 2]), g([2], [0, 3]), g([2, 0], [3])]})
    plans.append({"n": 5, "free": [], "measure": True, "update": {"0": [0.9, 0.2]},
                  "members": [g([4, 1, 0], [2]), g([4], [1, 0, 2]), s("H", [1]), g([4, 1], [0, 2]), g([4, 1, 0], [2], ph=0.0), g([4, 1], [0, 2], ph=0.0)]})
    # same class + parameters on permuted qubits / other qubits; other parameters on the same qubits
    plans.append({"n": 4, "free": [], "measure": False, "update": {"1": [0.25]},
                  "members": [s("RZX", [0, 1], [t]), s("RZX", [1, 0], [t]), s("RZX", [2, 3], [t]), s("RZX", [0, 1], [p]), {"same_as": 0},
                              s("CRY", [3, 1], [t]), s("CRY", [1, 3], [t]), s("CRY", [3, 1], [t], frozen=True), {"desc": s("CRY", [3, 1], [t])["desc"], "built_with": [1.1]}]})
    plans.append({"n": 4, "free": [], "measure": False, "update": {"0": [0.1, 0.2, 0.3]},
                  "members": [s("U3", [2], [t, p, 0.2]), s("U3", [2], [p, t, 0.2]), s("U3", [0], [t, p, 0.2]), s("PRX", [1], [t, p]), s("PRX", [1], [p, t]),
                              s("CCZ", [0, 1, 2]), s("CCZ", [2, 1, 0]), s("TOFFOLI", [0, 1, 2]), s("TOFFOLI", [2, 1, 0]), s("TOFFOLI", [0, 2, 1]),
                              s("ECR", [0, 3]), s("ECR", [3, 0]), s("FSWAP", [1, 3]), s("FSWAP", [3, 1]), s("GIVENS", [0, 1], [t]), s("RBS", [0, 1], [t]), s("GIVENS", [1, 0], [t])]})
    # free qubits: multi-controlled X on the same controls in another order / other target, repeated
    mc = lambda cs, tq: {"desc": {"kind": "mcx", "controls": list(cs), "target": tq}}
    plans.append({"n": 6, "free": [5], "measure": False, "update": {},
                  "members": [mc([0, 1, 2], 3), s("RXXYY", [3, 0], [t]), mc([2, 1, 0], 3), mc([0, 1, 3], 2), mc([0, 1, 2, 3], 4), {"same_as": 0}, s("CNOT", [5, 0]),
                              mc([0, 1, 2], 4)]})
    plans.append({"n": 7, "free": [6, 2], "measure": False, "update": {},
                  "members": [mc([0, 1, 3, 4], 5), s("FSWAP", [5, 0]), mc([4, 3, 1, 0], 5), mc([0, 1, 3], 4), s("RZX", [6, 2], [t]), mc([0, 1, 3, 5], 4)]})
    return plans


def _resolve(plan):
    """current descriptor of every queue position (aliases resolved)"""
    ms = plan["members"]
    return [ms[m["same_as"]]["desc"] if "same_as" in m else m["desc"] for m in ms]


def run_plan(run, plan, tag):
    """executes one plan against the real code; returns the list of (key, what, extra) it found"""
    from qibo import Circuit, gates
    n, free = plan["n"], list(plan["free"])
    found = []

    def bad(key, what, **extra):
        found.append((key, what, {"plan": plan, **extra}))

    try:
        live = []
        for m in plan["members"]:
            if "same_as" in m:
                live.append(live[m["same_as"]])
                continue
            d = m["desc"]
            if m.get("built_with") is not None:
                g = build({**d, "params": m["built_with"]})
                g.parameters = tuple(d["params"])
            else:
                g = build(d)
            live.append(g)
        c = Circuit(n)
        for g in live:
            c.add(g)
        if plan.get("measure"):
            c.add(gates.M(*[q for q in range(n) if q not in free][:2]))
    except Exception as e:  # noqa: BLE001
        bad("circuit_decompose:plan_build", f"building the circuit raises {type(e).__name__}: {e}")
        return found
    descs = [dict(d) for d in _resolve(plan)]

    def stage(label):
        before = snap(c.queue)
        try:
            dc = c.decompose(*free)
        except Exception as e:  # noqa: BLE001
            bad(f"circuit_decompose:raises:{type(e).__name__}", f"[{label}] Circuit.decompose(*{free}) raises {type(e).__name__}: {e}")
            return None
        if snap(c.queue) != before:
            bad("circuit_decompose:input_mutated", f"[{label}] Circuit.decompose changed the queue of the circuit it was called on")
        if dc is c or dc.nqubits != n:
            bad("circuit_decompose:result_shape", f"[{label}] result is the input circuit itself or has {dc.nqubits} qubits instead of {n}")
        # (1) structural: the model flat_map over FRESH gates
        ref = []
        for d in descs:
            ref.extend(build(d).decompose(*free))
        got = [g for g in dc.queue if type(g).__name__ != "M"]
        if not snap_close(snap(got), snap(ref)):
            i = next((j for j, (x, y) in enumerate(zip(snap(got), snap(ref))) if not snap_close([x], [y])), min(len(got), len(ref)))
            bad("circuit_decompose:structure",
                f"[{label}] Circuit.decompose(*{free}) is not the concatenation of the decompositions of its gates: "
                f"{len(got)} gates against {len(ref)}, first difference at position {i}: "
                f"{snap(got)[i][:3] if i < len(got) else None} vs {snap(ref)[i][:3] if i < len(ref) else None}", position=i)
        # (2) operator on the whole register (free qubits included), float
        A, B = unitary_of(dc.queue, n), unitary_of([build(d) for d in descs], n)
        dist = qtrace.phase_distance(A, B)
        if dist > TOL:
            # which member is responsible, if any
            culprit = None
            for d in descs:
                try:
                    if qtrace.phase_distance(unitary_of(build(d).decompose(*free), n), unitary_of([build(d)], n)) > TOL:
                        culprit = d
                        break
                except Exception:  # noqa: BLE001
                    culprit = d
                    break
            if culprit is not None:
                cls = culprit.get("cls", culprit["kind"])
                bad(f"decompose_member:{culprit['kind']}:{cls}", f"[{label}] gate-level decompose(*{free}) of {culprit} does not implement the gate", distance=dist)
            else:
                bad("circuit_decompose:operator", f"[{label}] the operator of Circuit.decompose(*{free}) is at distance {dist:.3g} (up to phase) "
                    f"from the operator of the circuit although every member decomposes correctly on its own", distance=dist)
        # measurements kept
        if len(dc.measurements) != len(c.measurements) or [m.target_qubits for m in dc.measurements] != [m.target_qubits for m in c.measurements]:
            bad("circuit_decompose:measurements", f"[{label}] measurement gates differ after decompose")
        # (3) aliasing: what comes back belongs to the caller
        ids_in = {id(g) for g in c.queue}
        if any(id(g) in ids_in for g in dc.queue):
            shared = next(g for g in dc.queue if id(g) in ids_in)
            bad("circuit_decompose:aliased_input", f"[{label}] the decomposed circuit shares the gate object {type(shared).__name__}{shared.qubits} with the input circuit")
        for h in dc.queue:
            if getattr(h, "parameters", ()) and type(h).__name__ not in ("Unitary", "M"):
                h.parameters = tuple(0.777 for _ in h.parameters)
                if hasattr(h, "init_kwargs") and "theta" in h.init_kwargs:
                    h.init_kwargs["theta"] = 0.777
        if snap(c.queue) != before:
            bad("circuit_decompose:aliased_input", f"[{label}] editing the parameters of the decomposed circuit changed the input circuit")
        try:
            dc2 = c.decompose(*free)
            if not snap_close(snap([g for g in dc2.queue if type(g).__name__ != "M"]), snap(ref)):
                bad("circuit_decompose:aliased_output", f"[{label}] after the caller edited the gates of one decomposed circuit, decomposing the same circuit again gives other gates")
        except Exception as e:  # noqa: BLE001
            bad(f"circuit_decompose:raises:{type(e).__name__}", f"[{label}] second decompose raises {type(e).__name__}: {e}")
        return dc

    stage("fresh")
    run.case([tag, "fresh"])
    if plan.get("update"):
        upd = {}
        for i, vals in plan["update"].items():
            i = int(i)
            if "same_as" in plan["members"][i]:
                continue
            upd[live[i]] = tuple(vals) if len(vals) > 1 else vals[0]
            plan["members"][i]["desc"] = {**plan["members"][i]["desc"]}
        try:
            c.set_parameters(upd)
            # current descriptors after the update
            ms = [dict(m) for m in plan["members"]]
            for i, vals in plan["update"].items():
                if "desc" in ms[int(i)]:
                    ms[int(i)]["desc"] = {**ms[int(i)]["desc"], "params": list(vals)}
            descs[:] = [ms[m["same_as"]]["desc"] if "same_as" in m else m["desc"] for m in ms]
            stage("after set_parameters")
            run.case([tag, "updated"])
        except Exception as e:  # noqa: BLE001
            bad("circuit_decompose:update_raises", f"set_parameters on the circuit raises {type(e).__name__}: {e}")
    return found


def report(run, found, seen=None):
    seen = set() if seen is None else seen
    for key, what, extra in found:
        if key in seen:
            continue
        seen.add(key)
        run.refuted.append(key)
        run.find(key, what, extra)


def circuit_stream(run, rng, cb_sound, free_ok):
    cat = _cat()
    ok = True
    plans = [(f"special{i}", p) for i, p in enumerate(special_plans())]
    count = 36 if run.tier == "quick" else 300
    for i in range(count):
        plans.append((f"random{i}", gen_plan(rng, with_free=(i % 2 == 1), cat=cat, cb_sound=cb_sound, free_ok=free_ok)))
    nm = 0
    seen = set()        # one finding per key: the first (smallest, deterministic corpus first) plan that shows it
    for tag, plan in plans:
        found = run_plan(run, plan, tag)
        nm += len(plan["members"])
        if found:
            ok = False
            report(run, found, seen)
    run.notes["circuit_decompose_stream"] = {"plans": len(plans), "members": nm}
    run.oblige("circuit_decompose_is_flat_map_of_fresh_gate_decompositions", ok, "correspondence")
    run.sample({"circuit_plan": plans[-1][1]})


# ------------------------------------------------------------------ stream D: wrappers that feed decompose
def wrapper_combinations(run, rng, theta=None):
    """rarely combined features: a measurement in a non-Z basis, a fused circuit, an inverted circuit, a copied
    circuit -- decompose() of each must keep the operator (and the measured basis)."""
    from qibo import Circuit, gates
    th = theta if theta is not None else round(rng.uniform(0.1, 1.4), 3)

    def base():
        c = Circuit(3)
        c.add(gates.H(0)); c.add(gates.CRY(0, 2, th)); c.add(gates.RXXYY(2, 1, th)); c.add(gates.CCZ(1, 2, 0)); c.add(gates.ECR(2, 0))
        return c
    U = np.asarray(base().unitary())
    for label, mk, ref in (("invert", lambda: base().invert(), U.conj().T), ("copy", lambda: base().copy(deep=True), U),
                           ("add", lambda: base() + base(), U @ U), ("fuse", lambda: base().fuse(), U),
                           ("fuse1", lambda: base().fuse(max_qubits=1), U)):
        run.case(["wrapper", label])
        try:
            dist = qtrace.phase_distance(np.asarray(mk().decompose().unitary()), ref)
        except Exception as e:  # noqa: BLE001
            run.find(f"circuit_decompose:wrapper:{label}:raises", f"{label}-ed circuit: decompose() raises {type(e).__name__}: {e}", {"theta": th})
            continue
        if dist > TOL:
            run.refuted.append(f"circuit_decompose_{label}")
            run.find(f"circuit_decompose:wrapper:{label}", f"c = H(0) CRY(0,2,{th}) RXXYY(2,1,{th}) CCZ(1,2,0) ECR(2,0); c.{label}(...).decompose() is at distance "
                     f"{dist:.3g} (up to phase) from the operator of c.{label}(...)", {"theta": th, "distance": dist})
    # measurement bases
    for basis in ("X", "Y", "Z"):
        run.case(["wrapper", "measure", basis])
        c = Circuit(2)
        c.add(gates.RY(0, th)); c.add(gates.CRY(0, 1, th)); c.add(gates.M(0, 1, basis=getattr(gates, basis)))
        d = c.decompose()
        a, b = [type(g).__name__ for g in c.queue], [type(g).__name__ for g in d.queue]
        dist = qtrace.phase_distance(unitary_of(d.queue, 2), unitary_of(c.queue, 2))
        nrot = lambda names: sum(1 for x in names[2:] if x not in ("M", "RY", "CNOT"))
        if dist > TOL:
            run.refuted.append(f"circuit_decompose_measure_{basis}")
            run.find(f"circuit_decompose:measurement_basis:{basis}",
                     f"c = RY(0,{th}) CRY(0,1,{th}) M(0,1,basis={basis}); c.decompose() applies {b} -- the basis rotations already in the queue are "
                     f"copied AND added again by the copied M gate, so the measured basis is not {basis} (pre-measurement operator at distance {dist:.3g})",
                     {"basis": basis, "theta": th, "queue": a, "decomposed_queue": b, "distance": dist})
