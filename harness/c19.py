"""C19  Noise attachment is faithful; both noisy simulation modes agree.

Static theorems: coq/theories/C19/{Model,Proofs,Traj,Props}.v (see Props.v).
Correspondence (exact, structural): random circuits x random noise models are built from a JSON
description; the real `NoiseModel.apply(circuit).queue` / `circuit.with_pauli_noise(map).queue` is
canonicalised to (class code, qubits, option tag) triples -- input gate objects by identity, created
channels by comparing their Kraus/unitary operators with a reference channel built by the channel
constructor -- and compared with the Coq model evaluated by vm_compute on the same input.
Every real output is ALSO checked directly against the property text (Coq `spec_apply`: original
gates in order, prescribed channels right after their trigger / right before the measurement for
readout errors; input circuit not mutated).  NoiseModel.apply was repaired in /repo; the harness
detects which variant is present (original / repaired / repaired with fresh M copies), evaluates the matching Coq model
(Model.apply / ModelFixed.apply2) and treats any return of the old defects (REPRO table) as a VIOLATION.
Further streams (harness/c19_extra.py): trajectory enumeration with exact-zero / sum-to-one probabilities, the sampled index ->
applied operator mapping spied per sampler call (Props.trajectory_branch_index, zero_probability_operators_irrelevant), deterministic
mixtures with the real sampler; histories add / apply / add / apply on ONE NoiseModel / IBMQNoiseModel object against a fresh model
with the accumulated rules (Props.noise_history_equals_fresh); with_pauli_noise called repeatedly on one circuit.
"""
STATIC = ["C19/Props"]
import ast
import hashlib
import itertools
import json
import random
import re

import numpy as np

from lib import vcore

HEADER = """From Coq Require Import List Bool Arith ZArith QArith.
From QV Require Import C19.Model C19.ModelFixed.
Import ListNotations.
Local Close Scope Q_scope.
Local Open Scope nat_scope.
"""

# ------------------------------------------------------------------ option tables (indices are the model's tags)
X_ = [[0, 1], [1, 0]]
Z_ = [[1, 0], [0, -1]]
Y_ = [[0, -1j], [1j, 0]]
I2 = [[1, 0], [0, 1]]


def _k(a, b):
    return np.kron(np.array(a, dtype=complex), np.array(b, dtype=complex))


def default_opts():
    s = 0.5 ** 0.5
    return {
        "pauli": [[("X", 0.125)], [("X", 0.0625), ("Z", 0.25)], [("Y", 0.5)], [("X", 0.0), ("Y", 0.0)],
                  [("Z", 0.03125), ("X", 0.0625), ("Y", 0.125)]],
        "depol": [0.0, 0.125, 0.25, 1.0],
        "thermal": [[1.0, 0.5, 0.25, 0.0], [1.0, 1.5, 0.25, 0.125], [2.0, 2.0, 0.5], [1.0, 0.75, 0.0, 0.5]],
        "amp": [0.0, 0.25, 1.0],
        "phase": [0.0, 0.375, 1.0],
        "reset": [[0.0, 0.0], [0.25, 0.125], [0.5, 0.5]],
        "readout": [[[0.875, 0.125], [0.25, 0.75]], [[1.0, 0.0], [0.0, 1.0]],
                    [[0.5, 0.25, 0.125, 0.125], [0.0, 1.0, 0.0, 0.0], [0.25, 0.25, 0.25, 0.25], [0.0, 0.0, 0.5, 0.5]]],
        "unitary1": [[(0.25, X_), (0.125, Z_)], [(0.0, X_)], [(0.5, Y_)]],
        "unitary2": [[(0.5, _k(X_, Z_).tolist())], [(0.125, _k(I2, X_).tolist()), (0.25, _k(Z_, Z_).tolist())]],
        "kraus1": [[[[1, 0], [0, s]], [[0, s], [0, 0]]], [I2]],
        "kraus2": [[(_k(I2, I2) * s).tolist(), (_k(X_, X_) * s).tolist()]],
    }


CODES = {"pauli": 1, "depol": 2, "thermal": 3, "amp": 4, "phase": 5, "reset": 6, "readout": 7, "unitary": 8, "kraus": 9}
CLS_OF = {"pauli": "PauliNoiseChannel", "depol": "DepolarizingChannel", "thermal": "ThermalRelaxationChannel",
          "amp": "AmplitudeDampingChannel", "phase": "PhaseDampingChannel", "reset": "ResetChannel",
          "readout": "ReadoutErrorChannel", "unitary": "UnitaryChannel", "kraus": "KrausChannel"}
COQ_ERR = {"pauli": "EPauli", "depol": "EDepol", "thermal": "EThermal", "amp": "EAmp", "phase": "EPhase",
           "reset": "EReset", "readout": "EReadout"}


def _mats(ops):
    return [np.array(m, dtype=complex) for m in ops]


def make_channel(opts, typ, qubits, i, k=None):
    """reference: the channel the rule prescribes, built by the channel constructor itself"""
    from qibo import gates
    qubits = tuple(int(q) for q in qubits)
    if typ == "pauli":
        return gates.PauliNoiseChannel(qubits[0], list(opts["pauli"][i]))
    if typ == "depol":
        return gates.DepolarizingChannel(qubits, opts["depol"][i])
    if typ == "thermal":
        return gates.ThermalRelaxationChannel(qubits[0], list(opts["thermal"][i]))
    if typ == "amp":
        return gates.AmplitudeDampingChannel(qubits[0], opts["amp"][i])
    if typ == "phase":
        return gates.PhaseDampingChannel(qubits[0], opts["phase"][i])
    if typ == "reset":
        return gates.ResetChannel(qubits[0], list(opts["reset"][i]))
    if typ == "readout":
        return gates.ReadoutErrorChannel(qubits, np.array(opts["readout"][i]))
    if typ == "unitary":
        k = k or len(qubits)
        return gates.UnitaryChannel(qubits, [(p, np.array(u, dtype=complex)) for p, u in opts[f"unitary{k}"][i]])
    if typ == "kraus":
        k = k or len(qubits)
        return gates.KrausChannel(qubits, _mats(opts[f"kraus{k}"][i]))
    raise ValueError(typ)


def make_error(opts, e, customs):
    from qibo import noise
    t = e[0]
    if t == "pauli":
        return noise.PauliError(list(opts["pauli"][e[1]]))
    if t == "depol":
        return noise.DepolarizingError(opts["depol"][e[1]])
    if t == "thermal":
        return noise.ThermalRelaxationError(*opts["thermal"][e[1]])
    if t == "amp":
        return noise.AmplitudeDampingError(opts["amp"][e[1]])
    if t == "phase":
        return noise.PhaseDampingError(opts["phase"][e[1]])
    if t == "reset":
        return noise.ResetError(*opts["reset"][e[1]])
    if t == "readout":
        return noise.ReadoutError(np.array(opts["readout"][e[1]]))
    if t == "unitary":
        ops = opts[f"unitary{e[1]}"][e[2]]
        return noise.UnitaryError([p for p, _ in ops], [np.array(u, dtype=complex) for _, u in ops])
    if t == "kraus":
        return noise.KrausError(_mats(opts[f"kraus{e[1]}"][e[2]]))
    if t == "custom":
        return noise.CustomError(customs[e[1]])
    raise ValueError(t)


_BACKEND = None


def backend():
    global _BACKEND
    if _BACKEND is None:
        from qibo.backends.numpy import NumpyBackend
        _BACKEND = NumpyBackend()
    return _BACKEND


def chan_qubits(ch):
    if type(ch).__name__ == "DepolarizingChannel":
        return tuple(ch.target_qubits)
    return tuple(ch.gates[0].qubits)


def sig(ch):
    b = backend()
    parts = []
    for g in ch.gates:
        m = np.asarray(g.matrix(b), dtype=complex)
        parts.append((tuple(g.qubits), m.shape, m.tobytes()))
    return (type(ch).__name__, tuple(ch.target_qubits), tuple(parts), tuple(float(c) for c in ch.coefficients))


# ------------------------------------------------------------------ conditions
def make_cond(c):
    from qibo.noise import _Conditions
    if c[0] == "qubits":
        return _Conditions(None if c[1] is None else tuple(c[1])).condition_qubits
    if c[0] == "single":
        return _Conditions().condition_gate_single
    if c[0] == "two":
        return _Conditions().condition_gate_two
    if c[0] == "param_gt":
        t = c[1]
        return lambda g: any(isinstance(p, (int, float)) and p > t for p in g.parameters)
    if c[0] == "first_even":
        return lambda g: len(g.qubits) > 0 and g.qubits[0] % 2 == 0
    if c[0] == "false":
        return lambda g: False
    raise ValueError(c)


# ------------------------------------------------------------------ building the real objects from a description
def make_gate(opts, d):
    from qibo import gates
    name = d[0]
    if name == "M":
        kw = dict(d[2])
        return gates.M(*d[1], register_name=kw.get("reg"), collapse=kw.get("collapse", False),
                       basis=getattr(gates, kw.get("basis", "Z")))
    if name == "chan":
        return make_channel(opts, d[1], d[2], d[3])
    cls = getattr(gates, name)
    return cls(*d[1], *(d[2] if len(d) > 2 else []))


def build_circuit(case):
    from qibo import Circuit
    opts = {**default_opts(), **(case.get("opts") or {})}
    c = Circuit(case["n"], density_matrix=case.get("dm", False))
    for d in case["gates"]:
        c.add(make_gate(opts, d))
    return c


def build_noise(case):
    from qibo import gates, noise
    opts = {**default_opts(), **(case.get("opts") or {})}
    customs = [make_channel(opts, d[0], d[1], d[2]) for d in case.get("customs", [])]
    if "ibmq" in case:
        nm = noise.IBMQNoiseModel()
        nm.from_dict(case["ibmq"])
        return nm, customs
    nm = noise.NoiseModel()
    for r in case["rules"]:
        key = None if r["key"] is None else getattr(gates, r["key"])
        q = r["qubits"]
        if isinstance(q, list):
            q = tuple(q)
        conds = r.get("conds")
        if conds is not None:
            conds = [make_cond(c) for c in conds]
            if r.get("single_callable") and len(conds) == 1:
                conds = conds[0]
        nm.add(make_error(opts, r["err"], customs), key, q, conds)
    return nm, customs


class Tags:
    def __init__(self):
        self.cls, self.reg = {}, {}

    def c(self, cls):
        return self.cls.setdefault(cls, len(self.cls))

    def r(self, name):
        return self.reg.setdefault(name, len(self.reg))


def kind_of(g):
    from qibo import gates
    if isinstance(g, gates.M):
        return "KM"
    if isinstance(g, gates.Channel):
        return "KC"
    return "KU"


def snapshot(c):
    def par(g):
        try:
            return tuple(float(p) for p in g.parameters)
        except Exception:
            return ()
    return ([id(g) for g in c.queue],
            [(type(g).__name__, tuple(g.qubits), par(g), getattr(g, "collapse", None), getattr(g, "register_name", None))
             for g in c.queue],
            [id(m) for m in c.measurements], c.has_collapse, c.has_unitary_channel, c.nqubits)


def canon_queue(opts, out_queue, inp, customs):
    """(code, qubits, tag) triples of the real output queue"""
    ids = {id(g): i for i, g in enumerate(inp)}
    cids = {id(g): i for i, g in enumerate(customs)}
    res = []
    for g in out_queue:
        if id(g) in ids:
            res.append((0, [ids[id(g)]], 0))
            continue
        if id(g) in cids:
            res.append((10, [cids[id(g)]], 0))
            continue
        if type(g).__name__ == "M":
            # a fresh copy of an input measurement (same qubits, register, basis) stands for that measurement
            sigm = lambda m: (tuple(m.target_qubits), m.register_name, tuple(m.init_kwargs.get("basis", [])))
            j = next((i for i, m in enumerate(inp) if type(m).__name__ == "M" and sigm(m) == sigm(g)), None)
            if j is not None:
                res.append((0, [j], 0))
                continue
        name = type(g).__name__
        typ = next((t for t, cn in CLS_OF.items() if cn == name), None)
        if typ is None:
            res.append((99, [int(q) for q in g.qubits], 0))
            continue
        qs = chan_qubits(g)
        tag = 999
        s = sig(g)
        if typ in ("unitary", "kraus"):
            table = opts.get(f"{typ}{len(qs)}", [])
        else:
            table = opts[typ]
        for i in range(len(table)):
            try:
                ref = make_channel(opts, typ, qs, i)
            except Exception:
                continue
            if sig(ref) == s:
                tag = i
                break
        res.append((CODES[typ], [int(q) for q in qs], tag))
    return res


def canon_model(opts, triples):
    """option tags of the model output -> first tag denoting the same channel (tables may hold equivalent entries)"""
    inv = {v: k for k, v in CODES.items()}
    out = []
    for code, qs, tag in triples:
        typ = inv.get(code)
        if typ is not None and qs:
            try:
                s = sig(make_channel(opts, typ, qs, tag))
                for i in range(tag):
                    try:
                        if sig(make_channel(opts, typ, qs, i)) == s:
                            tag = i
                            break
                    except Exception:
                        continue
            except Exception:
                pass
        out.append([code, list(qs), tag])
    return out


REJECTED = {}
VARIANT = {"fixed": False, "copy": False}


def detect_variant():
    """which NoiseModel.apply is in /repo: the original one (measurement re-added by a trailing block) or the
    repaired one (before/after lists, gate added once), with or without fresh copies of the M gates"""
    from qibo import Circuit, gates
    from qibo.noise import NoiseModel
    c = Circuit(1)
    c.add(gates.M(0))
    c.add(gates.H(0))
    c.add(gates.M(0))
    out = NoiseModel().apply(c)
    VARIANT["fixed"] = len(out.queue) == 3
    VARIANT["copy"] = not any(g is c.queue[0] for g in out.queue)
    return dict(VARIANT)


def run_apply(case):
    """run the real NoiseModel.apply; returns dict with the canonical output and the direct checks"""
    opts = {**default_opts(), **(case.get("opts") or {})}
    c = build_circuit(case)
    nm, customs = build_noise(case)
    inp = list(c.queue)
    before = snapshot(c)
    if VARIANT["copy"]:
        coll0 = [i for i, g in enumerate(inp) if type(g).__name__ == "M" and g.init_kwargs.get("collapse")]
    else:
        coll0 = [i for i, g in enumerate(inp) if getattr(g, "collapse", False)]
    res = {"circuit": c, "noise": nm, "customs": customs, "inp": inp, "coll0": coll0, "error": None}
    try:
        out = nm.apply(c)
    except KeyError as e:
        res["error"] = "KeyError"
        out = None
    except Exception as e:   # constructor validation etc.: outside the model
        res["error"] = f"rejected:{type(e).__name__}: {e}"
        REJECTED[res["error"][:90]] = REJECTED.get(res["error"][:90], 0) + 1
        out = None
    after = snapshot(c)
    res["mutated"] = None if before == after else _diff(before, after)
    if out is not None:
        q = list(out.queue)
        res["out"] = canon_queue(opts, q, inp, customs)
        res["skeleton"] = [x[1][0] for x in res["out"] if x[0] == 0] == list(range(len(inp)))
        if VARIANT["copy"]:
            res["coll_after"] = sorted({x[1][0] for x, g in zip(res["out"], q) if x[0] == 0 and getattr(g, "collapse", False)}
                                       | set(coll0))
        else:
            res["coll_after"] = sorted(i for i, g in enumerate(inp) if getattr(g, "collapse", False))
        res["meas_after"] = [x[1][0] for x in canon_queue(opts, list(out.measurements), inp, customs) if x[0] == 0]
        res["same_kwargs"] = (out.init_kwargs == c.init_kwargs and type(out) is type(c))
    return res


def _diff(a, b):
    out = []
    if a[0] != b[0]:
        out.append("queue objects changed")
    for i, (x, y) in enumerate(zip(a[1], b[1])):
        if x != y:
            out.append(f"gate {i}: {x} -> {y}")
    if a[2] != b[2]:
        out.append("circuit.measurements changed")
    if a[3:] != b[3:]:
        out.append(f"flags {a[3:]} -> {b[3:]}")
    return out


# ------------------------------------------------------------------ Coq text of a case
def nl(xs):
    xs = list(xs)
    return "[" + "; ".join(str(int(x)) for x in xs) + "]" if xs else "(@nil nat)"


def coq_gate(tags, uid, g):
    reg = tags.r(g.register_name) if kind_of(g) == "KM" else 0
    return f"(mkGate {uid} {tags.c(type(g))} {kind_of(g)} {nl(g.qubits)} {reg})"


def coq_cond(c, inp):
    if c[0] == "qubits":
        return f"(cond_qubits {'None' if c[1] is None else '(Some ' + nl(c[1]) + ')'})"
    if c[0] == "single":
        return "cond_single"
    if c[0] == "two":
        return "cond_two"
    f = make_cond(c)     # opaque predicate: tabulated on the input gates
    bs = "; ".join("true" if f(g) else "false" for g in inp) or "false"
    return f"(fun g => nth (g_uid g) [{bs}] false)"


def coq_err(e, customs, tags):
    t = e[0]
    if t in COQ_ERR:
        return f"({COQ_ERR[t]} {e[1]})"
    if t == "unitary":
        return f"(EUnitary {e[1]} {e[2]})"
    if t == "kraus":
        return f"(EKraus {e[1]} {e[2]})"
    ch = customs[e[1]]
    return f"(ECustom (mkGate {e[1]} {tags.c(type(ch))} KC {nl(ch.target_qubits)} 0))"


def coq_rules(case, inp, customs, tags):
    from qibo import gates
    rs = []
    for r in case["rules"]:
        key = "None" if r["key"] is None else f"(Some {tags.c(getattr(gates, r['key']))})"
        q = r["qubits"]
        if q is None:
            qs = "None"
        else:
            qs = f"(Some {nl([q] if isinstance(q, int) else q)})"
        conds = "[" + "; ".join(coq_cond(c, inp) for c in (r.get("conds") or [])) + "]"
        if conds == "[]":
            conds = "(@nil (gate -> bool))"
        rs.append(f"(mkRule {key} {conds} {coq_err(r['err'], customs, tags)} {qs})")
    return "[" + ";\n   ".join(rs) + "]" if rs else "(@nil rule)"


def coq_sd(v, keyf, tagf):
    if isinstance(v, dict):
        return "(Dict [" + "; ".join(f"({keyf(k)}, {tagf(k, x)})" for k, x in v.items()) + "])"
    return f"(Scalar {tagf(None, v)})"


def coq_ibmq(case, tags):
    """ibmq_rules term; option tags index the per-case tables built by gen_ibmq"""
    from qibo import gates
    p, T = case["ibmq"], case["ibmq_tags"]
    mcls = tags.c(gates.M)
    d1 = coq_sd(p["depolarizing_one_qubit"], lambda k: str(int(k)), lambda k, x: T["dep1"][str(k)])
    d2 = coq_sd(p["depolarizing_two_qubit"], lambda k: nl([int(a) for a in k.replace(" ", "").split("-")]),
                lambda k, x: T["dep2"][str(k)])
    if isinstance(p["t1"], dict):
        t12 = "(inr [" + "; ".join(f"({int(k)}, ({T['th'][str(k)][0]}, {T['th'][str(k)][1]}))" for k in p["t1"]) + "])"
    else:
        t12 = f"(inl ({T['th']['None'][0]}, {T['th']['None'][1]}))"
    ro = coq_sd(p["readout_one_qubit"], lambda k: str(int(k)), lambda k, x: T["ro"][str(k)])
    return f"(ibmq_rules {mcls} {d1} {d2} {t12} {ro})"


def parse_coq(v):
    s = v.replace(";", ",").replace("Some", "").replace("true", "True").replace("false", "False")
    s = re.sub(r"%\w+", "", s)
    return ast.literal_eval(s)


def tolist(x):
    if isinstance(x, tuple):
        return [tolist(e) for e in x]
    if isinstance(x, list):
        return [tolist(e) for e in x]
    return x


# ------------------------------------------------------------------ generators
GATE_POOL = ["H", "X", "RX", "CNOT", "CZ", "TOFFOLI", "SWAP", "RZZ"]
ARITY = {"H": 1, "X": 1, "RX": 1, "CNOT": 2, "CZ": 2, "TOFFOLI": 3, "SWAP": 2, "RZZ": 2}
PARAM = {"RX": 1, "RZZ": 1}
KEY_POOL = [None, None, "H", "X", "RX", "CNOT", "CZ", "TOFFOLI", "M", "M", "PauliNoiseChannel", "Y"]


def gen_circuit(rng, n, length, clean_meas=False, with_channels=True):
    gs, nm = [], 0
    measured = set()
    for _ in range(length):
        r = rng.random()
        if r < 0.18 and not clean_meas:
            k = rng.choice([1, 1, 2, min(3, n)])
            qs = rng.sample(range(n), min(k, n))
            kw = {"collapse": rng.random() < 0.2, "basis": "X" if rng.random() < 0.1 else "Z"}
            if rng.random() < 0.3:
                kw["reg"] = f"r{nm}"
            nm += 1
            gs.append(["M", qs, kw])
        elif r < 0.24 and with_channels:
            t = rng.choice(["pauli", "depol", "amp"])
            qs = rng.sample(range(n), 1 if t != "depol" else rng.choice([1, min(2, n)]))
            gs.append(["chan", t, qs, rng.randrange(3)])
        else:
            free = [q for q in range(n) if not (clean_meas and q in measured)]
            name = rng.choice([g for g in GATE_POOL if ARITY[g] <= len(free)] or ["H"])
            qs = rng.sample(free, ARITY[name])
            gs.append([name, qs] + ([[rng.choice([0.5, 1.5, 2.5])]] if name in PARAM else []))
    if clean_meas:
        # terminal measurements on disjoint qubits
        qs = list(range(n))
        rng.shuffle(qs)
        while qs and rng.random() < 0.8:
            k = rng.choice([1, 1, 2])
            take, qs = qs[:k], qs[k:]
            gs.append(["M", take, {"collapse": False, "basis": "Z"}])
    return gs


def gen_err(rng, ncustom):
    t = rng.choice(["pauli", "depol", "thermal", "amp", "phase", "reset", "unitary", "kraus", "custom", "pauli", "depol"])
    D = default_opts()
    if t in ("unitary", "kraus"):
        k = rng.choice([1, 1, 2])
        return [t, k, rng.randrange(len(D[f"{t}{k}"]))]
    if t == "custom":
        if ncustom == 0:
            return ["pauli", 0]
        return ["custom", rng.randrange(ncustom)]
    return [t, rng.randrange(len(D[t]))]


def gen_conds(rng, n):
    r = rng.random()
    if r < 0.45:
        return None, False
    pool = [["single"], ["two"], ["qubits", sorted(rng.sample(range(n), min(n, rng.choice([1, 2]))))],
            ["qubits", rng.sample(range(n), min(n, 2))], ["param_gt", 1.0], ["first_even"], ["false"], ["qubits", None]]
    k = rng.choice([1, 1, 2])
    cs = [rng.choice(pool) for _ in range(k)]
    return cs, (k == 1 and rng.random() < 0.5)


def gen_qubits(rng, n):
    r = rng.random()
    if r < 0.4:
        return None
    if r < 0.6:
        return rng.randrange(n)
    k = rng.choice([1, 2, 3])
    qs = [rng.randrange(n + 1) for _ in range(k)]     # may repeat, be unsorted, or name qubit n (absent)
    return qs


def gen_case(rng, mode):
    """mode: 'wild' (anything) | 'clean' (inputs in the class covered by the theorem)"""
    n = rng.randint(1, 6)
    case = {"n": n, "dm": rng.random() < 0.5, "mode": mode}
    case["gates"] = gen_circuit(rng, n, rng.randint(0, 9), clean_meas=(mode == "clean"), with_channels=True)
    ncustom = rng.choice([0, 1, 2])
    case["customs"] = []
    for _ in range(ncustom):
        t = rng.choice(["pauli", "depol", "amp", "readout"])
        qs = rng.sample(range(n), 1)
        case["customs"].append([t, qs, 0])
    rules = []
    for _ in range(rng.randint(0, 6)):
        key = rng.choice(KEY_POOL)
        conds, single = gen_conds(rng, n)
        q = gen_qubits(rng, n)
        if mode == "clean":
            if key == "M":
                # one single-qubit readout rule per measured qubit at most, 2x2 table on one qubit
                rules.append({"key": "M", "err": ["readout", rng.randrange(2)], "qubits": rng.randrange(n),
                              "conds": None})
                continue
            err = gen_err(rng, ncustom)
        else:
            rr = rng.random()
            if key == "M" and rr < 0.7:
                err = ["readout", rng.randrange(2)]
                if q is None and rng.random() < 0.7:
                    q = rng.randrange(n)
                if isinstance(q, list):
                    q = q[0] if rng.random() < 0.7 else q
            elif rr < 0.06:
                err = ["readout", rng.randrange(2)]
            else:
                err = gen_err(rng, ncustom)
        rules.append({"key": key, "err": err, "qubits": q, "conds": conds, "single_callable": single})
    case["rules"] = rules
    # Circuit.add(M) re-inserts a basis-rotation gate that is missing from the queue; that only happens after the
    # (known) defect 'readout rule on a non-measurement gate' has dropped it, and is outside the model: measurements
    # in the X basis are generated only when no readout rule can reach their H gates
    if any(r["err"][0] == "readout" and r["key"] in (None, "H") for r in rules):
        for g in case["gates"]:
            if g[0] == "M":
                g[2]["basis"] = "Z"
    return case


def gen_ibmq(rng):
    n = rng.randint(2, 5)
    case = {"n": n, "dm": True, "mode": "ibmq", "rules": [], "customs": []}
    gs = gen_circuit(rng, n, rng.randint(2, 8), clean_meas=True, with_channels=False)
    if rng.random() < 0.5:     # a joint measurement of several qubits, as in the class docstring
        gs = [g for g in gs if g[0] != "M"] + [["M", sorted(rng.sample(range(n), rng.randint(1, n))), {"collapse": False}]]
    case["gates"] = gs
    opts = default_opts()
    for k in ("depol", "thermal", "readout"):
        opts[k] = []
    T = {"dep1": {}, "dep2": {}, "th": {}, "ro": {}}

    def tag(tab, v):
        if v not in opts[tab]:
            opts[tab].append(v)
        return opts[tab].index(v)
    p = {}
    times = (0.125, 0.25)
    exc = rng.choice([0, 0.125])
    p["gate_times"], p["excited_population"] = list(times), exc
    some = lambda: [str(q) for q in range(n) if rng.random() < 0.6]
    if rng.random() < 0.5:
        v = rng.choice([0.125, 0.25, 0])
        p["depolarizing_one_qubit"] = v
        T["dep1"]["None"] = tag("depol", v)
    else:
        p["depolarizing_one_qubit"] = {q: rng.choice([0.125, 0.25]) for q in some()}
        for q, v in p["depolarizing_one_qubit"].items():
            T["dep1"][q] = tag("depol", v)
    if rng.random() < 0.5:
        v = rng.choice([0.125, 0.5])
        p["depolarizing_two_qubit"] = v
        T["dep2"]["None"] = tag("depol", v)
    else:
        d = {}
        for _ in range(rng.randint(0, 3)):
            a, b = rng.sample(range(n), 2)
            d[f"{a}-{b}" if rng.random() < 0.7 else f"{a} - {b}"] = rng.choice([0.125, 0.5])
        p["depolarizing_two_qubit"] = d
        for q, v in d.items():
            T["dep2"][q] = tag("depol", v)
    if rng.random() < 0.5:
        p["t1"], p["t2"] = 1.0, rng.choice([0.5, 1.5])
        T["th"]["None"] = (tag("thermal", [p["t1"], p["t2"], times[0], exc]), tag("thermal", [p["t1"], p["t2"], times[1], exc]))
    else:
        ks = some()
        p["t1"] = {q: rng.choice([1.0, 2.0]) for q in ks}
        p["t2"] = {q: rng.choice([0.5, 1.0]) for q in ks}
        for q in ks:
            T["th"][q] = (tag("thermal", [p["t1"][q], p["t2"][q], times[0], exc]),
                          tag("thermal", [p["t1"][q], p["t2"][q], times[1], exc]))

    def P(a, b):
        return [[1 - a, a], [b, 1 - b]]
    if rng.random() < 0.4:
        v = rng.choice([0.125, 0])
        p["readout_one_qubit"] = v
        T["ro"]["None"] = tag("readout", P(v, v))
    else:
        d = {}
        for q in some():
            d[q] = rng.choice([(0.125, 0.25), 0.125, [0.0625], [0.25, 0.5]])
        p["readout_one_qubit"] = {q: (list(v) if isinstance(v, (tuple, list)) else v) for q, v in d.items()}
        for q, v in d.items():
            if isinstance(v, (int, float)):
                a = b = v
            elif len(v) == 1:
                a = b = v[0]
            else:
                a, b = v
            T["ro"][q] = tag("readout", P(a, b))
    case["ibmq"], case["ibmq_tags"] = p, T
    case["opts"] = {k: opts[k] for k in ("depol", "thermal", "readout")}
    return case


# ------------------------------------------------------------------ fixed reproducers of the known defect classes
RO = ["readout", 0]
REPRO = [
    # key, reason code, description, case
    ("apply:two-readout-rules:M(0,1)", 4,
     "two ReadoutError rules (one per qubit, as IBMQNoiseModel.from_dict builds them) match one M(0,1): apply emits "
     "RE(0), M, RE(1), M, M -- the measurement three times -- and flips collapse=True on the M object shared with the input circuit",
     {"n": 2, "gates": [["H", [0]], ["M", [0, 1], {}]], "customs": [],
      "rules": [{"key": "M", "err": RO, "qubits": 0, "conds": None}, {"key": "M", "err": RO, "qubits": 1, "conds": None}]}),
    ("apply:collapse-measurement:empty-model", 2,
     "a collapsing (mid-circuit) measurement is emitted twice by NoiseModel.apply even for the EMPTY noise model: "
     "[M(0), H(0), M(0)] -> [M(0), M(0), H(0), M(0)]",
     {"n": 1, "gates": [["M", [0], {}], ["H", [0]], ["M", [0], {}]], "customs": [], "rules": []}),
    ("apply:noise-after-measurement:PauliError-on-M", 3,
     "a non-readout error keyed on gates.M: apply emits M, channel, M (measurement duplicated) and flips collapse=True "
     "on the M object shared with the input circuit",
     {"n": 1, "gates": [["H", [0]], ["M", [0], {}]], "customs": [],
      "rules": [{"key": "M", "err": ["pauli", 0], "qubits": None, "conds": None}]}),
    ("apply:readout-rule-not-firing:M(0)", 5,
     "a ReadoutError rule for exactly the measured qubits whose condition is false: the measurement is dropped from the noisy circuit",
     {"n": 1, "gates": [["H", [0]], ["M", [0], {}]], "customs": [],
      "rules": [{"key": "M", "err": RO, "qubits": 0, "conds": [["false"]]}]}),
    ("apply:readout-rule-on-gate:H(0)", 1,
     "a ReadoutError keyed on None / a non-measurement class: the channel is placed BEFORE the trigger gate, and the gate is "
     "dropped altogether when the rule's condition is false",
     {"n": 1, "gates": [["H", [0]], ["X", [0]], ["M", [0], {}]], "customs": [],
      "rules": [{"key": "H", "err": RO, "qubits": None, "conds": [["false"]]},
                {"key": "X", "err": RO, "qubits": None, "conds": None}]}),
    ("apply:input-mutated:readout-before-second-measurement", 7,
     "two final measurements of the same qubit + readout noise: the channel inserted before the second M flips collapse=True "
     "on the first M object, which is shared with the input circuit",
     {"n": 1, "gates": [["M", [0], {}], ["M", [0], {}]], "customs": [],
      "rules": [{"key": "M", "err": RO, "qubits": None, "conds": None}]}),
    ("apply:input-mutated:custom-channel-on-measured-qubit", 6,
     "a CustomError channel acting on an already measured qubit flips collapse=True on the M object shared with the input circuit",
     {"n": 2, "gates": [["M", [0], {}], ["H", [1]]], "customs": [["pauli", [0], 0]],
      "rules": [{"key": "H", "err": ["custom", 0], "qubits": None, "conds": None}]}),
]


# ------------------------------------------------------------------ evaluation of cases
def eval_cases(run, cases, fname):
    """run real apply + Coq model on every case; returns list of per-case result dicts"""
    out = []
    for lo in range(0, len(cases), 250):
        chunk = cases[lo:lo + 250]
        defs, exprs, reals = [], [], []
        for j, case in enumerate(chunk):
            tags = Tags()
            real = run_apply(case)
            inp, customs = real["inp"], real["customs"]
            gl = "[" + ";\n   ".join(coq_gate(tags, i, g) for i, g in enumerate(inp)) + "]" if inp else "(@nil gate)"
            rl = coq_ibmq(case, tags) if "ibmq" in case else coq_rules(case, inp, customs, tags)
            defs.append(f"Definition c{j} : list gate := {gl}.\nDefinition r{j} : list rule := {rl}.\n"
                        f"Definition k{j} : list nat := {nl(real['coll0'])}.\n")
            fn = "apply2_st" if VARIANT["fixed"] else "apply_st"
            exprs.append(f"(show_st ({fn} r{j} k{j} c{j}), clean r{j} k{j} c{j}, diagnose r{j} k{j} c{j}, "
                         f"map item_code (spec_apply r{j} c{j}))")
            reals.append(real)
        vals = run.coq_eval(f"{fname}_{lo // 250}.v", HEADER + "\n".join(defs), exprs, timeout=900)
        if vals is None:
            run.find(f"coq:{fname}", "generated correspondence file does not compile", {}, concrete=False)
            return None
        for case, real, v in zip(chunk, reals, vals):
            st, clean, diag, spec = parse_coq(v)
            opts = {**default_opts(), **(case.get("opts") or {})}
            model = None
            if st is not None:
                model = [canon_model(opts, st[0]), list(st[1]), list(st[2])]
            out.append({"case": case, "real": real, "model": model,
                        "clean": clean, "diag": list(diag), "spec": canon_model(opts, spec)})
    return out


def strip(case):
    return case


def judge(run, results, explained, label):
    """compare model vs implementation (exact) and implementation vs property text"""
    stats = {"cases": 0, "clean": 0, "rejected": 0, "keyerror": 0, "violating_explained": 0, "with_channels": 0}
    for r in results:
        case, real = r["case"], r["real"]
        h = hashlib.sha1(json.dumps(strip(case), sort_keys=True, default=str).encode()).hexdigest()[:10]
        if real["error"] and real["error"].startswith("rejected"):
            stats["rejected"] += 1
            continue
        stats["cases"] += 1
        nontriv = bool(case.get("rules") or case.get("ibmq")) and bool(case["gates"])
        run.case([label, strip(case)], nontrivial=nontriv)
        # ---- model vs implementation
        if real["error"] == "KeyError":
            stats["keyerror"] += 1
            agree = r["model"] is None
        else:
            agree = (r["model"] is not None and tolist(real["out"]) == r["model"][0]
                     and sorted(set(r["model"][2])) == real["coll_after"] and r["model"][1] == real["meas_after"])
        if not agree:
            run.find(f"corr:{label}:{h}", "Coq model of NoiseModel.apply and the implementation disagree",
                     {"case": strip(case), "model": r["model"], "real": real.get("out"), "error": real["error"],
                      "coll_after": real.get("coll_after"), "meas_after": real.get("meas_after")}, concrete=False)
        if real["error"]:
            ok = False
            why = ["apply raised KeyError"]
        else:
            why = []
            if not real["skeleton"]:
                why.append("original gates not preserved (dropped / duplicated / reordered)")
            if tolist(real["out"]) != r["spec"]:
                why.append("channels differ from the prescribed ones / wrong position")
            if real["mutated"]:
                why.append("input circuit mutated: " + "; ".join(real["mutated"])[:300])
            if not real["same_kwargs"]:
                why.append("circuit class / init_kwargs changed")
            ok = not why
        if any(x[0] != 0 for x in (real.get("out") or [])):
            stats["with_channels"] += 1
        if r["clean"]:
            stats["clean"] += 1
        if ok:
            continue
        reasons = set(r["diag"])
        if VARIANT["fixed"]:
            # repaired apply: the text of the property must hold on EVERY input; with shared M objects only the
            # mutation of the input (collapse flag) is still attributable to the known classes 3 / 6 / 7
            only_mutation = all(w.startswith("input circuit mutated") for w in why)
            reasons = (reasons & {3, 6, 7}) if (only_mutation and not VARIANT["copy"]) else set()
        if (r["clean"] and not VARIANT["fixed"]) or not reasons or not reasons <= explained:
            run.find(f"apply:unexplained:{h}", "NoiseModel.apply violates the property on an input outside the known defect classes: "
                     + "; ".join(why), {"case": strip(case), "real": real.get("out"), "expected": r["spec"],
                                        "reasons": sorted(reasons), "clean": r["clean"]})
        else:
            stats["violating_explained"] += 1
    return stats


def run_reproducers(run):
    """fixed minimal inputs of the known defect classes; returns the set of reason codes that still reproduce"""
    cases = [dict(c, mode="repro") for _, _, _, c in REPRO]
    results = eval_cases(run, cases, "C19_repro")
    explained = set()
    if results is None:
        return explained
    for (key, code, what, _), r in zip(REPRO, results):
        real = r["real"]
        agree = (real["error"] is None and r["model"] is not None and tolist(real["out"]) == r["model"][0]
                 and sorted(set(r["model"][2])) == real["coll_after"])
        if not agree:
            run.find(f"corr:repro:{key}", "Coq model and implementation disagree on a fixed reproducer",
                     {"case": r["case"], "model": r["model"], "real": real.get("out")}, concrete=False)
        bad = (real["error"] is not None or not real["skeleton"] or tolist(real["out"]) != r["spec"] or real["mutated"])
        run.case(["repro", key])
        if bad:
            explained.add(code)
            run.find(key, what, {"case": r["case"], "real": real.get("out"), "expected": r["spec"],
                                 "mutated": real["mutated"], "error": real["error"]})
            run.sample({"known_defect": key, "real_queue": real.get("out"), "prescribed": r["spec"], "input_mutated": real["mutated"]})
    return explained


# ------------------------------------------------------------------ with_pauli_noise
def gen_pauli_case(rng):
    n = rng.randint(1, 5)
    gs = gen_circuit(rng, n, rng.randint(0, 8), clean_meas=False, with_channels=(rng.random() < 0.15))
    rows = lambda: rng.choice([[["X", 1, 8]], [["X", 1, 16], ["Z", 1, 4]], [["Y", 0, 1], ["Z", 0, 1]], [["Y", 1, 2]], []])
    r = rng.random()
    if r < 0.35:
        nm = ["list", rows()]
    else:
        keys = list(range(n))
        if rng.random() < 0.3 and n > 1:
            keys[rng.randrange(n)] = n + rng.randrange(3)       # a key that is not a qubit: that qubit gets no noise
        if rng.random() < 0.15:
            keys = keys[:-1] if rng.random() < 0.5 else keys + [n + 5]   # wrong size: ValueError
        rng.shuffle(keys)
        nm = ["dict", [[k, rows()] for k in keys]]
    return {"n": n, "gates": gs, "map": nm, "dm": rng.random() < 0.5}


def pauli_rows(rows):
    return [(p, a / b) for p, a, b in rows]


def run_pauli(case):
    c = build_circuit(case)
    inp = list(c.queue)
    kind, m = case["map"]
    nm = pauli_rows(m) if kind == "list" else {k: pauli_rows(rows) for k, rows in m}
    before = snapshot(c)
    res = {"inp": inp, "error": None}
    try:
        out = c.with_pauli_noise(nm)
    except ValueError:
        res["error"] = "ValueError"
        out = None
    except Exception as e:
        res["error"] = f"raised {type(e).__name__}: {e}"
        out = None
    res["mutated"] = None if snapshot(c) == before else _diff(before, snapshot(c))
    if out is not None:
        ids = {id(g): i for i, g in enumerate(inp)}
        q = []
        for g in out.queue:
            if id(g) in ids:
                q.append((0, [ids[id(g)]], 0))
            elif type(g).__name__ == "PauliNoiseChannel":
                q.append((1, [int(x) for x in g.target_qubits], tuple(sorted((k, float(v)) for k, v in g.init_kwargs.items()))))
            else:
                q.append((99, [], 0))
        res["out"] = q
        res["skeleton"] = [id(g) for g in out.queue if id(g) in ids] == [id(g) for g in inp]
    return res


def pauli_cases(run, rng, count):
    cases = [gen_pauli_case(rng) for _ in range(count)]
    stats = {"cases": 0, "rejected": 0, "with_noise": 0}
    for lo in range(0, len(cases), 250):
        chunk = cases[lo:lo + 250]
        defs, exprs, reals, tabs = [], [], [], []
        for j, case in enumerate(chunk):
            tags = Tags()
            real = run_pauli(case)
            inp = real["inp"]
            rowtab = []

            def prow(rows):
                rowtab.append(tuple(sorted((p, a / b) for p, a, b in rows)))
                return f"({len(rowtab) - 1}, [" + "; ".join(f"(Qmake {a} {b})" for _, a, b in rows) + "])"
            kind, m = case["map"]
            mm = f"(inl {prow(m)})" if kind == "list" else "(inr [" + "; ".join(f"({k}, {prow(rows)})" for k, rows in m) + "])"
            gl = "[" + "; ".join(coq_gate(tags, i, g) for i, g in enumerate(inp)) + "]" if inp else "(@nil gate)"
            defs.append(f"Definition c{j} : list gate := {gl}.\n")
            exprs.append(f"(show (with_pauli_noise {case['n']} {mm} c{j}))")
            reals.append(real)
            tabs.append(rowtab)
        vals = run.coq_eval(f"C19_pauli_{lo // 250}.v", HEADER + "\n".join(defs), exprs, timeout=600)
        if vals is None:
            run.find("coq:C19_pauli", "generated correspondence file does not compile", {}, concrete=False)
            return stats
        for case, real, v, rowtab in zip(chunk, reals, vals, tabs):
            model = parse_coq(v)
            h = hashlib.sha1(json.dumps(case, sort_keys=True).encode()).hexdigest()[:10]
            stats["cases"] += 1
            run.case(["pauli", case], nontrivial=bool(case["gates"]))
            if real["error"] and real["error"] != "ValueError":
                agree = False
                run.find(f"pauli:raises:{h}", "with_pauli_noise " + real["error"], {"case": case})
            elif real["error"]:
                stats["rejected"] += 1
                agree = model is None
            else:
                m2 = None if model is None else [(c_, list(q), (rowtab[t] if c_ == 1 else 0)) for c_, q, t in model]
                agree = m2 is not None and m2 == [(c_, list(q), t) for c_, q, t in real["out"]]
                if any(x[0] == 1 for x in real["out"]):
                    stats["with_noise"] += 1
                # direct check against the property text
                why = []
                if not real["skeleton"]:
                    why.append("original gates not preserved")
                if real["mutated"]:
                    why.append("input circuit mutated")
                why += pauli_text_check(case, real)
                if why:
                    run.find(f"pauli:{h}", "with_pauli_noise violates the property: " + "; ".join(why),
                             {"case": case, "real": [list(x[:2]) for x in real["out"]]})
            if not agree:
                run.find(f"corr:pauli:{h}", "Coq model of with_pauli_noise and the implementation disagree",
                         {"case": case, "model": str(model), "real": str(real.get("out")), "error": real["error"]}, concrete=False)
    return stats


def pauli_text_check(case, real):
    """each PauliNoiseChannel directly follows (a run of channels after) its trigger, acts on one of the trigger's
    qubits, carries that qubit's rows; qubits with zero total probability / no entry / measurements get none"""
    kind, m = case["map"]
    lookup = (lambda q: m) if kind == "list" else (lambda q: dict((k, r) for k, r in m).get(q))
    why, cur, seen = [], None, None
    inp = real["inp"]
    for code, qs, tag in real["out"]:
        if code == 0:
            if cur is not None:
                why += _pauli_missing(cur, seen, lookup, inp)
            cur, seen = qs[0], []
        elif code == 1:
            g = inp[cur] if cur is not None else None
            if g is None or qs[0] not in g.qubits or kind_of(g) == "KM":
                why.append(f"channel on {qs} not after a gate acting on it")
                continue
            rows = lookup(qs[0])
            if rows is None or tuple(sorted((p, a / b) for p, a, b in rows)) != tag or sum(a / b for _, a, b in rows) <= 0:
                why.append(f"channel on {qs} not prescribed by the map")
            seen.append(qs[0])
    if cur is not None:
        why += _pauli_missing(cur, seen, lookup, inp)
    return why


def _pauli_missing(cur, seen, lookup, inp):
    g = inp[cur]
    if kind_of(g) == "KM":
        return []
    want = [q for q in g.qubits if lookup(q) is not None and sum(a / b for _, a, b in lookup(q)) > 0]
    return [] if list(want) == list(seen) else [f"after gate {cur}: channels on {seen}, prescribed {want}"]


# ------------------------------------------------------------------ trajectories vs density matrix (finite expectation; test level)
TRAJ_ARITY = {"H": 1, "S": 1, "RX": 1, "RY": 1, "CNOT": 2, "CZ": 2}
TRAJ_PARAM = ("RX", "RY")


def traj_build(case, dm):
    from qibo import Circuit
    opts = default_opts()
    c = Circuit(case["n"], density_matrix=dm)
    for d in case["gates"]:
        c.add(make_channel(opts, d[1], d[2], d[3], k=1) if d[0] == "chan" else make_gate(opts, d))
    return c


def traj_case(case):
    """sum over ALL draw sequences of prob*|psi><psi| from the real state-vector path (sample_shots replaced by an
    oracle stream) versus the real density-matrix execution; returns (max abs diff, total probability)"""
    from qibo import gates
    from qibo.backends.numpy import NumpyBackend
    n = case["n"]
    chans = [g for g in traj_build(case, False).queue if isinstance(g, gates.UnitaryChannel)]
    sizes = [len(ch.gates) + 1 for ch in chans]
    rho = np.zeros((2 ** n, 2 ** n), dtype=complex)
    total = 0.0
    for draws in itertools.product(*[range(s) for s in sizes]):
        b = NumpyBackend()
        stream = list(draws)
        probs_seen = []

        def fake(probabilities, nshots, _s=stream, _p=probs_seen):
            i = _s.pop(0)
            _p.append(float(probabilities[i]))
            return [i]
        b.sample_shots = fake
        state = b.zero_state(n)
        for g in traj_build(case, False).queue:
            state = g.apply(b, state, n)
        p = float(np.prod(probs_seen)) if probs_seen else 1.0
        state = np.asarray(state)
        rho += p * np.outer(state, state.conj())
        total += p
    ref = np.asarray(NumpyBackend().execute_circuit(traj_build(case, True)).state())
    return float(np.abs(rho - ref).max()), total


def trajectory_test(run, rng, count):
    """exact trajectory average vs density-matrix execution on circuits with complex coherences (H, S, RX, RY, CNOT,
    CZ), Pauli / unitary-mixture / DEPOLARIZING channels on strict subsets of the qubits (spectators); tolerance
    1e-12 ('test').  Fixed cases first: depolarizing noise next to a spectator carrying complex coherences."""
    worst = 0.0
    fixed = [
        {"n": 2, "gates": [["RX", [0], [0.5]], ["H", [1]], ["chan", "depol", [1], 2], ["RX", [0], [1.5]]]},
        {"n": 2, "gates": [["H", [0]], ["S", [0]], ["chan", "depol", [1], 3], ["CNOT", [0, 1]]]},
        {"n": 3, "gates": [["H", [1]], ["S", [1]], ["RX", [0], [0.5]], ["chan", "depol", [0, 2], 1], ["CZ", [1, 2]]]},
        # a THREE-qubit depolarizing channel (63 Pauli terms + identity = 64 branches), non-ascending qubits
        {"n": 3, "gates": [["H", [0]], ["CNOT", [0, 1]], ["RX", [2], [0.5]], ["chan", "depol", [2, 0, 1], 2], ["S", [1]]]},
        {"n": 4, "gates": [["H", [3]], ["S", [3]], ["H", [1]], ["chan", "depol", [0, 1, 2], 3], ["CNOT", [3, 0]]]},
    ]
    cases = list(fixed)
    for t in range(count):
        n = rng.randint(1, 3)
        desc, branches = [], 1
        for _ in range(rng.randint(2, 7)):
            r = rng.random()
            if r < 0.45 and branches <= 64:
                kind = rng.choice(["pauli", "unitary", "depol", "depol"])
                if kind == "pauli":
                    i = rng.choice([0, 1, 2, 4])
                    desc.append(["chan", "pauli", [rng.randrange(n)], i])
                    branches *= len(default_opts()["pauli"][i]) + 1
                elif kind == "unitary":
                    i = rng.choice([0, 2])
                    desc.append(["chan", "unitary", [rng.randrange(n)], i])
                    branches *= len(default_opts()["unitary1"][i]) + 1
                else:
                    k = 2 if (n >= 2 and rng.random() < 0.25) else 1
                    desc.append(["chan", "depol", rng.sample(range(n), k), rng.choice([1, 2, 3])])
                    branches *= 4 ** k
            else:
                name = rng.choice([g for g in TRAJ_ARITY if TRAJ_ARITY[g] <= n])
                desc.append([name, rng.sample(range(n), TRAJ_ARITY[name])]
                            + ([[rng.choice([0.5, 1.5, 2.5])]] if name in TRAJ_PARAM else []))
        cases.append({"n": n, "gates": desc})
    for case in cases:
        d, total = traj_case(case)
        worst = max(worst, d, abs(total - 1.0))
        run.case(["trajectory", case])
        if d > 1e-12 or abs(total - 1) > 1e-12:
            run.find(f"trajectory:{hashlib.sha1(json.dumps(case).encode()).hexdigest()[:10]}",
                     "expectation over all trajectories differs from the density-matrix execution",
                     {"case": case, "max_abs_diff": d, "total_probability": total})
    return worst


# ------------------------------------------------------------------ density-matrix execution of NoiseModel.apply output vs Kraus sums
def embed_op(M, qs, n):
    """the 2^n x 2^n operator of the 2^k x 2^k matrix M acting on the qubits qs (in that order); harness-owned"""
    k = len(qs)
    M = np.asarray(M, dtype=complex).reshape((2,) * (2 * k))
    rest = [q for q in range(n) if q not in qs]
    full = np.tensordot(M, np.eye(2 ** (n - k), dtype=complex).reshape((2,) * (2 * (n - k))), 0)
    perm = []
    for q in range(n):
        perm.append(qs.index(q) if q in qs else 2 * k + rest.index(q))
    for q in range(n):
        perm.append(k + qs.index(q) if q in qs else 2 * k + (n - k) + rest.index(q))
    return full.transpose(perm).reshape(2 ** n, 2 ** n)


def reference_dm(queue, n):
    """rho after the queue, from the definition: gates rho -> U rho U^dag; unitary mixtures
    (1 - sum p) rho + sum p_k U_k rho U_k^dag; Kraus channels sum K rho K^dag -- every operator taken from the gate /
    channel object and embedded by embed_op (none of the backend's density-matrix fast paths is used)"""
    from qibo import gates
    b = backend()
    rho = np.zeros((2 ** n, 2 ** n), dtype=complex)
    rho[0, 0] = 1
    for g in queue:
        if isinstance(g, gates.M):
            continue
        if isinstance(g, gates.Channel):
            ops = [embed_op(np.asarray(k.matrix(b)), list(k.qubits), n) for k in g.gates]
            if isinstance(g, gates.UnitaryChannel):
                new = (1 - sum(g.coefficients)) * rho
                for p, U in zip(g.coefficients, ops):
                    new = new + p * (U @ rho @ U.conj().T)
            else:
                new = sum(K @ rho @ K.conj().T for K in ops)
            rho = new
        else:
            U = embed_op(np.asarray(g.matrix(b)), list(g.qubits), n)
            rho = U @ rho @ U.conj().T
    return rho


DM_ERRS = ["pauli", "depol", "depol", "depol", "amp", "phase", "reset", "unitary", "kraus"]


def dm_case_diff(case):
    from qibo.backends.numpy import NumpyBackend
    c = build_circuit(case)
    nm, _ = build_noise(case)
    noisy = nm.apply(c)
    got = np.asarray(NumpyBackend().execute_circuit(noisy).state())
    ref = reference_dm(list(noisy.queue), case["n"])
    return float(np.abs(got - ref).max()), [type(g).__name__ for g in noisy.queue]


def gen_dm_case(rng):
    n = rng.randint(2, 4)
    gs = []
    arity = dict(TRAJ_ARITY, TOFFOLI=3)
    for _ in range(rng.randint(3, 8)):
        name = rng.choice([g for g in arity if arity[g] <= n])
        gs.append([name, rng.sample(range(n), arity[name])] + ([[rng.choice([0.5, 1.5, 2.5])]] if name in TRAJ_PARAM else []))
    D = default_opts()
    rules = []
    for _ in range(rng.randint(1, 3)):
        t = rng.choice(DM_ERRS)
        if t in ("unitary", "kraus"):
            err = [t, 1, rng.randrange(len(D[f"{t}1"]))]
        elif t == "depol":
            err = [t, rng.choice([1, 2, 3])]
        else:
            err = [t, rng.randrange(len(D[t]))]
        key = rng.choice([None, "H", "S", "RX", "CNOT", "CZ", "TOFFOLI", "TOFFOLI"])
        q = rng.choice([None, rng.randrange(n), rng.randrange(n)])
        rules.append({"key": key, "err": err, "qubits": q, "conds": None})
    return {"n": n, "dm": True, "gates": gs, "customs": [], "rules": rules}


def dm_reference_test(run, rng, count):
    """the density-matrix execution of NoiseModel.apply(circuit) against the Kraus-sum / mixture definition of every
    inserted channel, on circuits with complex coherences and noise on strict subsets of the qubits ('test', 1e-12).
    ThermalRelaxationError is left to C04: for t_1 < t_2 its Kraus list and its density-matrix fast path disagree on
    the unchanged tree (a C04 finding), so it cannot serve as a reference here."""
    fixed = [{"n": 2, "dm": True, "customs": [], "gates": [["RX", [0], [0.5]], ["H", [1]], ["RX", [0], [1.5]]],
              "rules": [{"key": "H", "err": ["depol", 2], "qubits": None, "conds": None}]},
             # DepolarizingError on a three-qubit gate: the Pauli mixture (63 terms) against the closed-form DM path
             {"n": 4, "dm": True, "customs": [], "gates": [["H", [0]], ["S", [0]], ["H", [2]], ["RX", [3], [0.5]], ["TOFFOLI", [2, 0, 3]]],
              "rules": [{"key": "TOFFOLI", "err": ["depol", 2], "qubits": None, "conds": None}]},
             {"n": 3, "dm": True, "customs": [], "gates": [["H", [0]], ["S", [0]], ["H", [2]], ["CNOT", [2, 1]]],
              "rules": [{"key": "CNOT", "err": ["depol", 3], "qubits": None, "conds": None}]}]
    cases = fixed + [gen_dm_case(rng) for _ in range(count)]
    worst, kinds = 0.0, {}
    for case in cases:
        try:
            d, names = dm_case_diff(case)
        except Exception as e:
            run.find(f"dm:raises:{hashlib.sha1(json.dumps(case).encode()).hexdigest()[:10]}",
                     f"density-matrix execution of the noisy circuit raises {type(e).__name__}: {e}", {"case": case})
            continue
        for nme in names:
            if nme.endswith("Channel"):
                kinds[nme] = kinds.get(nme, 0) + 1
        worst = max(worst, d)
        run.case(["dm_reference", case])
        if d > 1e-12:
            run.find(f"dm:{hashlib.sha1(json.dumps(case).encode()).hexdigest()[:10]}",
                     "density-matrix execution of NoiseModel.apply(circuit) differs from the Kraus-sum definition of its channels",
                     {"case": case, "max_abs_diff": d, "queue": names})
    run.notes["dm_reference_channels"] = kinds
    return worst


# ------------------------------------------------------------------ DepolarizingChannel = the documented Pauli mixture
def depolarizing_mixture_check(run):
    """DepolarizingChannel(qubits, lam) on k = 1..4 qubits (non-ascending) must be the mixture the trajectory
    simulator samples: ALL 4^k - 1 non-identity Pauli strings, each with weight lam / 4^k (so that it equals
    (1 - lam) rho + lam Tr_q(rho) x I/2^k, the closed form of the density-matrix path)"""
    from qibo import gates
    P = {"I": np.eye(2), "X": np.array([[0, 1], [1, 0]]), "Y": np.array([[0, -1j], [1j, 0]]), "Z": np.diag([1, -1])}
    b = backend()
    for k, qs in ((1, (1,)), (2, (2, 0)), (3, (2, 0, 1)), (4, (3, 1, 0, 2))):
        lam = 0.25
        run.case(["depolarizing_mixture", k])
        try:
            ch = gates.DepolarizingChannel(qs, lam)
            strings = ["".join(t) for t in itertools.product("IXYZ", repeat=k)][1:]
            why = []
            if len(ch.gates) != 4 ** k - 1 or len(ch.coefficients) != 4 ** k - 1:
                why.append(f"{len(ch.gates)} terms instead of {4 ** k - 1}")
            if any(abs(float(c) - lam / 4 ** k) > 1e-15 for c in ch.coefficients):
                why.append(f"weights {sorted(set(float(c) for c in ch.coefficients))[:3]} instead of lam/4^k = {lam / 4 ** k}")
            if not why:
                n = max(qs) + 1
                have = [embed_op(np.asarray(g.matrix(b)), list(g.qubits), n) for g in ch.gates]
                used = set()
                for s_ in strings:
                    M = np.array([[1]])
                    for c in s_:
                        M = np.kron(M, P[c])
                    E = embed_op(M, list(qs), n)
                    j = next((j for j, H in enumerate(have) if j not in used and np.abs(H - E).max() < 1e-15), None)
                    if j is None:
                        why.append(f"the Pauli string {s_} on qubits {qs} is missing from the mixture")
                        break
                    used.add(j)
        except Exception as e:
            why = [f"raises {type(e).__name__}: {e}"]
        if why:
            run.find(f"depolarizing:mixture:k={k}", "DepolarizingChannel is not the documented mixture of all non-identity Pauli strings "
                     "with weight lam/4^k: " + "; ".join(why), {"qubits": list(qs), "lam": lam, "why": why})


# ------------------------------------------------------------------ IBMQ documented readout convention (test level)
def ibmq_readout_convention(run):
    """docstring of from_dict: dict values are (p(0|1), p(1|0)); ReadoutErrorChannel documents P[0][1] = p(1|0)."""
    from qibo import Circuit, gates
    from qibo.noise import IBMQNoiseModel
    a, b = 0.125, 0.25      # documented: p(0|1)=a, p(1|0)=b
    nm = IBMQNoiseModel()
    nm.from_dict({"t1": {}, "t2": {}, "gate_times": (0.1, 0.2), "excited_population": 0,
                  "depolarizing_one_qubit": {}, "depolarizing_two_qubit": {}, "readout_one_qubit": {"0": (a, b)}})
    c = Circuit(1, density_matrix=True)
    c.add(gates.M(0))
    noisy = nm.apply(c)
    ch = [g for g in noisy.queue if type(g).__name__ == "ReadoutErrorChannel"]
    if len(ch) != 1:
        return None
    # realised p(1|0): probability of reading 1 from |0><0|
    bk = backend()
    rho = np.zeros((2, 2), dtype=complex)
    rho[0, 0] = 1
    out = np.asarray(ch[0].apply_density_matrix(bk, rho, 1))
    p10 = float(out[1, 1].real)
    rho = np.zeros((2, 2), dtype=complex)
    rho[1, 1] = 1
    out = np.asarray(ch[0].apply_density_matrix(bk, rho, 1))
    p01 = float(out[0, 0].real)
    ok = abs(p01 - a) < 1e-12 and abs(p10 - b) < 1e-12
    run.case(["ibmq-readout-convention"])
    if not ok:
        run.find("ibmq:readout-tuple-order", "IBMQNoiseModel.from_dict documents readout_one_qubit values as (p(0|1), p(1|0)) but builds "
                 f"the channel with p(1|0)=first, p(0|1)=second: given ({a}, {b}) the realised p(0|1)={p01}, p(1|0)={p10}",
                 {"given": [a, b], "realised_p01": p01, "realised_p10": p10})
    return ok


def ibmq_scalar_readout(run):
    """from_dict documents a scalar readout_one_qubit as 'all qubits share the same readout error probabilities'"""
    from qibo import Circuit, gates
    from qibo.noise import IBMQNoiseModel
    nm = IBMQNoiseModel()
    nm.from_dict({"t1": {}, "t2": {}, "gate_times": (0.1, 0.2), "excited_population": 0,
                  "depolarizing_one_qubit": {}, "depolarizing_two_qubit": {}, "readout_one_qubit": 0.125})
    c = Circuit(2, density_matrix=True)
    c.add(gates.M(0, 1))
    run.case(["ibmq-scalar-readout"])
    try:
        out = nm.apply(c)
    except Exception as e:
        run.find("ibmq:scalar-readout:M(0,1)", "IBMQNoiseModel.from_dict with a scalar readout_one_qubit adds ReadoutError(2x2) for gates.M with "
                 f"qubits=None; apply on a circuit measuring two qubits with one M gate raises {type(e).__name__}: {e}",
                 {"readout_one_qubit": 0.125, "circuit": "M(0,1)", "error": f"{type(e).__name__}: {e}"})
        return False
    return [type(g).__name__ for g in out.queue] in (["ReadoutErrorChannel", "ReadoutErrorChannel", "M"], ["ReadoutErrorChannel", "M"])


RULE = ("random circuits (n<=6: H/X/RX/CNOT/CZ/TOFFOLI/SWAP/RZZ on random non-ascending qubits, measurements with "
        "1-3 qubits / custom registers / collapse / X basis, pre-existing channels) x random noise models (0-6 rules keyed by "
        "None or a gate class incl. M and channel classes, qubits None / int / tuples with repeats and absent qubits, conditions "
        "None / callable / list from noise._Conditions plus opaque predicates, all ten error types incl. zero strength); "
        "'clean' stream = inputs in the class of noise_apply_exact_partial; IBMQNoiseModel.from_dict dictionaries; "
        "with_pauli_noise maps (list / dict, wrong sizes, non-qubit keys, zero rows); nontrivial = at least one rule and one gate; "
        "trajectory enumeration with exact-zero probabilities at every position / probabilities summing to exactly one / single and "
        "repeated operators for Pauli, unitary, depolarizing (k<=3) mixtures, direct and inserted by with_pauli_noise / NoiseModel, the "
        "sampler forced through every draw and the applied gate spied (fixed corpus + random); deterministic mixtures with the real sampler; "
        "histories add*;apply;add;apply;... on ONE NoiseModel / IBMQNoiseModel object (late rules keyed None / seen / unseen classes, "
        "qubits, conditions, shared error objects, the same circuit object applied twice) against a fresh model with the accumulated rules")


def cap_findings(run, per_class=4):
    """at most `per_class` findings per key family (text before the last ':'), so a systematic break does not
    produce hundreds of VIOLATION lines"""
    orig, count = run.find, {}

    def find(key, what, replay=None, concrete=True):
        fam = key.rsplit(":", 1)[0] if re.search(r":[0-9a-f]{10}$", key) else key
        count[fam] = count.get(fam, 0) + 1
        if count[fam] <= per_class:
            orig(key, what, replay, concrete)
        else:
            run.notes["suppressed_duplicate_findings"] = {**run.notes.get("suppressed_duplicate_findings", {}), fam: count[fam] - per_class}
    run.find = find


def main(run):
    cap_findings(run)
    rng = random.Random(run.seed)
    thorough = run.tier == "thorough"
    run.trusted += ["Coq 8.16.1 kernel, vm_compute",
                    "harness canonicalisation of the real queue (object identity for input gates; created channels identified by "
                    "comparing operators/coefficients with a channel built by the qibo channel constructor for the prescribed parameters)",
                    "tuple(set & set) iterates ascending for qubit ids < 8 (CPython small-int sets); the model sorts"]
    run.assumptions += ["channel-constructor argument validation is outside the model (inputs the constructors reject are skipped and counted)",
                        "law of large numbers (finite-shot frequencies converge to the expectation) is cited, not proved",
                        "exact arithmetic in the expectation identity (Traj.v is over an abstract commutative ring / module)"]
    # static theorems
    names = vcore.props_theorems("C19/Props.v")
    ok, pa = vcore.static_assumptions("C19/Props")
    for nme in names:
        run.oblige(nme, ok and nme in pa, "theorem")
        if ok and "Closed under" not in pa.get(nme, ""):
            for m in re.finditer(r"([A-Za-z_][\w.]*) :", pa.get(nme, "")):
                run.axioms.add(m.group(1))
    run.notes["print_assumptions"] = pa
    run.notes["historical"] = ("theorems historical_old_apply_* are about the algorithm that was in qibo before the repair of NoiseModel.apply "
                               "(Model.apply): it was exact on `clean` inputs only and the full-strength statements were false of it")
    run.not_proved += [
        "noise_apply_exact / noise_apply_skeleton / noise_apply_no_keyerror hold at FULL strength for the repaired apply (ModelFixed.v); "
        "'the original gates' is read up to fresh, equivalent copies of the measurement gates (same qubits, register name, basis), which is "
        "what keeps the input circuit unmutated",
        "convergence of finite-shot frequencies (statistics): outside the proof; the finite expectation identity is proved (trajectory_expectation)",
        "non-unitary Kraus channels have no trajectory semantics in qibo (density matrix only): not part of trajectory_expectation",
    ]
    run.notes["noise_apply_variant"] = detect_variant()
    # fixed reproducers of the known defect classes
    explained = run_reproducers(run)
    run.notes["defect_classes_reproduced"] = sorted(explained)
    # random correspondence
    n_wild, n_clean, n_ibmq, n_pauli, n_traj = (2500, 1500, 400, 1500, 40) if thorough else (500, 300, 100, 400, 12)
    for label, gen, cnt in (("wild", lambda: gen_case(rng, "wild"), n_wild), ("clean", lambda: gen_case(rng, "clean"), n_clean),
                            ("ibmq", lambda: gen_ibmq(rng), n_ibmq)):
        cases = [gen() for _ in range(cnt)]
        results = eval_cases(run, cases, f"C19_{label}")
        if results is None:
            continue
        st = judge(run, results, explained, label)
        run.notes[f"stream_{label}"] = st
        for r in results[:2]:
            run.sample({"stream": label, "case": strip(r["case"]) if "ibmq" not in r["case"] else {"ibmq": r["case"]["ibmq"], "gates": r["case"]["gates"]},
                        "real_queue": r["real"].get("out"), "clean": r["clean"]})
        if label == "clean" and st["cases"] and st["clean"] < 0.5 * st["cases"]:
            run.find("generator:clean", "clean stream mostly outside the clean class", st, concrete=False)
    run.notes["rejected_by_constructors"] = REJECTED
    run.notes["stream_pauli"] = pauli_cases(run, rng, n_pauli)
    run.notes["trajectory_worst_abs_diff"] = trajectory_test(run, rng, n_traj)
    run.notes["dm_reference_worst_abs_diff"] = dm_reference_test(run, rng, 400 if thorough else 120)
    # exact zeros / sum-to-one probabilities in the mixtures (sampled index -> applied operator), histories on one model object
    from harness import c19_extra
    import time
    t0 = time.time()
    run.notes["trajectory_zero_probabilities"] = c19_extra.zero_prob_trajectories(run, random.Random(run.seed + 190), 150 if thorough else 30)
    t1 = time.time()
    run.notes["noise_history"] = c19_extra.noise_history(run, random.Random(run.seed + 191), *((250, 60) if thorough else (45, 10)))
    t2 = time.time()
    run.notes["pauli_noise_histories"] = c19_extra.pauli_histories(run, random.Random(run.seed + 192), 300 if thorough else 80)
    run.notes["extra_stream_seconds"] = [round(t1 - t0, 1), round(t2 - t1, 1), round(time.time() - t2, 1)]
    depolarizing_mixture_check(run)
    run.notes["ibmq_readout_doc_convention_ok"] = ibmq_readout_convention(run)
    run.notes["ibmq_scalar_readout_multiqubit_measurement_ok"] = ibmq_scalar_readout(run)
    return run.finish(rule=RULE)


def replay(run, data):
    rp = data.get("replay", {})
    key = data.get("key", "")
    if key.startswith("depolarizing:"):
        depolarizing_mixture_check(run)
        return run.finish(rule="replay of one recorded case")
    if key.startswith("trajectory:zero:") or key.startswith("trajectory:deterministic:"):
        from harness import c19_extra
        c19_extra.replay_zero(run, key, data.get("what", ""), rp)
        return run.finish(rule="replay of one recorded case")
    if key.startswith("history:"):
        from harness import c19_extra
        detect_variant()
        c19_extra.replay_history(run, key, data.get("what", ""), rp)
        return run.finish(rule="replay of one recorded case")
    if key.startswith("trajectory:"):
        d, total = traj_case(rp["case"])
        if d > 1e-12 or abs(total - 1) > 1e-12:
            run.find(key, data.get("what", ""), {"case": rp["case"], "max_abs_diff": d, "total_probability": total})
        return run.finish(rule="replay of one recorded case")
    if key.startswith("dm:"):
        try:
            d, names = dm_case_diff(rp["case"])
        except Exception as e:
            d, names = float("inf"), [f"{type(e).__name__}: {e}"]
        if d > 1e-12:
            run.find(key, data.get("what", ""), {"case": rp["case"], "max_abs_diff": d, "queue": names})
        return run.finish(rule="replay of one recorded case")
    if key.startswith("ibmq:"):
        ibmq_readout_convention(run)
        ibmq_scalar_readout(run)
        return run.finish(rule="replay of one recorded case")
    if key.startswith("pauli:") or key.startswith("corr:pauli"):
        real = run_pauli(rp["case"])
        why = ([] if real["error"] else pauli_text_check(rp["case"], real)) + (["input mutated"] if real["mutated"] else [])
        if real["error"] and real["error"] != "ValueError":
            why.append(real["error"])
        if why or (not real["error"] and not real["skeleton"]):
            run.find(key, data.get("what", "") + " | " + "; ".join(why), rp)
        return run.finish(rule="replay of one recorded case")
    case = rp.get("case")
    if case is None:
        return run.finish(rule="replay: nothing to re-execute")
    results = eval_cases(run, [case], "C19_replay")
    if results:
        r = results[0]
        real = r["real"]
        bad = (real["error"] is not None or not real["skeleton"] or tolist(real["out"]) != r["spec"] or real["mutated"])
        if bad:
            run.find(key, data.get("what", "replayed violation"), {"case": case, "real": real.get("out"), "expected": r["spec"],
                                                                  "mutated": real["mutated"]})
    return run.finish(rule="replay of one recorded case")
