"""C12  Clifford simulation agrees with state-vector simulation or refuses the circuit.

Static Coq development (coq/theories/C12):
  ModelFloat    bit-exact binary64 model (kernel primitive floats) of `_is_clifford_given_angle`
                and of the angle dispatch chains of the engine;
  ModelTableau  the tableau update rules as boolean functions of the row-local bits;
  ModelExec     `.clifford`, `controlled_by`, acceptance test, apply_gate_clifford argument passing;
  ModelMeasure  `_exponent/_rowsum/_determined_outcome/_random_outcome/M`: M_real (engine as written,
                proved equal to the Aaronson-Gottesman reference M_spec) and M_old (bit-exact model of
                the engine before repair e7dd78371, incl. its byte packing: recognises a regression);
  Pauli, Proofs*, Props   Pauli operators on amplitude functions, `rule_ok_<Gate>` for every rule
                (U P = P' U for every n, qubits, state), circuit-level stabiliser theorem, refuted
                statements with their witnesses.
Per run (this file):
  1. the rules are re-translated from /repo's `_clifford_operations.py` by a fail-closed `ast`
     translator and proved equal (all 8 / 32 inputs, all floats for the dispatch chains) to the
     static model the theorems are about;
  2. the float model is validated against CPython on thousands of floats (float.hex literals);
  3. the witnesses of the refuted statements are replayed on the real code;
  4. exact correspondences: flags/acceptance over the gate catalogue with controls, final tableaux
     of random circuits (bit for bit), measurement samples with the random draws fed as an oracle;
  5. tests against the state-vector backend (stabilisers stabilise the state vector; sampled
     outcomes have non-zero Born probability), stim engine, tableau -> circuit (AG04 / BM20).
"""
STATIC = ["C12/Props", "C12/PropsRecord"]

import ast
import math
import os
import random
import re

import numpy as np

from lib import vcore

ENGINE_SRC = os.path.join(vcore.REPO, "src", "qibo", "backends", "_clifford_operations.py")
TOL = 1e-9   # tolerance of the float comparisons that are labelled 'test'


# =====================================================================================
# 1. fail-closed translator  _clifford_operations.py -> Coq
# =====================================================================================
class TranslationError(Exception):
    pass


Q1 = ("q",)
Q2 = ("control_q", "target_q")


class Fn:
    def __init__(self, name, kind, theta):
        self.name, self.kind, self.theta = name, kind, theta
        self.total = True       # straight-line, or a dispatch chain with an else branch
        self.text = ""


def _fail(node, why):
    src = ast.unparse(node) if isinstance(node, ast.AST) else str(node)
    raise TranslationError(f"line {getattr(node, 'lineno', '?')}: {why}: {src}")


def float_lit(v):
    v = float(v)
    if v != v or math.isinf(v):
        raise TranslationError("non-finite float literal")
    h = v.hex()
    return f"(PrimFloat.opp {h[1:]}%float)" if h.startswith("-") else f"{h}%float"


class FloatExpr:
    """Python float expression over theta, np.pi and int constants -> Coq PrimFloat term.
    int constants are converted to float exactly as Python does when they meet a float operand."""

    def __init__(self):
        self.denominators = []

    def tr(self, e):
        if isinstance(e, ast.Constant) and type(e.value) is int:
            if not 0 <= e.value < 2 ** 53:
                _fail(e, "int constant outside [0, 2^53)")
            return f"{e.value}%float", True
        if isinstance(e, ast.Constant) and type(e.value) is float:
            return float_lit(e.value), False
        if isinstance(e, ast.Name) and e.id == "theta":
            return "theta", False
        if isinstance(e, ast.Attribute) and isinstance(e.value, ast.Name) and e.value.id == "np" and e.attr == "pi":
            return "f_pi", False
        if isinstance(e, ast.UnaryOp) and isinstance(e.op, ast.USub):
            t, isint = self.tr(e.operand)
            if isint:
                _fail(e, "negated int constant in a float expression")
            return f"(PrimFloat.opp {t})", False
        if isinstance(e, ast.BinOp):
            a, ia = self.tr(e.left)
            b, ib = self.tr(e.right)
            if ia and ib:
                _fail(e, "int (op) int arithmetic is outside the float fragment")
            ops = {ast.Add: "PrimFloat.add", ast.Sub: "PrimFloat.sub", ast.Mult: "PrimFloat.mul", ast.Div: "PrimFloat.div"}
            if type(e.op) in ops:
                if isinstance(e.op, ast.Div):
                    self.denominators.append(b)
                return f"({ops[type(e.op)]} {a} {b})", False
            if isinstance(e.op, ast.Mod):
                self.denominators.append(b)
                return f"(pymodT {a} {b})", False
        _fail(e, "unsupported float expression")

    def cond(self, test):
        if not (isinstance(test, ast.Compare) and len(test.ops) == 1 and isinstance(test.ops[0], ast.Eq)
                and isinstance(test.comparators[0], ast.Constant) and type(test.comparators[0].value) is int
                and test.comparators[0].value == 0):
            _fail(test, "unsupported dispatch condition (expected `<float expr> == 0`)")
        t, isint = self.tr(test.left)
        if isint:
            _fail(test, "constant condition")
        return f"(feq0 {t})"


class Body:
    """SSA execution of one straight-line block over the row-local columns.
    views (basic indexing) are re-read at the time of use; expressions are evaluated at once;
    fancy indexing on the right-hand side copies, so a fancy-to-fancy assignment is simultaneous."""

    def __init__(self, tr, fn):
        self.tr, self.fn = tr, fn
        self.qnames = Q1 if fn.kind == 1 else Q2
        self.cols = {"r": "r"}
        for q in self.qnames:
            self.cols[("x", q)] = f"x_{q}"
            self.cols[("z", q)] = f"z_{q}"
        self.names = {}       # python name -> ("view", key) | ("val", coqvar) | ("idx", key) | ("mat", 'x'|'z')
        self.lets = []
        self.n = 0
        self.returned = None

    def fresh(self, base):
        self.n += 1
        return f"{base}_{self.n}"

    def col_index(self, e):
        if isinstance(e, ast.Name):
            if e.id in self.qnames:
                return ("x", e.id)
            if e.id in self.names and self.names[e.id][0] == "idx":
                return self.names[e.id][1]
        if (isinstance(e, ast.UnaryOp) and isinstance(e.op, ast.USub) and isinstance(e.operand, ast.Constant)
                and type(e.operand.value) is int and e.operand.value == 1):
            return "r"
        if isinstance(e, ast.BinOp) and isinstance(e.op, ast.Add):
            l, r_ = e.left, e.right
            if isinstance(l, ast.Name) and l.id == "nqubits" and isinstance(r_, ast.Name) and r_.id in self.qnames:
                return ("z", r_.id)
            if isinstance(r_, ast.Name) and r_.id == "nqubits" and isinstance(l, ast.Name) and l.id in self.qnames:
                return ("z", l.id)
        _fail(e, "unsupported column index")

    @staticmethod
    def full_slice(s):
        return isinstance(s, ast.Slice) and s.lower is None and s.upper is None and s.step is None

    def designator(self, e):
        """python expression denoting local column(s): a key, a list of keys (fancy), or None"""
        if isinstance(e, ast.Name) and e.id in self.names and self.names[e.id][0] == "view":
            return self.names[e.id][1]
        if isinstance(e, ast.Subscript):
            base, sl = e.value, e.slice
            two = isinstance(sl, ast.Tuple) and len(sl.elts) == 2 and self.full_slice(sl.elts[0])
            if isinstance(base, ast.Name) and base.id == "symplectic_matrix" and two:
                j = sl.elts[1]
                if isinstance(j, ast.List):
                    return [self.col_index(x) for x in j.elts]
                return self.col_index(j)
            if isinstance(base, ast.Name) and base.id in self.names:
                kind = self.names[base.id]
                if kind[0] == "mat" and two:
                    j = sl.elts[1]
                    if isinstance(j, ast.Name) and j.id in self.qnames:
                        return (kind[1], j.id)
                    _fail(e, "unsupported index into the x/z block")
                if kind[0] == "view" and self.full_slice(sl):     # r[:]
                    return kind[1]
        return None

    def bexpr(self, e):
        d = self.designator(e)
        if d is not None:
            if isinstance(d, list):
                _fail(e, "fancy index inside an expression")
            return self.cols[d]
        if isinstance(e, ast.Name) and e.id in self.names and self.names[e.id][0] == "val":
            return self.names[e.id][1]
        if isinstance(e, ast.BinOp) and isinstance(e.op, ast.BitXor):
            return f"(xorb {self.bexpr(e.left)} {self.bexpr(e.right)})"
        if isinstance(e, ast.BinOp) and isinstance(e.op, ast.BitAnd):
            return f"(andb {self.bexpr(e.left)} {self.bexpr(e.right)})"
        if isinstance(e, ast.UnaryOp) and isinstance(e.op, ast.Invert):
            return f"(negb {self.bexpr(e.operand)})"
        _fail(e, "unsupported boolean expression")

    def assign_col(self, key, txt):
        v = self.fresh("r" if key == "r" else f"{key[0]}_{key[1]}")
        self.lets.append(f"let {v} := {txt} in")
        self.cols[key] = v

    def state_tuple(self):
        ks = [k for q in self.qnames for k in (("x", q), ("z", q))] + ["r"]
        return "(" + ", ".join(self.cols[k] for k in ks) + ")"

    def call(self, e):
        if not (isinstance(e, ast.Call) and isinstance(e.func, ast.Name) and not e.keywords):
            _fail(e, "unsupported call")
        callee = self.tr.fns.get(e.func.id)
        if callee is None:
            _fail(e, "call of an engine function that is not (yet) defined")
        args = e.args
        if len(args) != 2 + callee.kind + (1 if callee.theta else 0):
            _fail(e, "wrong number of arguments")
        if not (isinstance(args[0], ast.Name) and args[0].id == "symplectic_matrix"):
            _fail(e, "first argument must be symplectic_matrix")
        qs = []
        for a in args[1:1 + callee.kind]:
            if not (isinstance(a, ast.Name) and a.id in self.qnames):
                _fail(e, "qubit argument must be a qubit parameter")
            qs.append(a.id)
        if len(set(qs)) != len(qs):
            _fail(e, "repeated qubit argument")
        nq = args[1 + callee.kind]
        if not (isinstance(nq, ast.Name) and nq.id == "nqubits"):
            _fail(e, "nqubits argument expected")
        th = None
        if callee.theta:
            fe = FloatExpr()
            th, isint = fe.tr(args[-1])
            if isint:
                _fail(e, "int angle")
            self.tr.denominators += fe.denominators
        return callee, qs, th

    def apply_call(self, e):
        callee, qs, th = self.call(e)
        if not callee.total:
            _fail(e, "call of a partial dispatch function inside a straight-line block")
        f = f"(gen_{callee.name} {th})" if callee.theta else f"gen_{callee.name}"
        ins, outs = [], []
        for q in qs:
            ins += [self.cols[("x", q)], self.cols[("z", q)]]
            outs += [self.fresh(f"x_{q}"), self.fresh(f"z_{q}")]
        nr = self.fresh("r")
        self.lets.append(f"let '({', '.join(outs + [nr])}) := {f} {' '.join(ins + [self.cols['r']])} in")
        for k, q in enumerate(qs):
            self.cols[("x", q)], self.cols[("z", q)] = outs[2 * k], outs[2 * k + 1]
        self.cols["r"] = nr

    def run(self, stmts):
        for s in stmts:
            if self.returned is not None:
                _fail(s, "statement after return")
            self.stmt(s)

    def stmt(self, s):
        if isinstance(s, ast.Expr) and isinstance(s.value, ast.Constant) and isinstance(s.value.value, str):
            return
        if isinstance(s, ast.Return):
            v = s.value
            if isinstance(v, ast.Name) and v.id == "symplectic_matrix":
                self.returned = ("state", None)
                return
            if isinstance(v, ast.Call):
                callee, qs, th = self.call(v)
                if callee.total:
                    self.apply_call(v)
                    self.returned = ("state", None)
                else:
                    if list(qs) != list(self.qnames) or self.lets:
                        _fail(s, "a partial callee must be called on the unchanged state")
                    self.returned = ("option", f"(gen_{callee.name} {th})")
                return
            _fail(s, "unsupported return value")
        if isinstance(s, ast.Assign) and len(s.targets) == 1:
            tgt, val = s.targets[0], s.value
            if (isinstance(tgt, ast.Tuple) and isinstance(val, ast.Call) and isinstance(val.func, ast.Name)
                    and val.func.id == "_get_rxz"):
                names = [t.id for t in tgt.elts if isinstance(t, ast.Name)]
                a = val.args
                if len(names) != 3 or len(tgt.elts) != 3 or len(a) != 2 or val.keywords or not (
                        isinstance(a[0], ast.Name) and a[0].id == "symplectic_matrix"
                        and isinstance(a[1], ast.Name) and a[1].id == "nqubits"):
                    _fail(s, "unsupported _get_rxz call")
                self.tr.uses_get_rxz = True
                self.names[names[0]] = ("view", "r")
                self.names[names[1]] = ("mat", "x")
                self.names[names[2]] = ("mat", "z")
                return
            if isinstance(tgt, ast.Name):
                name = tgt.id
                if name == "symplectic_matrix":
                    if isinstance(val, ast.Call):
                        self.apply_call(val)
                        return
                    _fail(s, "unsupported rebinding of symplectic_matrix")
                if name in self.qnames or name in ("nqubits", "theta", "np"):
                    _fail(s, "assignment to a parameter")
                if isinstance(val, ast.BinOp) and isinstance(val.op, ast.Add) and any(
                        isinstance(x, ast.Name) and x.id == "nqubits" for x in (val.left, val.right)):
                    self.names[name] = ("idx", self.col_index(val))
                    return
                d = self.designator(val)
                if d is not None and not isinstance(d, list):
                    self.names[name] = ("view", d)
                    return
                v = self.fresh(name)
                self.lets.append(f"let {v} := {self.bexpr(val)} in")
                self.names[name] = ("val", v)
                return
            d = self.designator(tgt)
            if d is None:
                _fail(s, "unsupported assignment target")
            if isinstance(d, list):
                src = self.designator(val)
                if not isinstance(src, list) or len(src) != len(d) or len(set(d)) != len(d):
                    _fail(s, "fancy-index assignment needs a fancy-index source of the same length")
                vals = [self.cols[k] for k in src]
                for k, v in zip(d, vals):
                    self.assign_col(k, v)
                return
            self.assign_col(d, self.bexpr(val))
            return
        _fail(s, "unsupported statement")

    def text(self, indent="  "):
        return ("\n" + indent).join(self.lets + [self.state_tuple()])


GET_RXZ = "return (symplectic_matrix[:, -1], symplectic_matrix[:, :nqubits], symplectic_matrix[:, nqubits:-1])"


class Translator:
    def __init__(self, source):
        self.tree = ast.parse(source)
        self.fns, self.order, self.denominators, self.skipped = {}, [], [], []
        self.uses_get_rxz = self.get_rxz_ok = False

    def signature(self, f):
        a = [x.arg for x in f.args.args]
        if f.args.vararg or f.args.kwarg or f.args.kwonlyargs or f.args.defaults or f.args.posonlyargs:
            return None
        return {("symplectic_matrix", "q", "nqubits"): (1, False),
                ("symplectic_matrix", "q", "nqubits", "theta"): (1, True),
                ("symplectic_matrix", "control_q", "target_q", "nqubits"): (2, False),
                ("symplectic_matrix", "control_q", "target_q", "nqubits", "theta"): (2, True)}.get(tuple(a))

    def translate(self):
        out = []
        for node in self.tree.body:
            if isinstance(node, ast.FunctionDef) and node.name == "_get_rxz":
                body = [s for s in node.body if not (isinstance(s, ast.Expr) and isinstance(s.value, ast.Constant))]
                if (len(body) == 1 and ast.unparse(body[0]) == GET_RXZ
                        and [a.arg for a in node.args.args] == ["symplectic_matrix", "nqubits"]):
                    self.get_rxz_ok = True
                else:
                    raise TranslationError("_get_rxz changed: " + ast.unparse(node))
        for node in self.tree.body:
            if not isinstance(node, ast.FunctionDef):
                continue
            if not node.args.args or node.args.args[0].arg != "symplectic_matrix" or node.name.startswith("_"):
                self.skipped.append(node.name)
                continue
            sig = self.signature(node)
            if sig is None:
                raise TranslationError(f"{node.name}: unsupported signature ({ast.unparse(node.args)})")
            if node.decorator_list:
                raise TranslationError(f"{node.name}: decorators are not supported")
            if node.name in self.fns:
                raise TranslationError(f"{node.name}: defined twice")
            fn = Fn(node.name, *sig)
            fn.text = self.function(fn, node)
            self.fns[node.name] = fn
            self.order.append(node.name)
            out.append(fn.text)
        if self.uses_get_rxz and not self.get_rxz_ok:
            raise TranslationError("_get_rxz not found")
        for d in self.denominators:
            if "theta" in d:
                raise TranslationError("denominator depends on theta: " + d)
        return out

    @staticmethod
    def params(fn):
        if fn.kind == 1:
            return "x_q z_q r", "loc1"
        return "x_control_q z_control_q x_target_q z_target_q r", "loc2"

    def function(self, fn, node):
        ps, ty = self.params(fn)
        body = [s for s in node.body if not (isinstance(s, ast.Expr) and isinstance(s.value, ast.Constant))]
        if not fn.theta:
            b = Body(self, fn)
            b.run(body)
            if b.returned is None or b.returned[0] != "state":
                raise TranslationError(f"{fn.name}: must end with `return symplectic_matrix` or `return F(...)`")
            return f"Definition gen_{fn.name} : {ty} := fun {ps} =>\n  {b.text()}.\n"
        if len(body) != 1 or not isinstance(body[0], ast.If):
            raise TranslationError(f"{fn.name}: a function of theta must be a single if/elif chain")
        branches, node_if = [], body[0]
        while True:
            fe = FloatExpr()
            c = fe.cond(node_if.test)
            self.denominators += fe.denominators
            branches.append((c, node_if.body))
            if len(node_if.orelse) == 1 and isinstance(node_if.orelse[0], ast.If):
                node_if = node_if.orelse[0]
                continue
            else_body = node_if.orelse or None
            break
        fn.total = else_body is not None
        texts = []
        for (_, blk) in branches + ([("else", else_body)] if else_body else []):
            b = Body(self, fn)
            b.run(blk)
            if b.returned is None:
                raise TranslationError(f"{fn.name}: branch without return")
            if b.returned[0] == "option":
                if fn.total:
                    raise TranslationError(f"{fn.name}: partial callee in a total chain")
                texts.append(b.returned[1])
            else:
                lam = f"(fun {ps} =>\n      {b.text('      ')})"
                texts.append(lam if fn.total else f"(Some {lam})")
        res_ty = ty if fn.total else f"option {ty}"
        s = f"Definition gen_{fn.name} (theta : float) : {res_ty} :=\n"
        for k, (c, _) in enumerate(branches):
            s += f"  {'if' if k == 0 else 'else if'} {c} then {texts[k]}\n"
        s += f"  else {texts[len(branches)] if fn.total else 'None'}.\n"
        s += f"Definition gen_{fn.name}_pos (theta : float) : {'nat' if fn.total else 'option nat'} :=\n"
        for k, (c, _) in enumerate(branches):
            s += f"  {'if' if k == 0 else 'else if'} {c} then {str(k) + '%nat' if fn.total else 'Some ' + str(k) + '%nat'}\n"
        s += f"  else {str(len(branches)) + '%nat' if fn.total else 'None'}.\n"
        return s


GEN_HEADER = """(* generated from qibo/backends/_clifford_operations.py by harness/c12.py -- do not edit *)
From Coq Require Import Bool List PrimFloat.
From QV Require Import C12.ModelFloat C12.ModelTableau.
Import ListNotations.
"""


def translate_source(source):
    t = Translator(source)
    defs = t.translate()
    dens = list(dict.fromkeys(t.denominators))
    txt = GEN_HEADER + "\n".join(defs)
    txt += ("\nDefinition gen_denominators_nonzero : bool :=\n  forallb (fun d => negb (PrimFloat.eqb d 0%float)) ["
            + "; ".join(dens) + "].\n")
    return txt, t


# =====================================================================================
# 2. helpers: Coq text of python values, gates, circuits
# =====================================================================================
COQ_HEADER = """From Coq Require Import ZArith Bool List PrimFloat.
From QV Require Import C12.ModelFloat C12.ModelTableau C12.ModelExec C12.ModelMeasure.
Import ListNotations.
"""

PI_HEX = "0x1.921fb54442d18p+1"


def cfloat(v):
    v = float(v)
    if v != v:
        return "PrimFloat.nan"
    if math.isinf(v):
        return "PrimFloat.infinity" if v > 0 else "PrimFloat.neg_infinity"
    h = v.hex()
    return f"(PrimFloat.opp {h[1:]}%float)" if h.startswith("-") else f"{h}%float"


def cbool(b):
    return "true" if b else "false"


def cnats(xs):
    xs = list(xs)
    return "(@nil nat)" if not xs else "[" + "; ".join(f"{int(x)}%nat" for x in xs) + "]"


def cbools(xs):
    xs = list(xs)
    return "(@nil bool)" if not xs else "[" + "; ".join(cbool(x) for x in xs) + "]"


def cmatrix(M):
    return "[" + "; ".join(cbools(r) for r in M) + "]"


def ctableau(T, n):
    """numpy (rows x (2n+1)) 0/1 matrix -> Coq tableau (list of rows (xs, zs, r))"""
    rows = []
    for r in np.asarray(T).astype(int):
        rows.append(f"({cbools(r[:n])}, {cbools(r[n:2 * n])}, {cbool(r[-1])})")
    return "[" + "; ".join(rows) + "]"


CLS = {k: "c" + k for k in ("H X Y Z S SDG SX SXDG I RX RY RZ GPI2 CNOT CY CZ CRX CRY CRZ SWAP FSWAP ECR M").split()}
CLS["iSWAP"] = "ciSWAP"
CLS["PauliNoiseChannel"] = "cPauliNoise"
CLS["Unitary"] = "cUnitary"


def pyval_coq(p):
    if isinstance(p, bool) or (isinstance(p, (int, np.integer)) and not isinstance(p, float)):
        if isinstance(p, np.integer):      # numpy ints are not instances of int
            return "POther"
        return f"(PInt ({int(p)})%Z)"
    if isinstance(p, float):               # includes np.float64
        return f"(PFloat {cfloat(p)})"
    return "POther"


def kw_theta(g):
    th = getattr(g, "init_kwargs", {}).get("theta") if isinstance(getattr(g, "init_kwargs", None), dict) else None
    if th is None:
        return None
    if isinstance(th, (bool, int)) and abs(int(th)) < 2 ** 53:
        return float(th)
    if isinstance(th, float):
        return float(th)
    return None   # np.float32, symbolic ...: such a gate is never flagged (POther), the engine is not reached


def gate_coq(g):
    """Coq `gate` record read off a real gate object (attributes only; no modelling here)"""
    name = type(g).__name__
    cls = CLS.get(name, "cOther")
    args = [a for a in (g.init_args if isinstance(g.init_args, (list, tuple)) else [])]
    ints = all(isinstance(a, (int, np.integer)) and not isinstance(a, bool) for a in args)
    if cls in ("cOther", "cUnitary", "cPauliNoise") or not ints:
        args = []
    par = "None"
    if cls != "cM" and getattr(g, "parameters", ()) and cls not in ("cUnitary", "cPauliNoise", "cOther"):
        par = f"(Some {pyval_coq(g.parameters[0])})"
    kw = "None"
    if cls not in ("cOther", "cUnitary", "cPauliNoise", "cM"):
        th = kw_theta(g)
        if th is not None:
            kw = f"(Some {cfloat(th)})"
    uflag = cbool(bool(getattr(g, "_clifford", False))) if cls == "cUnitary" else "false"
    return (f"(mkGate {cls} {cnats(args)} {cnats(g.control_qubits)} {cnats(g.target_qubits)} {par} {kw} {uflag})")


def circuit_coq(c):
    gs = [gate_coq(g) for g in c.queue]
    return "(@nil gate)" if not gs else "[" + ";\n   ".join(gs) + "]"


# ---- serialisable circuit descriptions (for samples / replay files)
def gate_desc(g):
    d = {"g": type(g).__name__, "targets": [int(q) for q in g.target_qubits], "controls": [int(q) for q in g.control_qubits],
         "init_args": [int(a) for a in g.init_args] if all(isinstance(a, (int, np.integer)) for a in g.init_args) else None}
    th = getattr(g, "init_kwargs", {}).get("theta") if isinstance(getattr(g, "init_kwargs", None), dict) else None
    if isinstance(th, float):
        d["theta"] = float(th).hex()
    elif isinstance(th, int):
        d["theta_int"] = int(th)
    return d


def make_gate(d):
    """inverse of the generator's descriptions: {"g": class, "q": [...], "theta": hex | "theta_int": k, "ctrl": [...]}"""
    from qibo import gates
    cls = getattr(gates, d["g"])
    args = list(d["q"])
    if "theta" in d:
        args.append(float.fromhex(d["theta"]))
    elif "theta_int" in d:
        args.append(int(d["theta_int"]))
    g = cls(*args)
    if d.get("ctrl"):
        g = g.controlled_by(*d["ctrl"])
    return g


def make_circuit(n, descs):
    from qibo import Circuit
    c = Circuit(n)
    for d in descs:
        c.add(make_gate(d))
    return c


ONE_Q = ["H", "X", "Y", "Z", "S", "SDG", "SX", "SXDG", "I"]
TWO_Q = ["CNOT", "CY", "CZ", "SWAP", "iSWAP", "FSWAP", "ECR"]
ROT1 = ["RX", "RY", "RZ"]
ROT2 = ["CRX", "CRY", "CRZ"]


def clifford_angles():
    """angles at multiples of pi/2 (both spellings) that the flag accepts, per k mod 4; and multiples of pi"""
    from qibo.gates.gates import _is_clifford_given_angle as flag
    a1 = []
    for k in range(-12, 13):
        for v in (k * np.pi / 2, k * (np.pi / 2)):
            if flag(v):
                a1.append(float(v))
    a2 = [float(k * np.pi) for k in range(-8, 9) if flag(k * np.pi)]
    return sorted(set(a1)), sorted(set(a2))


def random_descs(rng, n, depth, a1, a2, rot_weight=0.3):
    out = []
    for _ in range(depth):
        u = rng.random()
        if n == 1 or u < 0.4:
            if rng.random() < rot_weight:
                th = rng.choice(a1)
                d = {"g": rng.choice(ROT1), "q": [rng.randrange(n)]}
                if th == 0.0 and rng.random() < 0.5:
                    d["theta_int"] = 0
                else:
                    d["theta"] = th.hex()
                out.append(d)
            else:
                out.append({"g": rng.choice(ONE_Q), "q": [rng.randrange(n)]})
        else:
            c, t = rng.sample(range(n), 2)
            if rng.random() < rot_weight:
                out.append({"g": rng.choice(ROT2), "q": [c, t], "theta": rng.choice(a2).hex()})
            else:
                out.append({"g": rng.choice(TWO_Q), "q": [c, t]})
    return out


def real_tableau(backend, c):
    r = backend.execute_circuit(c)
    return np.asarray(r.symplectic_matrix).astype(np.uint8), r


# =====================================================================================
# 3. sections of the check
# =====================================================================================
RULE1 = ["I", "H", "S", "SDG", "X", "Y", "Z", "SX", "SXDG", "RY_pi", "RY_3pi_2"]
RULE2 = ["CNOT", "CZ", "CY", "SWAP", "iSWAP", "FSWAP", "ECR"]
ROT1_RULES = ["RX", "RY", "RZ"]
ROT2_RULES = ["CRX", "CRY", "CRZ"]
CHAIN_TAC = ("repeat match goal with |- context [feq0 ?e] => destruct (feq0 e) end; vm_compute; reflexivity.")


def crn_half():
    """which flag the controlled rotations use in this tree: False = theta is tested with the pi/2 test of RX/RY/RZ
    (the code as it is), True = theta/2 is tested (a repair that was tried and withdrawn: tests/test_gates_gates.py::test_cun
    pins the old flag).  Selects the model variant clifford_at."""
    from qibo import gates
    return not gates.CRX(0, 1, np.pi / 2).clifford


def HALF():
    return cbool(crn_half())


def report(run, key, what, replay, concrete=True):
    """run.find, once per key"""
    seen = run.notes.setdefault("reported_keys", [])
    if key in seen:
        return
    seen.append(key)
    run.find(key, what, replay, concrete)


def sec_constants(run):
    ok = float(np.pi).hex() == PI_HEX and float(math.pi).hex() == PI_HEX
    run.oblige("tie:np.pi == 0x1.921fb54442d18p+1 (ModelFloat.f_pi)", ok, "tie")
    if not ok:
        run.find("constants:np.pi", "np.pi differs from the literal used by the float model", {"np.pi": float(np.pi).hex()}, concrete=False)


def sec_translate(run):
    """regenerate the rule table from /repo and prove it equal to the static model"""
    src = open(ENGINE_SRC).read()
    try:
        txt, tr = translate_source(src)
    except TranslationError as e:
        run.oblige("translate:_clifford_operations.py", False, "translation")
        run.find("translate:_clifford_operations", f"engine source left the translated fragment: {e}", {"error": str(e)}, concrete=False)
        return None
    run.oblige("translate:_clifford_operations.py", True, "translation")
    run.notes["engine_functions_translated"] = tr.order
    run.notes["engine_functions_not_rules"] = tr.skipped
    p = run.write("Gen_Clifford.v", txt)
    ok, out = vcore.coqc(p)
    run.checker_cmds.append("coqc _build/C12/Gen_Clifford.v")
    run.oblige("compile:Gen_Clifford.v", ok, "translation")
    if not ok:
        run.find("translate:compile", "generated rule table does not compile", {"log": out[-1500:]}, concrete=False)
        return None
    known = set(RULE1 + RULE2 + ROT1_RULES + ROT2_RULES)
    extra = [f for f in tr.order if f not in known]
    missing = [f for f in known if f not in tr.order]
    for f in extra:
        run.oblige(f"bridge:{f}", False, "bridge")
        run.find(f"bridge:{f}", f"engine function {f} has no verified rule in the static model", {"function": f}, concrete=False)
    for f in missing:
        run.oblige(f"bridge:{f}", False, "bridge")
        run.find(f"bridge:{f}", f"engine function {f} of the static model is no longer in the source", {"function": f}, concrete=False)
    thms = [("denominators_nonzero", "gen_denominators_nonzero = true", "vm_compute; reflexivity.")]
    for f in tr.order:
        fn = tr.fns[f]
        if f in RULE1 and fn.kind == 1 and not fn.theta:
            thms.append((f"bridge_{f}", f"loc1_eqb gen_{f} m_{f} = true", "vm_compute; reflexivity."))
        elif f in RULE2 and fn.kind == 2 and not fn.theta:
            thms.append((f"bridge_{f}", f"loc2_eqb gen_{f} m_{f} = true", "vm_compute; reflexivity."))
        elif f in ROT1_RULES and fn.kind == 1 and fn.theta and fn.total:
            thms.append((f"bridge_{f}", f"forall theta, loc1_eqb (gen_{f} theta) (m_{f} theta) = true",
                         f"intro theta. unfold gen_{f}, m_{f}, rot_branch, rot_pos. " + CHAIN_TAC))
            thms.append((f"bridge_{f}_pos", f"forall theta, gen_{f}_pos theta = rot_pos theta", "intro theta. reflexivity."))
        elif f in ROT2_RULES and fn.kind == 2 and fn.theta and not fn.total:
            thms.append((f"bridge_{f}", f"forall theta, oloc2_eqb (gen_{f} theta) (m_{f} theta) = true",
                         f"intro theta. unfold gen_{f}, m_{f}, gen_CRZ, m_CRZ, crot_branch. " + CHAIN_TAC))
            thms.append((f"bridge_{f}_pos", f"forall theta, gen_{f}_pos theta = crot_branch theta", "intro theta. reflexivity."))
        elif f in known:
            run.oblige(f"bridge:{f}", False, "bridge")
            run.find(f"bridge:{f}", f"engine function {f} changed its shape (arity / theta / else branch)", {"function": f}, concrete=False)
    hdr = COQ_HEADER + "Require Import Gen.Gen_Clifford.\n"
    # one file per theorem group would isolate failures; try all at once first, then individually
    ok, out = run.coq_theorems("Bridge_all.v", hdr, thms, timeout=600)
    if ok:
        for (nm, _, _) in thms:
            run.oblige(f"bridge:{nm}", True, "bridge")
    else:
        for (nm, st, pr) in thms:
            ok1, out1 = run.coq_theorems(f"Bridge_{nm}.v", hdr, [(nm, st, pr)], timeout=300)
            run.oblige(f"bridge:{nm}", ok1, "bridge")
            if not ok1:
                run.find(f"bridge:{nm}", f"the rule regenerated from the source is not equal to the verified model: {st}",
                         {"statement": st, "log": out1[-800:]}, concrete=False)
    return tr


# ---------------------------------------------------------------- float model validation
def float_samples(rng, count):
    import struct
    hp = np.pi / 2
    xs = [0.0, -0.0, 1.0, -1.0, 2.0, 3.0, hp, np.pi, 2 * np.pi, 4 * np.pi, -hp, 1.0 + hp, 1.0 - hp, 5e-324, -5e-324,
          2.2250738585072014e-308, 1.7976931348623157e308, -1.7976931348623157e308, float("inf"), float("-inf"), float("nan"),
          0.5, 1.5, 1e16, 1e22, 2.0 ** 53, 2.0 ** 53 + 2, 0.1, 0.3, 6.283185307179586, 6.283185307179587]
    ys = [hp, 2 * np.pi, 4 * np.pi, 2.0, 4.0, np.pi, -hp, -2.0, 1.0, 0.0, -0.0, 3.0, 1e-300, 1e300, float("inf"), float("nan")]
    pairs = [(x, y) for x in xs for y in ys[:6]] + [(x, y) for x in xs[:8] for y in ys[6:]]
    while len(pairs) < count:
        u = rng.random()
        if u < 0.25:
            x = struct.unpack("<d", struct.pack("<Q", rng.getrandbits(64)))[0]
        elif u < 0.45:
            x = rng.uniform(-100, 100)
        elif u < 0.75:
            k = rng.randint(-5000, 5000)
            x = rng.choice([k * np.pi / 2, k * (np.pi / 2), k * np.pi, k * hp + 1.0, k * hp + 2.0, k * hp - 1.0])
            for _ in range(rng.randint(0, 3)):
                x = float(np.nextafter(x, rng.choice([-np.inf, np.inf])))
        elif u < 0.85:
            x = float(rng.randint(-10 ** 6, 10 ** 6))
        else:
            x = rng.choice([1, -1]) * 2.0 ** rng.randint(-1074, 1023) * rng.random()
        v = rng.random()
        if v < 0.5:
            y = hp
        elif v < 0.8:
            y = rng.choice(ys)
        elif v < 0.9:
            y = struct.unpack("<d", struct.pack("<Q", rng.getrandbits(64)))[0]
        else:
            y = rng.uniform(-10, 10)
        pairs.append((float(x), float(y)))
    return pairs[:count]


def sec_float_validation(run, rng):
    """the PrimFloat model of `%`, `.is_integer()` and the flag against CPython, bit for bit"""
    from qibo.gates.gates import _is_clifford_given_angle as flag
    count = 3000 if run.tier == "quick" else 20000
    pairs = float_samples(rng, count)
    items = []
    for j, (x, y) in enumerate(pairs):
        try:
            m = x % y
            exp = f"(Some {cfloat(m)})"
        except ZeroDivisionError:
            exp = "None"
        items.append((f"mod{j}", f"same_ofloat (pymod {cfloat(x)} {cfloat(y)}) {exp}", ("mod", x.hex(), y.hex())))
        items.append((f"int{j}", f"Bool.eqb (is_integer {cfloat(x)}) {cbool(float(x).is_integer())}", ("is_integer", x.hex())))
        items.append((f"flag{j}", f"Bool.eqb (flag {cfloat(x)}) {cbool(bool(flag(x)))}", ("flag", x.hex())))
    bad = 0
    for k in range(0, len(items), 600):
        chunk = items[k:k + 600]
        res, out = run.coq_bools(f"FloatVal_{k // 600}.v", COQ_HEADER, [(a, b) for a, b, _ in chunk])
        if res is None:
            run.oblige(f"floatmodel:file{k // 600}", False, "correspondence")
            run.find("floatmodel:compile", "float validation file does not compile", {"log": out[-800:]}, concrete=False)
            continue
        for (lab, _, meta) in chunk:
            run.case(list(meta), nontrivial=True)
            if not res[lab]:
                bad += 1
                if bad <= 5:
                    run.find(f"floatmodel:{meta[0]}", "the PrimFloat model disagrees with CPython (model defect, not a qibo defect)",
                             {"kind": "floatmodel", "case": list(meta)}, concrete=False)
    run.sample({"float_validation": [list(items[5][2]), list(items[100][2])], "pairs": len(pairs)})
    run.oblige("correspondence:float model (pymod, is_integer, flag) == CPython on %d floats" % len(pairs), bad == 0, "correspondence")
    run.notes["float_validation_cases"] = len(items)


def sec_flag_sweep(run):
    """flag and dispatch at fl(k*pi/2), |k| <= 4096: model == real code on the whole sweep; witnesses replayed"""
    from qibo import gates
    from qibo.gates.gates import _is_clifford_given_angle as flag
    K = 4096
    ks = list(range(-K, K + 1))
    real_a = [bool(flag(k * np.pi / 2)) for k in ks]
    real_b = [bool(flag(k * (np.pi / 2))) for k in ks]
    real_p = [bool(flag(k * np.pi)) for k in ks]
    # the three sweeps in Coq, as lists of booleans
    vals = run.coq_eval("FlagSweep.v", COQ_HEADER, [
        f"map (fun k => flag (ang_a k)) (zsym {K})", f"map (fun k => flag (ang_b k)) (zsym {K})",
        f"map (fun k => flag (ang_pi k)) (zsym {K})",
        f"map (fun k => rot_branch (ang_a k)) (zsym {K})", f"map (fun k => crot_branch (ang_pi k)) (zsym {K})"], timeout=600)
    if vals is None:
        run.oblige("correspondence:flag sweep", False, "correspondence")
        run.find("flag_sweep:compile", "flag sweep file does not compile", {}, concrete=False)
        return
    pb = lambda s: [t == "true" for t in re.findall(r"true|false", s)]
    ok = pb(vals[0]) == real_a and pb(vals[1]) == real_b and pb(vals[2]) == real_p
    for k, a, b_ in zip(ks, real_a, real_b):
        run.case(["flag_sweep", k, a, b_])
    run.oblige(f"correspondence:flag(fl(k*pi/2)), flag(fl(k*pi)) model == real, |k| <= {K}, both spellings", ok, "correspondence")
    if not ok:
        run.find("flag_sweep:model", "float model of the flag disagrees with the real flag on the sweep", {}, concrete=False)
    # dispatch: real branch taken by the engine at the flagged angles (observed through spies)
    eng = fresh_engine()
    mb = [int(t) for t in re.findall(r"\d+", vals[3])]
    mc = re.findall(r"Some \d+|None", vals[4])
    dis_ok = True
    for k, fl_, m in zip(ks, real_a, mb):
        if fl_ or k % 97 == 0:
            rb = real_rot_branch(eng, k * np.pi / 2)
            if rb != m:
                dis_ok = False
                run.find(f"dispatch:model:k={k}", "dispatch model disagrees with the engine", {"k": k, "model": m, "real": rb}, concrete=False)
            if fl_ and rb != k % 4:
                run.find(f"dispatch:RX:k={k}", f"engine takes branch {rb} at fl({k}*pi/2), expected {k % 4}",
                         {"kind": "dispatch", "k": k}, concrete=True)
    run.oblige("correspondence:rot_branch model == engine dispatch on the sweep sample", dis_ok, "correspondence")
    missed = [k for k, a in zip(ks, real_a) if not a]
    run.notes["flag_complete_missed"] = f"{len(missed)} of {len(ks)} multiples k*pi/2, |k| <= {K}, are not flagged (spelling k*np.pi/2); " \
                                        f"{sum(1 for b_ in real_b if not b_)} with spelling k*(np.pi/2)"
    if missed:
        run.refuted.append("flag_complete_K")
        pos = min(k for k in missed if k > 0) if any(k > 0 for k in missed) else None
        neg = max(k for k in missed if k < 0) if any(k < 0 for k in missed) else None
        for k in (pos, neg):
            if k is None:
                continue
            g = gates.RX(0, k * np.pi / 2)
            if not g.clifford:
                run.find(f"flag_complete:k={k}", f"RX(0, {k}*np.pi/2).clifford is False although the angle is a multiple of pi/2 "
                         f"({len(missed)} of {len(ks)} multiples with |k| <= {K} are missed); the circuit is refused",
                         {"kind": "flag_complete", "k": k, "theta": float(k * np.pi / 2).hex()})
    else:
        run.oblige("flag_complete_K holds on the current tree", True, "sweep")


def fresh_engine():
    from qibo.backends import CliffordBackend
    return CliffordBackend(engine="numpy").engine


def real_rot_branch(eng, theta):
    """which branch RX takes (k mod 4 numbering), observed by spying on the callees"""
    saved = {k: getattr(eng, k) for k in ("I", "X", "SX", "SXDG")}
    hit = []
    try:
        for k, v in (("I", 0), ("SX", 1), ("X", 2), ("SXDG", 3)):
            setattr(eng, k, (lambda sm, q, n, _v=v: hit.append(_v) or sm))
        eng.RX(np.zeros((1, 3), dtype=np.uint8), 0, 1, theta)
    finally:
        for k, v in saved.items():
            setattr(eng, k, v)
    return hit[0] if len(hit) == 1 else None


# ---------------------------------------------------------------- state-vector side (tests)
def pauli_apply(x, z, r, psi):
    """(-1)^r (x)_j i^{x_j z_j} X^{x_j} Z^{z_j}  applied to a state vector (qubit 0 = most significant bit);
    the same formula as Pauli.pact in Coq:  (P psi)(b) = i^{ph(b)} psi(b xor x)"""
    n = len(x)
    N = 1 << n
    idx = np.arange(N)
    xm = sum(int(x[j]) << (n - 1 - j) for j in range(n))
    ph = np.full(N, 2 * int(r))
    for j in range(n):
        bj = (idx >> (n - 1 - j)) & 1
        ph = ph + int(x[j]) * int(z[j]) + 2 * int(z[j]) * (bj ^ int(x[j]))
    return (1j ** (ph % 4)) * psi[idx ^ xm]


def stabiliser_defect(T, n, psi):
    """max over stabiliser rows of |P psi - psi|_inf"""
    worst = 0.0
    for i in range(n, 2 * n):
        row = T[i]
        d = np.abs(pauli_apply(row[:n], row[n:2 * n], row[-1], psi) - psi).max()
        worst = max(worst, float(d))
    return worst


def statevector(c):
    from qibo.backends import NumpyBackend
    return np.asarray(NumpyBackend().execute_circuit(c).state())


PREPS = [[], ["H"], ["H", "S"], ["H", "S:even"]]


def gate_defect(b, n, mk):
    """max over a few stabiliser preparations of the defect between the Clifford result and the state vector
    for the one-gate circuit prep ; mk().  A refusal by exception counts as defect 0 (the circuit is refused)."""
    from qibo import Circuit, gates
    worst = 0.0
    for prep in PREPS:
        def circ():
            c = Circuit(n)
            for p_ in prep:
                nm, _, sel = p_.partition(":")
                for q in range(n):
                    if sel == "even" and q % 2:
                        continue
                    c.add(getattr(gates, nm)(q))
            c.add(mk())
            return c
        T, _ = real_tableau(b, circ())
        worst = max(worst, stabiliser_defect(T, n, statevector(circ())))
    return worst


def sec_flag_witnesses(run):
    """replay of the refuted flag statements on the real code"""
    from qibo import Circuit, gates
    from qibo.backends import CliffordBackend
    b = CliffordBackend(engine="numpy")
    # flag_sound: angle 1.0 (and 1 + pi/2) is flagged although it is 0.57 away from every multiple of pi/2
    fired = False
    for cls, theta in (("RX", 1.0), ("RY", 1.0), ("RZ", 1.0), ("RX", 1.0 + np.pi / 2)):
        g = getattr(gates, cls)(0, theta)
        if g.clifford:
            d = gate_defect(b, 1, lambda: getattr(gates, cls)(0, theta))
            if d > 1e-6:
                fired = True
                lab = "1.0" if theta == 1.0 else repr(theta)
                report(run, f"flag_sound:{cls}({lab})", f"{cls}(0, {lab}).clifford is True ({lab} % (pi/2) == 1.0 'is_integer'); the circuit "
                         f"H,{cls}({lab}) is accepted and the stabiliser state is not the state-vector result (defect {d:.3f})",
                         {"kind": "flag_sound", "cls": cls, "theta": float(theta).hex()})
    if fired:
        run.refuted.append("flag_sound")
    # controlled rotations at odd multiples of pi/2: flagged, no engine branch, silently the identity
    fired = False
    for cls in ROT2:
        g = getattr(gates, cls)(0, 1, np.pi / 2)
        if g.clifford:
            try:
                d = gate_defect(b, 2, lambda: getattr(gates, cls)(0, 1, np.pi / 2))
            except (AttributeError, TypeError):   # a crash is a refusal
                d = 0.0
            if d > 1e-6:
                fired = True
                report(run, f"cr_flag:{cls}(pi/2)", f"{cls}(0, 1, pi/2).clifford is True but the operator is not Clifford; the engine's {cls} "
                         f"falls through every branch (returns None) and the gate is simulated as the identity (defect {d:.3f})",
                         {"kind": "cr_flag", "cls": cls, "theta": float(np.pi / 2).hex()})
    if fired:
        run.refuted.append("cr_flag_ok")


# ---------------------------------------------------------------- flags / controlled_by over the catalogue
def catalogue_gates():
    """[(label, maker(qubits) -> gate, nqubits)] over every class of gates.py constructible from qubits (+ angle)"""
    import inspect
    from qibo.gates.abstract import Gate
    import sys
    gg = sys.modules["qibo.gates.gates"]
    out = []
    angles = [("pi/2", np.pi / 2), ("pi", np.pi), ("0.3", 0.3), ("1.0", 1.0), ("2.0", 2.0), ("int0", 0), ("int3", 3)]
    for name, cls in vars(gg).items():
        if not (inspect.isclass(cls) and issubclass(cls, Gate)) or name.startswith("_") or cls.__module__ != gg.__name__:
            continue
        if name in ("Unitary", "GeneralizedRBS", "GeneralizedfSim", "Align", "M"):
            continue
        sig = inspect.signature(cls.__init__)
        ps = [p for p in list(sig.parameters.values())[1:] if p.name != "trainable"]
        if any(p.kind in (p.VAR_POSITIONAL, p.VAR_KEYWORD) for p in ps):
            if name == "I":
                out.append(("I", (lambda qs, _c=cls: _c(qs[0])), 1))
                out.append(("I2", (lambda qs, _c=cls: _c(qs[0], qs[1])), 2))
            continue
        qn = [p.name for p in ps if p.name in ("q", "q0", "q1", "q2")]
        pn = [p.name for p in ps if p.name not in ("q", "q0", "q1", "q2")]
        if not pn:
            out.append((name, (lambda qs, _c=cls, _k=len(qn): _c(*qs[:_k])), len(qn)))
        else:
            for lab, a in angles:
                if len(pn) > 1 and lab not in ("pi/2", "0.3"):
                    continue
                out.append((f"{name}[{lab}]", (lambda qs, _c=cls, _k=len(qn), _a=a, _m=len(pn): _c(*qs[:_k], *([_a] * _m))), len(qn)))
    return out


def sec_flags(run):
    """gate.clifford / controlled_by / init_args: model == real over the catalogue with 0..2 extra controls;
    every flagged gate whose controls do not reach the engine is simulated against the state vector"""
    from qibo import Circuit, gates
    from qibo.backends import CliffordBackend
    b = CliffordBackend(engine="numpy")
    items, metas = [], []
    for lab, mk, nq in catalogue_gates():
        for nc in ((0, 1, 2, 3) if nq == 1 else (0, 1, 2)):
            qs = list(range(nc, nc + nq))
            ctrl = list(range(nc))
            try:
                base = mk(qs)
            except Exception:
                continue
            base_coq = gate_coq(base)
            try:
                g = mk(qs)
                if nc:
                    g = g.controlled_by(*ctrl)
                real = gate_coq(g)
                real_flag = bool(g.clifford)
                if nc:
                    term = (f"match controlled_by {base_coq} {cnats(ctrl)} with Some g' => gate_eqb g' {real} "
                            f"&& Bool.eqb (clifford_at {HALF()} g') {cbool(real_flag)} | None => false end")
                else:
                    term = f"Bool.eqb (clifford_at {HALF()} {real}) {cbool(real_flag)}"
            except RuntimeError:
                g, real_flag = None, None
                term = f"match controlled_by {base_coq} {cnats(ctrl)} with Some _ => false | None => true end"
            items.append((f"{lab}/c{nc}", term))
            metas.append((lab, nc, g, real_flag, nq))
    res, out = run.coq_bools("Flags.v", COQ_HEADER, items)
    if res is None:
        run.oblige("correspondence:flags", False, "correspondence")
        run.find("flags:compile", "flag correspondence file does not compile", {"log": out[-800:]}, concrete=False)
        return
    allok = True
    for (lab, nc, g, fl_, nq) in metas:
        run.case(["flag", lab, nc, fl_])
        if not res[f"{lab}/c{nc}"]:
            allok = False
            run.find(f"flags:model:{lab}/c{nc}", "model of clifford/controlled_by disagrees with the real gate object",
                     {"kind": "flags", "gate": lab, "controls": nc}, concrete=False)
    run.oblige(f"correspondence:clifford flag, controlled_by dispatch, init_args over {len(items)} (class, angle, controls) combinations",
               allok, "correspondence")
    run.sample({"flag_case": items[3][0], "term": items[3][1][:200]})
    # semantic check of every accepted gate against the state vector (test): prepare a generic stabiliser state first
    fired = False
    ign = []
    for (lab, nc, g, fl_, nq) in metas:
        if g is None or not fl_:
            continue
        n = nc + nq
        qs = list(range(nc, nc + nq))
        mk0 = [m for (l2, m, _) in catalogue_gates() if l2 == lab][0]

        def mkg():
            g_ = mk0(qs)
            return g_.controlled_by(*range(nc)) if nc else g_
        gg_ = mkg()
        try:
            d = gate_defect(b, n, mkg)
        except (AttributeError, TypeError) as e:
            run.notes.setdefault("accepted_but_crash", []).append(f"{lab} with {nc} controls: flagged Clifford, engine raises {type(e).__name__}")
            continue
        run.case(["flag_semantics", lab, nc, d > 1e-6])
        if d > 1e-6:
            name = type(gg_).__name__
            ang = lab[lab.index("["):] if "[" in lab else ""
            cs = ",".join(str(q) for q in range(nc))
            if nc and gg_.control_qubits and not set(gg_.control_qubits) <= set(gg_.init_args):
                fired = True
                # tie of execute_ignores_controls: the backend's tableau is exactly the tableau of the bare gate
                from qibo import Circuit as _C, gates as _g
                def _circ(with_ctrl):
                    c_ = _C(n)
                    for q_ in range(n):
                        c_.add(_g.H(q_))
                    g_ = mk0(qs)
                    c_.add(g_.controlled_by(*range(nc)) if with_ctrl else g_)
                    return c_
                Ta, _ = real_tableau(b, _circ(True))
                Tb, _ = real_tableau(b, _circ(False))
                ign.append(bool(np.array_equal(Ta, Tb)))
                report(run, f"controlled_flag:{name}{ang}.controlled_by({cs})",
                       f"{name}{ang}({','.join(map(str, qs))}).controlled_by({cs}).clifford is True; apply_gate_clifford passes only "
                       f"init_args={list(gg_.init_args)} to the engine, the control qubits are dropped and the bare gate is simulated "
                       f"(stabiliser state vs state vector: defect {d:.3f})",
                       {"kind": "controlled_flag", "gate": lab, "controls": nc, "nq": nq})
            elif ang in ("[1.0]", "[2.0]"):
                v = ang[1:-1]
                report(run, f"flag_sound:{name}({v})", f"{name}(..., {v}).clifford is True (the float test `x % (pi/2)` gives 1.0, which 'is_integer'); "
                       f"accepted and simulated as a Clifford gate (defect {d:.3f})", {"kind": "flag_semantics", "gate": lab, "controls": nc, "nq": nq})
            elif name in ROT2 and ang == "[pi/2]":
                report(run, f"cr_flag:{name}(pi/2)", f"{name}(c, t, pi/2).clifford is True but the operator is not Clifford; simulated as the "
                       f"identity (defect {d:.3f})", {"kind": "flag_semantics", "gate": lab, "controls": nc, "nq": nq})
            else:
                report(run, f"flag_semantics:{lab}/c{nc}", f"{lab} with {nc} controls is flagged Clifford but the simulated state is not the "
                       f"state-vector result (defect {d:.3f})", {"kind": "flag_semantics", "gate": lab, "controls": nc, "nq": nq})
    if ign:
        run.oblige(f"correspondence:execution ignores control qubits (theorem execute_ignores_controls): tableau of g.controlled_by(...) == "
                   f"tableau of the bare g, {len(ign)} flagged generically-controlled gates", all(ign), "correspondence")
    if fired:
        run.refuted.append("controlled_flag_ok")


# ---------------------------------------------------------------- "exactly when": the flag against the operator (test)
_PAULI_STRINGS = {}


def pauli_strings(n):
    import itertools
    if n not in _PAULI_STRINGS:
        P1 = {"I": np.eye(2), "X": np.array([[0, 1], [1, 0]]), "Y": np.array([[0, -1j], [1j, 0]]), "Z": np.array([[1, 0], [0, -1]])}
        labs = list(itertools.product("IXYZ", repeat=n))
        mats = []
        for lab in labs:
            M = np.array([[1.0 + 0j]])
            for ch in lab:
                M = np.kron(M, P1[ch])
            mats.append(M)
        _PAULI_STRINGS[n] = (labs, np.array(mats))
    return _PAULI_STRINGS[n]


def is_clifford_matrix(U, n, tol=1e-9):
    """U P U^dagger is +/- a Pauli string for every generator X_j, Z_j (numerical test)"""
    labs, S = pauli_strings(n)
    for k, lab in enumerate(labs):
        if sum(ch != "I" for ch in lab) != 1 or "Y" in lab:
            continue
        V = U @ S[k] @ U.conj().T
        coef = np.einsum("kij,ij->k", S.conj(), V) / 2 ** n
        big = np.abs(coef) > tol
        if big.sum() != 1 or abs(abs(coef[big][0]) - 1) > 1e-6 or abs(coef[big][0].imag) > 1e-6:
            return False
    return True


def sec_flag_exact(run):
    """`gate.clifford` exactly when the operator maps Paulis to Paulis, over every class of gates.py with its
    parameters on the grid {0, pi/2, pi, 3pi/2} (numerical test of the operator)"""
    import inspect
    import itertools
    import sys
    from qibo.gates.abstract import Gate
    gg = sys.modules["qibo.gates.gates"]
    grid = [0.0, np.pi / 2, np.pi, 3 * np.pi / 2]
    checked = 0
    for name, cls in vars(gg).items():
        if not (inspect.isclass(cls) and issubclass(cls, Gate)) or name.startswith("_") or cls.__module__ != gg.__name__:
            continue
        if name in ("Unitary", "GeneralizedRBS", "GeneralizedfSim", "Align", "M", "I", "FanOut"):
            continue
        ps = [p for p in list(inspect.signature(cls.__init__).parameters.values())[1:] if p.name != "trainable"]
        if any(p.kind in (p.VAR_POSITIONAL, p.VAR_KEYWORD) for p in ps):
            continue
        nq = len([p for p in ps if p.name in ("q", "q0", "q1", "q2")])
        npar = len(ps) - nq
        if nq == 0 or nq > 3 or npar > 3:
            continue
        false_neg = false_pos = None
        for vals in itertools.product(range(4), repeat=npar):
            try:
                g = cls(*range(nq), *[grid[v] for v in vals])
                U = np.asarray(g.matrix())
            except Exception:
                continue
            if U.shape != (2 ** nq, 2 ** nq):
                continue
            truth = is_clifford_matrix(U, nq)
            checked += 1
            run.case(["flag_exact", name, list(vals), bool(g.clifford), truth])
            if truth and not g.clifford and false_neg is None:
                false_neg = vals
            if g.clifford and not truth and false_pos is None:
                false_pos = vals
        lab = lambda vals: ",".join(["0", "pi/2", "pi", "3pi/2"][v] for v in vals)
        if false_neg is not None:
            run.notes.setdefault("flag_exact_refused", []).append(f"{name}({lab(false_neg)})")
        if false_pos is not None and name not in ROT2:
            report(run, f"flag_exact:accepted:{name}", f"{name}({lab(false_pos)}).clifford is True but the operator does not map Paulis to Paulis",
                   {"kind": "flag_exact", "cls": name, "params": list(false_pos)})
    run.notes["flag_exact_checked"] = checked
    if "flag_exact_refused" in run.notes:
        run.notes["flag_exact_refused_note"] = ("classes that have Clifford instances on the grid but never (or not there) report `.clifford`: "
                                                "such circuits are refused (allowed by 'or refuses'; the flag is not 'exactly when' for them)")


# ---------------------------------------------------------------- rule-level probes (complete local truth tables)
STATIC_OP = {}
for _f in RULE1:
    STATIC_OP[_f] = ("1", f"m_{_f}")
for _f in RULE2:
    STATIC_OP[_f] = ("2", f"m_{_f}")
for _f in ROT1_RULES:
    STATIC_OP[_f] = ("1t", f"m_{_f}")
for _f in ROT2_RULES:
    STATIC_OP[_f] = ("2t", f"m_{_f}")


def probe_matrix(rng, n, qs):
    """rows: every assignment of the local bits (x,z at qs, r) with random bits elsewhere"""
    k = len(qs)
    rows = []
    for v in range(2 ** (2 * k + 1)):
        row = [rng.randint(0, 1) for _ in range(2 * n + 1)]
        bits = [(v >> j) & 1 for j in range(2 * k + 1)]
        for j, q in enumerate(qs):
            row[q], row[n + q] = bits[2 * j], bits[2 * j + 1]
        row[-1] = bits[-1]
        rows.append(row)
    return np.array(rows, dtype=np.uint8)


def sec_probes(run, rng, fnames):
    """every engine rule on a matrix that contains the complete local truth table, packed exactly as
    execute_circuit packs it; model (static rules + float dispatch) vs real, bit for bit"""
    eng = fresh_engine()
    a1, a2 = clifford_angles()
    extra = [1.0, 0.3, -0.0, 11 * np.pi / 2, 1e6, np.pi / 2 + 1, 7.0, -1.0]
    items, metas = [], []
    n = 3
    for f in fnames:
        if f not in STATIC_OP:
            continue
        kind, m = STATIC_OP[f]
        k = 1 if kind[0] == "1" else 2
        placements = [[2], [0]] if k == 1 else [[2, 0], [0, 1], [1, 2]]
        if run.tier == "thorough":
            placements = [[q] for q in range(n)] if k == 1 else [[a, b_] for a in range(n) for b_ in range(n) if a != b_]
        thetas = [None]
        if kind.endswith("t"):
            base = (a1 if k == 1 else a2) + ([a for a in a1 if a not in a2] if k == 2 else [])
            thetas = base + extra if run.tier == "thorough" else rng.sample(base, min(8, len(base))) + extra[:5]
        for qs in placements:
            for th in thetas:
                P = probe_matrix(rng, n, qs)
                packed = eng._clifford_pre_execution_reshape(P.copy())
                args = [packed] + qs + [n] + ([th] if th is not None else [])
                res = getattr(eng, f)(*args)
                if th is None:
                    opt = f"Op{k} {m} " + " ".join(str(q) for q in qs)
                    expect_none = False
                elif k == 1:
                    opt = f"Op1 ({m} {cfloat(th)}) {qs[0]}"
                    expect_none = False
                else:
                    opt = None
                if res is None:
                    if k == 2 and th is not None:
                        term = f"match {m} {cfloat(th)} with None => true | Some _ => false end"
                    else:
                        term = "false"
                else:
                    out = np.unpackbits(res, axis=0, count=P.shape[0])[:P.shape[0]]
                    if k == 2 and th is not None:
                        term = (f"match {m} {cfloat(th)} with Some f => llbeq (tab_bits (tab_op (Op2 f {qs[0]} {qs[1]}) {ctableau(P, n)})) "
                                f"{cmatrix(out)} | None => false end")
                    else:
                        term = f"llbeq (tab_bits (tab_op ({opt}) {ctableau(P, n)})) {cmatrix(out)}"
                lab = f"{f}{qs}{'' if th is None else float(th).hex()}"
                items.append((lab, term))
                metas.append((f, qs, None if th is None else float(th).hex()))
    bad = 0
    for k0 in range(0, len(items), 250):
        chunk = items[k0:k0 + 250]
        res, out = run.coq_bools(f"Probes_{k0 // 250}.v", COQ_HEADER, chunk)
        if res is None:
            run.oblige("correspondence:rule probes", False, "correspondence")
            run.find("probes:compile", "probe file does not compile", {"log": out[-800:]}, concrete=False)
            return
        for (lab, _), meta in zip(chunk, metas[k0:k0 + 250]):
            run.case(["probe"] + list(meta))
            if not res[lab]:
                bad += 1
                if bad <= 5:
                    run.find(f"probes:{meta[0]}", f"engine rule {meta[0]} on qubits {meta[1]} (theta={meta[2]}) differs from the verified rule on the "
                             "complete local truth table", {"kind": "probe", "fn": meta[0], "qubits": meta[1], "theta": meta[2]}, concrete=False)
    run.oblige(f"correspondence:every engine rule on its complete local truth table ({len(items)} rule x placement x angle)", bad == 0, "correspondence")
    run.sample({"probe": list(metas[len(metas) // 2])})


# ---------------------------------------------------------------- measurement on the real engine with recorded draws
class _NpProxy:
    """numpy with a recording np.random.randint (the engine's only source of randomness)"""

    def __init__(self, log, forced=None):
        self._log, self._forced = log, forced

    def __getattr__(self, k):
        return getattr(np, k)

    @property
    def random(self):
        outer = self

        class R:
            def __getattr__(self, k):
                return getattr(np.random, k)

            def randint(self, *a, **kw):
                if outer._forced is not None:
                    v = np.array([outer._forced.pop(0)])
                else:
                    v = np.random.randint(*a, **kw)
                outer._log.append(int(np.asarray(v).ravel()[0]))
                return v
        return R()


def engine_M(eng, T, qubits, n, forced=None):
    """real engine.M on a copy of the tableau; returns (sample, list of random draws)"""
    log = []
    saved = eng.np
    eng.np = _NpProxy(log, forced)
    try:
        s = eng.M(np.array(T, dtype=np.uint8), tuple(qubits), n)
    finally:
        eng.np = saved
    return [int(v) for v in s], log


def born_probability(psi, n, qubits, sample):
    P = (np.abs(psi) ** 2).reshape([2] * n)
    idx = [slice(None)] * n
    for q, v in zip(qubits, sample):
        idx[q] = int(v)
    return float(P[tuple(idx)].sum())


WITNESS_CIRCUITS = [
    # (label, n, gates, measured qubits)
    ("CNOT(0,1).H(0).CNOT(1,2).CNOT(0,1).M(2)", 3,
     [{"g": "CNOT", "q": [0, 1]}, {"g": "H", "q": [0]}, {"g": "CNOT", "q": [1, 2]}, {"g": "CNOT", "q": [0, 1]}], [2]),
    ("CNOT(0,1).H(0).CNOT(0,1).M(0,1)", 2,
     [{"g": "CNOT", "q": [0, 1]}, {"g": "H", "q": [0]}, {"g": "CNOT", "q": [0, 1]}], [0, 1]),
    ("H(0).CNOT(0,1).M(0,1)", 2, [{"g": "H", "q": [0]}, {"g": "CNOT", "q": [0, 1]}], [0, 1]),
    ("H(0).CNOT(0,1).CNOT(1,2).M(2,0,1)", 3, [{"g": "H", "q": [0]}, {"g": "CNOT", "q": [0, 1]}, {"g": "CNOT", "q": [1, 2]}], [2, 0, 1]),
]


def measure_terms(n, T, qs, sample, oracle):
    """Coq booleans: does the model instance reproduce the sample the real engine returned?"""
    tt, q, o, s = ctableau(T, n), cnats(qs), cbools(oracle), cbools(sample)
    def t(rs, det):
        return f"match measure {rs} {det} {n} {tt} {q} {o} with Some (s, _) => lbeq s {s} | None => false end"
    inv = (f"tableau_ok {n} {tt} && match measure rowsum_ag determined_spec {n} {tt} {q} {o} with "
           f"Some (_, T') => tableau_ok {n} T' | None => false end")
    # 0: engine before the repair (M_old)  1: engine as written now (M_real; = M_spec by theorem M_real_is_spec)
    # 2, 3: hybrids that isolate the two historical defects  4: commutation relations before / after M_spec
    return [t("rowsum_packed", "determined_real"), t("rowsum_bits", "determined_bits"),
            t("rowsum_ag", "determined_real"), t("rowsum_packed", "determined_spec"), inv]


def sec_circuits(run, rng):
    """random circuits over the whole Clifford library: final tableau model == real (bit for bit);
    stabilisers stabilise the state vector (test); generators; measurement samples"""
    from qibo import Circuit, gates
    from qibo.backends import CliffordBackend
    b = CliffordBackend(engine="numpy")
    eng = b.engine
    a1, a2 = clifford_angles()
    quick = run.tier == "quick"
    ncirc = 240 if quick else 1500
    nmax = 5 if quick else 8
    cases = []
    for (lab, n, descs, qs) in WITNESS_CIRCUITS:
        cases.append((lab, n, descs, qs))
    for j in range(ncirc):
        n = rng.randint(1, nmax)
        depth = rng.randint(1, 6 * n + 4)
        descs = random_descs(rng, n, depth, a1, a2)
        qs = list(range(n))
        rng.shuffle(qs)
        qs = qs[:rng.randint(1, n)]
        cases.append((None, n, descs, qs))
    tab_items, meas_items, metas = [], [], []
    sv_bad = gen_bad = 0
    for ci, (lab, n, descs, qs) in enumerate(cases):
        c = make_circuit(n, descs)
        try:
            T, res = real_tableau(b, c)
        except RuntimeError as e:
            report(run, "circuits:generator", "generator produced a circuit the backend refuses: " + str(e), {"descs": descs}, concrete=False)
            continue
        tab_items.append((f"tab{ci}", f"outcome_is (execute_circuit_at {HALF()} {n} {circuit_coq(c)}) {cmatrix(T)}"))
        # ---- tests against the state-vector backend
        psi = statevector(make_circuit(n, descs))
        d = stabiliser_defect(T, n, psi)
        if d > TOL:
            sv_bad += 1
            report(run, "tableau:statevector:" + (lab or f"random{min(sv_bad, 3)}"),
                   f"a stabiliser of the Clifford result does not stabilise the state-vector result (defect {d:.3g})",
                   {"kind": "circuit", "n": n, "descs": descs})
        if n <= 4 and ci % 4 == 0:
            G, ph = res.generators(return_array=True)
            for i in range(2 * n):
                row = T[i]
                M1 = np.array([pauli_apply(row[:n], row[n:2 * n], row[-1], e) for e in np.eye(2 ** n, dtype=complex)]).T
                if not np.array_equal(M1, np.asarray(ph[i] * G[i])):
                    gen_bad += 1
                    report(run, "generators:encoding", "symplectic_matrix_to_generators differs from the row encoding (-1)^r (x) i^{xz} X^x Z^z",
                           {"kind": "circuit", "n": n, "descs": descs, "row": i})
                    break
            if n <= 3:
                rho = np.asarray(res.state())
                if np.abs(rho - np.outer(psi, psi.conj())).max() > TOL:
                    report(run, "state:projector", "Clifford.state() differs from |psi><psi| of the state vector",
                           {"kind": "circuit", "n": n, "descs": descs})
        # ---- measurement: real engine.M with recorded draws
        sample, oracle = engine_M(eng, T, qs, n)
        p = born_probability(psi, n, qs, sample)
        terms = measure_terms(n, T, qs, sample, oracle)
        for k, t in enumerate(terms):
            meas_items.append((f"m{ci}_{k}", t))
        metas.append((ci, lab, n, descs, qs, sample, oracle, p))
        if ci < 3 or ci == len(WITNESS_CIRCUITS) + 1:
            run.sample({"circuit": [gate_desc(g) for g in c.queue][:10], "n": n, "measured": qs, "sample": sample, "draws": oracle,
                        "born_probability": round(p, 6)})
    # ---- Coq side
    tab_ok = True
    for k0 in range(0, len(tab_items), 120):
        chunk = tab_items[k0:k0 + 120]
        r_, out = run.coq_bools(f"Tableaux_{k0 // 120}.v", COQ_HEADER, chunk, timeout=900)
        if r_ is None:
            tab_ok = False
            run.find("tableau:compile", "tableau correspondence file does not compile", {"log": out[-800:]}, concrete=False)
            continue
        for (labk, _) in chunk:
            ci = int(labk[3:])
            run.case(["tableau", cases[ci][1], cases[ci][2]], nontrivial=len(cases[ci][2]) > 1)
            if not r_[labk]:
                tab_ok = False
                report(run, f"tableau:model:{min(ci, len(WITNESS_CIRCUITS) + 2)}", "final tableau of the real backend differs from the model",
                       {"kind": "circuit", "n": cases[ci][1], "descs": cases[ci][2]}, concrete=False)
    run.oblige(f"correspondence:final symplectic matrix model == CliffordBackend(numpy), {len(tab_items)} circuits, n <= {nmax}", tab_ok, "correspondence")
    run.oblige(f"test:stabiliser generators stabilise the state-vector result ({len(tab_items)} circuits, tol {TOL})", sv_bad == 0, "test")
    run.oblige("test:symplectic_matrix_to_generators == row encoding; Clifford.state() == projector (n <= 3)", gen_bad == 0, "test")
    mres = {}
    m_ok = True
    for k0 in range(0, len(meas_items), 400):
        chunk = meas_items[k0:k0 + 400]
        r_, out = run.coq_bools(f"Measure_{k0 // 400}.v", COQ_HEADER, chunk, timeout=900)
        if r_ is None:
            m_ok = False
            run.find("measure:compile", "measurement correspondence file does not compile", {"log": out[-800:]}, concrete=False)
            continue
        mres.update(r_)
    n_real = n_spec = n_neither = n_zero = n_inv = 0
    for (ci, lab, n, descs, qs, sample, oracle, p) in metas:
        if f"m{ci}_0" not in mres:
            continue
        rr_, ss_, sr_, rs_ = (mres[f"m{ci}_{k}"] for k in range(4))
        n_inv += mres[f"m{ci}_4"]
        run.case(["measure", n, descs, qs, sample], nontrivial=len(oracle) < len(qs))
        n_real += rr_
        n_spec += ss_
        if not rr_ and not ss_:
            n_neither += 1
        if p < TOL:
            n_zero += 1
            if rr_ and not ss_:
                mech = "determined_outcome" if sr_ else ("rowsum_packed" if rs_ else "determined_outcome+rowsum_packed")
            else:
                mech = "unexplained"
            key = f"measure:{mech}:" + (lab if lab else "random")
            report(run, key, f"sampled outcome {sample} of qubits {qs} has Born probability 0 in the state-vector result "
                   f"(n={n}, random draws {oracle}); mechanism: {mech}",
                   {"kind": "measure", "n": n, "descs": descs, "qubits": qs, "forced": oracle, "sample": sample})
    run.oblige(f"test:commutation relations (tableau_ok) hold for every final tableau of the backend and after the reference measurement "
               f"M_spec ({len(metas)} cases; instances of tableau_inv_gate / tableau_inv_M)", n_inv == len(metas), "test")
    if n_inv != len(metas):
        report(run, "tableau_inv:measure", "tableau_ok fails on a real final tableau or after M_spec", {}, concrete=False)
    run.notes["measurement"] = {"cases": len(metas), "engine == M_real (engine as written now; = Aaronson-Gottesman by M_real_is_spec)": n_spec,
                                "engine == M_old (engine before repair e7dd78371)": n_real, "neither": n_neither, "born_probability_zero": n_zero}
    if n_spec == len(metas):
        run.oblige(f"correspondence:engine.M == M_real with recorded draws, {len(metas)} measurements (samples bit for bit)", m_ok, "correspondence")
    elif n_real == len(metas):
        run.oblige("correspondence:engine.M == M_real", False, "correspondence")
        run.refuted += ["rowsum_ok (engine regressed to the packed-byte arithmetic)", "determined_outcome_ok (engine regressed to the XOR reduction)"]
        report(run, "measure:regression", f"engine.M behaves like the engine before repair e7dd78371 (model M_old) on all {len(metas)} cases",
               {"kind": "measure_regression"}, concrete=n_zero > 0)
    else:
        run.oblige("correspondence:engine.M == M_real", False, "correspondence")
        report(run, "measure:model", f"engine.M matches neither model consistently (M_real {n_spec}, M_old {n_real} of {len(metas)})", {}, concrete=False)
    # ---- public API: Clifford.samples() through sample_shots
    zero = 0
    views_bad = 0
    for j in range(12 if quick else 60):
        n = rng.randint(2, 4)
        descs = random_descs(rng, n, rng.randint(3, 5 * n), a1, a2)
        qs = rng.sample(range(n), rng.randint(1, n))
        c = make_circuit(n, descs)
        c.add(gates.M(*qs))
        psi = statevector(make_circuit(n, descs))
        smp = np.asarray(b.execute_circuit(c, nshots=6).samples())
        # views of the result object: exact consistency of samples / decimal samples / frequencies (binary and decimal)
        cc = make_circuit(n, descs)
        cc.add(gates.M(*qs))
        rv = b.execute_circuit(cc, nshots=9)
        sv = np.asarray(rv.samples())
        dec = [int("".join(str(int(v)) for v in row), 2) for row in sv]
        import collections
        ok_views = (list(np.asarray(rv.samples(binary=False)).ravel().astype(int)) == dec
                    and dict(rv.frequencies(binary=False)) == dict(collections.Counter(dec))
                    and dict(rv.frequencies(binary=True)) == dict(collections.Counter("".join(str(int(v)) for v in row) for row in sv))
                    and sv.shape == (9, len(qs)))
        views_bad += (not ok_views)
        run.case(["views", n, descs, qs, dec])
        for row in smp:
            run.case(["samples", n, descs, qs, [int(v) for v in row]])
            if born_probability(psi, n, qs, row) < TOL:
                zero += 1
                report(run, "measure:samples:random", f"Clifford.samples() returned {[int(v) for v in row]} for qubits {qs}: Born probability 0",
                       {"kind": "samples", "n": n, "descs": descs, "qubits": qs})
    run.notes["measurement"]["public_api_samples_with_zero_probability"] = zero
    run.oblige("correspondence:Clifford result views agree exactly: samples (one column per measured qubit, in the order given to M), "
               "decimal samples, frequencies (binary / decimal) are the counts of the sample rows", views_bad == 0, "correspondence")
    if views_bad:
        report(run, "views:consistency", "Clifford.samples()/frequencies() views are inconsistent with each other", {"kind": "views"}, concrete=False)


# ---------------------------------------------------------------- refusal of non-Clifford circuits
def non_clifford_gates(rng, n):
    from qibo import gates
    q = rng.randrange(n)
    c, t = rng.sample(range(n), 2) if n >= 2 else (0, 0)
    pool = [lambda: gates.T(q), lambda: gates.TDG(q), lambda: gates.RX(q, 0.3), lambda: gates.RY(q, rng.uniform(0.1, 1.4)),
            lambda: gates.RZ(q, np.pi / 4), lambda: gates.U3(q, 0.1, 0.2, 0.3), lambda: gates.U1(q, 0.7), lambda: gates.GPI(q, 0.4),
            lambda: gates.RX(q, np.float32(np.pi)), lambda: gates.RX(q, 3)]
    if n >= 2:
        pool += [lambda: gates.CRX(c, t, 0.3), lambda: gates.fSim(c, t, 0.3, 0.2), lambda: gates.CU1(c, t, 0.5), lambda: gates.RZZ(c, t, 0.3),
                 lambda: gates.SiSWAP(c, t), lambda: gates.CSX(c, t)]
    if n >= 3:
        a, b_, d = rng.sample(range(n), 3)
        pool += [lambda: gates.TOFFOLI(a, b_, d), lambda: gates.CCZ(a, b_, d), lambda: gates.X(d).controlled_by(a, b_)]
    return rng.choice(pool)()


def sec_reject(run, rng):
    from qibo import Circuit
    from qibo.backends import CliffordBackend
    b = CliffordBackend(engine="numpy")
    a1, a2 = clifford_angles()
    items, metas = [], []
    bad = 0
    for j in range(60 if run.tier == "quick" else 400):
        n = rng.randint(1, 5)
        descs = random_descs(rng, n, rng.randint(0, 10), a1, a2)
        pos = rng.randint(0, len(descs))
        c = Circuit(n)
        for d in descs[:pos]:
            c.add(make_gate(d))
        g = non_clifford_gates(rng, n)
        c.add(g)
        for d in descs[pos:]:
            c.add(make_gate(d))
        try:
            b.execute_circuit(c)
            outcome = "accepted"
        except RuntimeError as e:
            outcome = "rejected" if "non-Clifford" in str(e) else "error:" + str(e)[:60]
        except Exception as e:
            outcome = "error:" + type(e).__name__
        run.case(["reject", n, type(g).__name__, [float(p_) if isinstance(p_, (int, float)) else str(p_) for p_ in g.parameters], pos])
        if outcome != "rejected":
            bad += 1
            report(run, f"reject:{type(g).__name__}", f"a circuit containing the non-Clifford gate {type(g).__name__}{g.parameters} on {g.qubits} "
                   f"was not refused with RuntimeError ({outcome})", {"kind": "reject", "n": n, "gate": gate_desc(g)})
        items.append((f"rej{j}", f"is_rejected (execute_circuit_at {HALF()} {n} {circuit_coq(c)})"))
    res, out = run.coq_bools("Reject.v", COQ_HEADER, items)
    ok = res is not None and all(res.values())
    run.oblige(f"correspondence:circuits with one non-Clifford gate are rejected by model and backend ({len(items)} circuits)", ok and bad == 0, "correspondence")
    if res is None:
        run.find("reject:compile", "rejection file does not compile", {"log": out[-800:]}, concrete=False)
    elif not all(res.values()):
        report(run, "reject:model", "model accepts a circuit the backend rejects", {}, concrete=False)


# ---------------------------------------------------------------- collapsing measurement inside a circuit (repeated execution)
def sec_collapse(run, rng):
    """collapsing measurement: (1) H(0); M(0, collapse=True); M(0): both results of a shot must agree;
    (2) exact: engine.M(packed, qubits, n, collapse=True) with recorded draws leaves exactly the tableau of the model
    (M_real: sample and all 2n+1 rows incl. the scratch row, bit for bit)"""
    from qibo import Circuit, gates
    from qibo.backends import CliffordBackend
    b = CliffordBackend(engine="numpy")
    c = Circuit(1)
    c.add(gates.H(0))
    m1 = c.add(gates.M(0, collapse=True))
    c.add(gates.M(0))
    broken = False
    try:
        res = b.execute_circuit(c, nshots=24)
        mid = np.array(m1.samples()).ravel()
        fin = np.asarray(res.samples()).ravel()
        run.case(["collapse", mid.tolist(), fin.tolist()])
        if len(mid) != len(fin) or (mid != fin).any():
            broken = True
            report(run, "collapse:H(0).M(0,collapse=True).M(0)",
                   "Clifford backend: the collapsing mid-circuit measurement and the final measurement of the same qubit disagree within a shot "
                   f"(mid={mid.tolist()[:12]}, final={fin.tolist()[:12]}): the collapsed tableau is not written back / wrong row count",
                   {"kind": "collapse"})
            run.refuted.append("collapse_ok (observed on the real code)")
    except Exception as e:
        broken = True
        report(run, "collapse:raises:H(0).M(0,collapse=True).M(0)", f"collapsing measurement raises {type(e).__name__}: {e}", {"kind": "collapse"})
    run.oblige("test:H(0); M(0,collapse=True); M(0): mid-circuit and final result agree in every shot", not broken, "test")
    # (2) exact correspondence of the state written back
    eng = b.engine
    a1, a2 = clifford_angles()
    items, metas = [], []
    for j in range(40 if run.tier == "quick" else 250):
        n = rng.randint(1, 5 if run.tier == "quick" else 8)
        descs = random_descs(rng, n, rng.randint(1, 5 * n + 2), a1, a2)
        T, _ = real_tableau(b, make_circuit(n, descs))
        qs = rng.sample(range(n), rng.randint(1, n))
        packed = eng._clifford_pre_execution_reshape(T.copy())
        log = []
        saved = eng.np
        eng.np = _NpProxy(log)
        try:
            sample = [int(v) for v in eng.M(packed, tuple(qs), n, True)]
        except Exception as e:
            eng.np = saved
            report(run, "collapse:engine_raises", f"engine.M(collapse=True) raises {type(e).__name__}: {e}",
                   {"kind": "collapse_exact", "n": n, "descs": descs, "qubits": qs}, concrete=True)
            break
        finally:
            eng.np = saved
        after = eng._clifford_post_execution_reshape(packed, n)
        items.append((f"col{j}", f"match M_real {n} {ctableau(T, n)} {cnats(qs)} {cbools(log)} with "
                                 f"Some (s, T') => lbeq s {cbools(sample)} && llbeq (tab_bits T') {cmatrix(after)} | None => false end"))
        metas.append((n, descs, qs, log))
    if items:
        res_, out = run.coq_bools("Collapse.v", COQ_HEADER, items, timeout=900)
        ok = res_ is not None and all(res_.values())
        for m in metas:
            run.case(["collapse_exact"] + list(m))
        run.oblige(f"correspondence:engine.M(collapse=True) writes back exactly the tableau of M_real ({len(items)} cases, all 2n+1 rows)", ok, "correspondence")
        if res_ is None:
            run.find("collapse:compile", "collapse correspondence file does not compile", {"log": out[-800:]}, concrete=False)
        elif not ok:
            k = [i for i, (lab, _) in enumerate(items) if not res_[lab]][0]
            n, descs, qs, log = metas[k]
            report(run, "collapse:state", "the tableau left by engine.M(collapse=True) differs from the model (sample or collapsed state)",
                   {"kind": "collapse_exact", "n": n, "descs": descs, "qubits": qs, "forced": log}, concrete=False)


def sec_repeated(run):
    """execute_circuit_repeated: the per-gate results of the final measurements (register_samples) against the state vector"""
    from qibo import Circuit, gates
    from qibo.backends import CliffordBackend, NumpyBackend
    cases = [("X(0).M(1,collapse=True).M(1,0)", 2, [("X", [0])], [1], [[1, 0]]),
             ("X(1).H(0).M(0,collapse=True).M(1)", 3, [("X", [1]), ("H", [0])], [0], [[1]]),
             ("X(2).M(0,collapse=True).M(2).M(1)", 3, [("X", [2])], [0], [[2], [1]])]
    crashes = []
    for lab, n, gs, mid, finals in cases:
        def mk():
            c = Circuit(n)
            for g, q in gs:
                c.add(getattr(gates, g)(*q))
            c.add(gates.M(*mid, collapse=True))
            for f in finals:
                c.add(gates.M(*f))
            return c
        c0 = mk()
        NumpyBackend().execute_circuit(c0, nshots=8)
        want = [np.asarray(m.result.samples()).tolist() for m in c0.measurements]
        c1 = mk()
        try:
            CliffordBackend(engine="numpy").execute_circuit(c1, nshots=8)
            got = [np.asarray(m.result.samples()).tolist() for m in c1.measurements]
        except Exception as e:
            crashes.append(f"{lab}: {type(e).__name__}: {str(e)[:80]}")
            run.case(["repeated", lab, "raises"])
            continue
        run.case(["repeated", lab, got])
        if got != want:     # the circuits are deterministic on the final registers
            report(run, f"repeated:columns:{lab}", f"execute_circuit_repeated registers the samples of the final measurement gates by qubit id "
                   f"instead of by position (samples[:, meas.target_qubits]): {lab} gives {got[0][:3]}..., state vector gives {want[0][:3]}...",
                   {"kind": "repeated", "case": lab})
    run.oblige(f"test:execute_circuit_repeated registers the final measurement results as the state vector dictates ({len(cases)} deterministic circuits)",
               not crashes and not any(k.startswith("repeated:columns") for k in run.notes.get("reported_keys", [])), "test")
    if crashes:
        report(run, "repeated:raises:" + crashes[0].split(":")[0], "execute_circuit_repeated raises on a valid Clifford circuit with a collapsing "
               "measurement (refusal by exception): " + "; ".join(crashes), {"kind": "repeated"}, concrete=True)
        run.notes["repeated_execution_crash"] = crashes + ["(refusal by exception: same column indexing, IndexError when a qubit id exceeds the number of measured columns)"]


def sec_shots(run, rng):
    """repeated execution with collapsing measurements, exact: every engine.M call of every shot is recorded (qubits, collapse flag,
    random draws, returned sample); the Coq model ModelShot.run_shot, fed with the same draws, must return the same mid-circuit
    and final samples; the per-gate results visible through the public API must be those samples, column by column"""
    from qibo import Circuit, gates
    from qibo.backends import CliffordBackend
    b = CliffordBackend(engine="numpy")
    eng = b.engine
    a1, a2 = clifford_angles()
    items, metas = [], []
    api_bad = 0
    nshots = 3
    for j in range(30 if run.tier == "quick" else 150):
        n = rng.randint(1, 4)
        ncol = rng.randint(1, 2)
        segs = [random_descs(rng, n, rng.randint(0, 3 * n), a1, a2) for _ in range(ncol + 1)]
        c = Circuit(n)
        steps = []          # ("g", gate) | ("c", M gate)
        mids = []
        for k in range(ncol + 1):
            for d in segs[k]:
                g = make_gate(d)
                c.add(g)
                steps.append(("g", g))
            if k < ncol:
                qs = rng.sample(range(n), rng.randint(1, n))
                m = gates.M(*qs, collapse=True)
                c.add(m)
                mids.append(m)
                steps.append(("c", m))
        fq_all = rng.sample(range(n), rng.randint(1, n))
        cut = rng.randint(1, len(fq_all))
        finals = [fq_all[:cut]] + ([fq_all[cut:]] if cut < len(fq_all) else [])
        fgates = [gates.M(*f) for f in finals]
        for fg in fgates:
            c.add(fg)
        calls = []
        orig = eng.M

        def wrapped(state, qubits, nqubits, collapse=False, _orig=orig):
            log = []
            saved = eng.np
            eng.np = _NpProxy(log)
            try:
                smp = _orig(state, qubits, nqubits, collapse)
            finally:
                eng.np = saved
            calls.append((tuple(int(q) for q in qubits), bool(collapse), log, [int(v) for v in smp]))
            return smp
        eng.M = wrapped
        try:
            b.execute_circuit(c, nshots=nshots)
        except Exception as e:
            report(run, "shots:raises", f"execute_circuit_repeated raises {type(e).__name__}: {e}",
                   {"kind": "shots", "n": n, "segs": segs}, concrete=True)
            continue
        finally:
            eng.M = orig
        per = ncol + 1
        if len(calls) != nshots * per:
            report(run, "shots:calls", f"unexpected number of engine.M calls ({len(calls)} for {nshots} shots x {per})", {"kind": "shots"}, concrete=False)
            continue
        # public API: per-gate results are the recorded samples, column by column in the order given to M
        for i in range(nshots):
            shot = calls[i * per:(i + 1) * per]
            for k, m in enumerate(mids):
                got = [int(v) for v in np.asarray(m.result.samples()[i]).ravel()]
                srt = sorted(m.target_qubits)      # the gate measures sorted qubits and re-orders the bits to target order
                want = [shot[k][3][srt.index(q)] for q in m.target_qubits]
                if got != want or shot[k][0] != tuple(srt) or not shot[k][1]:
                    api_bad += 1
            fin = shot[-1]
            if fin[0] != tuple(fq_all) or fin[1]:
                api_bad += 1
            pos = 0
            for fg, f in zip(fgates, finals):
                got = [int(v) for v in np.asarray(fg.result.samples())[i]]
                if got != fin[3][pos:pos + len(f)]:
                    api_bad += 1
                pos += len(f)
            # Coq: the same shot in the model
            prog = []
            k = 0
            for kind, g in steps:
                if kind == "g":
                    prog.append(f"PGate {gate_coq(g)}")
                else:
                    prog.append(f"PCollapse {cnats(shot[k][0])} {cbools(shot[k][2])}")
                    k += 1
            ptxt = "(@nil step)" if not prog else "[" + ";\n   ".join(prog) + "]"
            outs = "(@nil (list bool))" if not ncol else "[" + "; ".join(cbools(shot[k_][3]) for k_ in range(ncol)) + "]"
            items.append((f"shot{j}_{i}", f"match run_shot {HALF()} {n} {ptxt} {cnats(fin[0])} {cbools(fin[2])} with "
                                          f"Some (outs, s) => llbeq outs {outs} && lbeq s {cbools(fin[3])} | None => false end"))
            metas.append((n, len(steps), [list(x[0]) for x in shot]))
    if api_bad:
        report(run, "shots:api", "the per-gate results of a repeated execution are not the samples the engine returned (column order / shot order)",
               {"kind": "shots"}, concrete=False)
    run.oblige(f"correspondence:public per-gate results of repeated execution == recorded engine samples, by column position ({len(items)} shots)",
               api_bad == 0, "correspondence")
    ok = True
    hdr = COQ_HEADER + "From QV Require Import C12.ModelShot.\n"
    for k0 in range(0, len(items), 150):
        res_, out = run.coq_bools(f"Shots_{k0 // 150}.v", hdr, items[k0:k0 + 150], timeout=900)
        if res_ is None:
            ok = False
            run.find("shots:compile", "shot correspondence file does not compile", {"log": out[-800:]}, concrete=False)
            continue
        for (lab, _), m in zip(items[k0:k0 + 150], metas[k0:k0 + 150]):
            run.case(["shot"] + list(m))
            if not res_[lab]:
                ok = False
                report(run, "shots:model", "a shot of the repeated execution differs from ModelShot.run_shot fed with the same random draws",
                       {"kind": "shots", "case": list(m)}, concrete=False)
    run.oblige(f"correspondence:every shot (gates, collapsing M with write-back, final sampling) == ModelShot.run_shot with the recorded draws "
               f"({len(items)} shots)", ok, "correspondence")
    if metas:
        run.sample({"shot": {"n": metas[0][0], "steps": metas[0][1], "engine.M calls (qubits)": metas[0][2]}})


# ---------------------------------------------------------------- stim engine
STIM_OK = ["H", "S", "X", "Y", "Z", "I", "CNOT", "CY", "CZ", "SWAP", "iSWAP"]


def sec_stim(run, rng):
    from qibo import Circuit, gates
    from qibo.backends import CliffordBackend
    try:
        bs = CliffordBackend(engine="stim")
    except Exception as e:
        run.notes["stim"] = f"stim engine not available: {e}"
        return
    b = CliffordBackend(engine="numpy")
    bad = 0
    cnt = 60 if run.tier == "quick" else 400
    for j in range(cnt):
        n = rng.randint(1, 6)
        descs = []
        for _ in range(rng.randint(1, 25)):
            g = rng.choice(STIM_OK)
            if g in ("CNOT", "CY", "CZ", "SWAP", "iSWAP"):
                if n < 2:
                    continue
                descs.append({"g": g, "q": rng.sample(range(n), 2)})
            else:
                descs.append({"g": g, "q": [rng.randrange(n)]})
        descs.append({"g": rng.choice(["H", "S", "X", "I"]), "q": [n - 1]})   # stim sizes its tableau by the highest qubit used
        T1, _ = real_tableau(b, make_circuit(n, descs))
        T2 = np.asarray(bs.execute_circuit(make_circuit(n, descs)).symplectic_matrix).astype(np.uint8)
        run.case(["stim", n, descs])
        if T1.shape != T2.shape or not np.array_equal(T1, T2):
            bad += 1
            report(run, "stim:tableau", "stim engine and numpy engine give different tableaux", {"kind": "stim", "n": n, "descs": descs})
    run.oblige(f"test:stim engine tableau == numpy engine tableau ({cnt} circuits over {STIM_OK})", bad == 0, "test")
    # idle highest qubit: stim.Tableau.from_circuit sizes the tableau by the highest qubit that is used
    c = Circuit(2)
    c.add(gates.H(0))
    try:
        r_ = bs.execute_circuit(c)
        run.case(["stim_idle", int(r_.nqubits)])
        if int(r_.nqubits) != 2:
            report(run, "stim:idle_top_qubit:Circuit(2).H(0)", f"stim engine: Circuit(2) with only H(0) yields a Clifford object on {r_.nqubits} qubit(s): "
                   "the tableau is sized by the highest qubit used, idle top qubits are dropped", {"kind": "stim_idle"})
    except Exception as e:
        run.notes["stim_idle"] = f"refused: {type(e).__name__}"
    # names the stim path cannot express are refused by an exception of stim; controlled gates are not
    refused = []
    for mk in (lambda: gates.SDG(0), lambda: gates.SX(0), lambda: gates.RX(0, np.pi / 2), lambda: gates.ECR(0, 1), lambda: gates.T(0),
               lambda: gates.M(0)):
        c = Circuit(2)
        g = mk()
        c.add(g)
        try:
            bs.execute_circuit(c)
            refused.append(f"{type(g).__name__}: accepted")
        except Exception as e:
            refused.append(f"{type(g).__name__}: {type(e).__name__}")
    run.notes["stim_refusals"] = refused
    c = Circuit(3)
    for q in range(3):
        c.add(gates.H(q))
    c.add(gates.Z(2).controlled_by(0, 1))
    try:
        T = np.asarray(bs.execute_circuit(c).symplectic_matrix).astype(np.uint8)
        c2 = Circuit(3)
        for q in range(3):
            c2.add(gates.H(q))
        c2.add(gates.Z(2).controlled_by(0, 1))
        d = stabiliser_defect(T, 3, statevector(c2))
        if d > 1e-6:
            report(run, "controlled_flag:stim:Z.controlled_by(0,1)", "stim engine: Z(2).controlled_by(0,1) is appended as `Z 0 1 2` (three bare Z gates); "
                   f"no Clifford test at all on the stim path (defect {d:.3f})", {"kind": "stim_controlled"})
    except Exception as e:
        run.notes["stim_controlled"] = f"refused: {type(e).__name__}"


# ---------------------------------------------------------------- tableau -> circuit
AG_CODE = {"H": 0, "S": 1, "SDG": 2, "X": 3, "Y": 4, "Z": 5, "CNOT": 6, "SWAP": 7}


def agate_codes(circ):
    """real circuit -> [(tag, q0, q1)] as ModelAG04.agate_code, or None if a gate outside the AG04 alphabet occurs"""
    out = []
    for g in circ.queue:
        nm = type(g).__name__
        if nm not in AG_CODE:
            return None
        qs = list(g.qubits)
        out.append((AG_CODE[nm], int(qs[0]), int(qs[1]) if len(qs) > 1 else 0))
    return out


def sec_to_circuit(run, rng):
    """tableau -> circuit.  AG04: the gate list of Clifford.to_circuit("AG04") equals the Coq model ModelAG04.ag04 gate
    for gate (structural correspondence), the model's sweeps end in the identity tableau and the model circuit
    re-simulates to the input tableau (all rows, exact, in Coq); BM20: re-simulation on the real backend (test)."""
    from qibo.backends import CliffordBackend
    from qibo.quantum_info.clifford import Clifford
    b = CliffordBackend(engine="numpy")
    a1, a2 = clifford_angles()
    bad = exact = 0
    cnt = 60 if run.tier == "quick" else 400
    done = 0
    items, metas = [], []
    for j in range(cnt):
        n = rng.randint(1, 5 if run.tier == "quick" else 7)
        descs = random_descs(rng, n, rng.randint(1, 6 * n), a1, a2)
        T, res = real_tableau(b, make_circuit(n, descs))
        psi = statevector(make_circuit(n, descs))
        for alg in ("AG04", "BM20"):
            if alg == "BM20" and n > 3:
                continue
            try:
                circ = Clifford(T.copy(), _backend=b).to_circuit(alg)
            except Exception as e:
                bad += 1
                report(run, f"to_circuit:{alg}:raises", f"to_circuit({alg}) raised {type(e).__name__}: {e}", {"kind": "to_circuit", "n": n, "descs": descs, "alg": alg})
                continue
            T2, _ = real_tableau(b, circ)
            done += 1
            run.case(["to_circuit", alg, n, descs])
            same_stab = np.array_equal(T[n:2 * n], T2[n:2 * n])
            exact += bool(np.array_equal(T[:2 * n], T2[:2 * n]))
            d = stabiliser_defect(T, n, statevector(circ)) if not same_stab else 0.0
            if d > TOL:
                bad += 1
                report(run, f"to_circuit:{alg}", f"the circuit produced by to_circuit({alg}) does not prepare the stabiliser state of the tableau "
                       f"(defect {d:.3g})", {"kind": "to_circuit", "n": n, "descs": descs, "alg": alg})
            if alg == "AG04":
                codes = agate_codes(circ)
                tt = ctableau(T, n)
                if codes is None:
                    items.append((f"ag{j}", "false"))
                else:
                    lit = "(@nil (nat * nat * nat))" if not codes else "[" + "; ".join(f"({a}, {q0}, {q1})%nat" for a, q0, q1 in codes) + "]"
                    items.append((f"ag{j}", f"code_eqb (map agate_code (ag04 {n} {tt})) {lit} "
                                            f"&& tab_eqb (run_agates (ag04 {n} {tt}) (zero_state {n})) {tt} "
                                            f"&& ((Nat.eqb {n} 1) || tab_eqb (fst (ag04_sweeps {n} {tt})) (zero_state {n}))"))
                metas.append((n, descs))
    run.oblige(f"test:to_circuit(AG04/BM20) re-simulates to the same stabiliser state on the real backend ({done} conversions, {exact} with identical tableau)", bad == 0, "test")
    hdr = COQ_HEADER + "From QV Require Import C12.ModelAG04.\n" + \
        "Fixpoint code_eqb (a b : list (nat * nat * nat)) : bool := match a, b with [] , [] => true | (x, y, z) :: a', (x', y', z') :: b' => " \
        "Nat.eqb x x' && Nat.eqb y y' && Nat.eqb z z' && code_eqb a' b' | _, _ => false end.\n"
    ok = True
    for k0 in range(0, len(items), 100):
        res_, out = run.coq_bools(f"AG04_{k0 // 100}.v", hdr, items[k0:k0 + 100], timeout=900)
        if res_ is None:
            ok = False
            run.find("to_circuit:AG04:compile", "AG04 correspondence file does not compile", {"log": out[-800:]}, concrete=False)
            continue
        for (lab, _), (n, descs) in zip(items[k0:k0 + 100], metas[k0:k0 + 100]):
            run.case(["ag04_model", n, descs])
            if not res_[lab]:
                ok = False
                report(run, "to_circuit:AG04:model", "Clifford.to_circuit('AG04') differs from the Coq model (gate list), or the model circuit does not "
                       "re-simulate to the input tableau", {"kind": "to_circuit", "n": n, "descs": descs, "alg": "AG04"}, concrete=False)
    run.oblige(f"correspondence:to_circuit('AG04') gate list == ModelAG04.ag04, sweeps end in the identity tableau, model circuit re-simulates "
               f"to the input tableau exactly ({len(items)} tableaux)", ok, "correspondence")


# =====================================================================================
# 4. entry points
# =====================================================================================
RULE_TEXT = ("random circuits over the Clifford library (H X Y Z S SDG SX SXDG I, RX/RY/RZ at flagged fl(k*pi/2) in both spellings, CNOT CY CZ SWAP "
             "iSWAP FSWAP ECR, CRX/CRY/CRZ at flagged fl(k*pi)), random qubit placements and measured subsets in random order; every engine rule on "
             "its complete local truth table; flags over the gate catalogue x 0..2 controls; floats: random bit patterns, neighbours of k*pi/2, "
             "specials. A case is non-trivial if it has more than one gate / a determined outcome / a distinct input; distinct by hash of the input")


def main(run):
    rng = random.Random(run.seed)
    run.trusted += ["Coq 8.16.1 kernel incl. primitive floats/int63 and vm_compute",
                    "harness/c12.py translator of _clifford_operations.py (fail-closed; cross-checked by the probe correspondence on the real functions)",
                    "extraction of gate attributes (class name, init_args, control/target qubits, parameters[0], init_kwargs['theta']) by the harness",
                    "Pauli.v: meaning of 'gate on qubits' and of a tableau row as operators on amplitude functions (list bool -> Gaussian integer)",
                    "gate matrices of Pauli.v (scaled Gaussian integers) compared with gate.matrix() numerically (test)",
                    "numpy state-vector backend as the reference of the tests labelled 'test' (tolerance %g)" % TOL]
    run.assumptions += ["floats are modelled only in the flag and the angle dispatch; operators are exact (rotation gates mean their exact multiple of pi/2)",
                        "PauliNoiseChannel, execute_circuit_repeated and collapsing measurements are outside the Coq model (collapse observed by a test)",
                        "stim is an external simulator (compared, not verified)"]
    import time as _time
    walls = {}

    def timed(name, fn, *args):
        t0 = _time.time()
        r_ = fn(*args)
        walls[name] = round(_time.time() - t0, 1)
        return r_
    timed("constants", sec_constants, run)
    tr = timed("translate+bridge", sec_translate, run)
    fnames = tr.order if tr is not None else list(STATIC_OP)
    timed("static", sec_static, run)
    timed("float_validation", sec_float_validation, run, rng)
    timed("flag_sweep", sec_flag_sweep, run)
    timed("flag_witnesses", sec_flag_witnesses, run)
    timed("flags", sec_flags, run)
    timed("flag_exact", sec_flag_exact, run)
    timed("probes", sec_probes, run, rng, fnames)
    timed("matrices", sec_matrices, run)
    timed("circuits+measure", sec_circuits, run, rng)
    timed("reject", sec_reject, run, rng)
    timed("collapse", sec_collapse, run, rng)
    timed("repeated", sec_repeated, run)
    timed("shots", sec_shots, run, rng)
    timed("stim", sec_stim, run, rng)
    timed("to_circuit", sec_to_circuit, run, rng)
    # extension streams (history / non-mutation / accessor purity / measurement orders / special angles / channels);
    # own generator so that the streams above are unchanged
    from harness import c12_hist
    c12_hist.main_sections(run, random.Random(run.seed * 7919 + 12), timed)
    run.notes["section_wall_s"] = walls
    run.notes.pop("reported_keys", None)
    run.axioms.discard("Axioms")
    return run.finish(level="proof", rule=RULE_TEXT)


# ---------------------------------------------------------------- static theorems and matrix tie
def sec_static(run):
    names = vcore.props_theorems("C12/Props.v")
    ok, res = vcore.static_assumptions("C12/Props")
    run.checker_cmds.append("make theories/C12/Props.vo ; coqc _build/assumptions/C12_Props_pa.v")
    closed = 0
    for nm in names:
        run.oblige(f"theorem:{nm}", ok and nm in res, "theorem")
        txt = res.get(nm, "")
        if txt.startswith("Closed"):
            closed += 1
        for m in re.finditer(r"([A-Za-z_][\w.]*) :", txt):
            run.axioms.add(m.group(1))
    run.notes["static_theorems"] = {"count": len(names), "closed_under_global_context": closed,
                                    "others": "only kernel primitives of PrimFloat/PrimInt63 (float model), no Axiom/Admitted"}
    if not ok:
        run.find("static:assumptions", "Print Assumptions file for C12/Props does not compile", {}, concrete=False)
    run.not_proved += [
        "uniqueness of the state stabilised by n independent commuting generators (standard; not formalised)",
        "tableau -> circuit, BM20 (n <= 3): test only (AG04 is proved: ag04_ok, and its model is tied gate for gate)",
        "flag_sound / flag_complete_K / controlled_flag_ok / cr_flag_ok: REFUTED (open findings)"]


def sec_matrices(run):
    """the scaled Gaussian-integer matrices of Pauli.v against gate.matrix() of the real gates (test, 1e-12)"""
    from qibo import gates
    s2 = math.sqrt(2.0)
    rows = [("M_I", gates.I(0), 1), ("M_H", gates.H(0), s2), ("M_X", gates.X(0), 1), ("M_Y", gates.Y(0), 1), ("M_Z", gates.Z(0), 1),
            ("M_S", gates.S(0), 1), ("M_SDG", gates.SDG(0), 1), ("M_SX", gates.SX(0), 2), ("M_SXDG", gates.SXDG(0), 2),
            ("M_CNOT", gates.CNOT(0, 1), 1), ("M_CY", gates.CY(0, 1), 1), ("M_CZ", gates.CZ(0, 1), 1), ("M_SWAP", gates.SWAP(0, 1), 1),
            ("M_iSWAP", gates.iSWAP(0, 1), 1), ("M_FSWAP", gates.FSWAP(0, 1), 1), ("M_ECR", gates.ECR(0, 1), s2)]
    for j in range(4):
        sc = s2 if j % 2 else 1
        rows += [(f"(M_RX {j})", gates.RX(0, j * np.pi / 2), sc), (f"(M_RY {j})", gates.RY(0, j * np.pi / 2), sc),
                 (f"(M_RZ {j})", gates.RZ(0, j * np.pi / 2), sc),
                 (f"(M_CRX {j})", gates.CRX(0, 1, j * np.pi), 1), (f"(M_CRY {j})", gates.CRY(0, 1, j * np.pi), 1),
                 (f"(M_CRZ {j})", gates.CRZ(0, 1, j * np.pi), 1)]
    hdr = COQ_HEADER + "From QV Require Import Base.Mat Base.Zi C12.Pauli.\n"
    vals = run.coq_eval("Matrices.v", hdr, [t for t, _, _ in rows])
    if vals is None:
        run.oblige("test:gate matrices of Pauli.v", False, "test")
        run.find("matrices:compile", "matrix file does not compile", {}, concrete=False)
        return
    bad = []
    for (t, g, sc), v in zip(rows, vals):
        v2 = re.sub(r"[()%Z]", "", v)
        nums = [complex(int(a), int(b)) for a, b in re.findall(r"(-?\d+), (-?\d+)", v2)]
        M = np.asarray(g.matrix()) * sc
        run.case(["matrix", t])
        if len(nums) != M.size or np.abs(np.array(nums).reshape(M.shape) - M).max() > 1e-12:
            bad.append(t)
    run.oblige(f"test:the {len(rows)} gate matrices of Pauli.v == scale * gate.matrix() (tol 1e-12)", not bad, "test")
    if bad:
        run.find("matrices:" + bad[0], f"gate matrices of the Coq development differ from gate.matrix(): {bad}", {"kind": "matrices"}, concrete=False)


# ---------------------------------------------------------------- replay
def replay(run, data):
    from qibo import Circuit, gates
    from qibo.backends import CliffordBackend
    b = CliffordBackend(engine="numpy")
    key, rp = data["key"], data.get("replay", {})
    kind = rp.get("kind")
    what = data.get("what", "")
    if kind == "measure":
        n, descs, qs = rp["n"], rp["descs"], rp["qubits"]
        T, _ = real_tableau(b, make_circuit(n, descs))
        psi = statevector(make_circuit(n, descs))
        sample, _ = engine_M(b.engine, T, qs, n, forced=list(rp["forced"]))
        run.case(["replay", key])
        if born_probability(psi, n, qs, sample) < TOL:
            run.find(key, what, rp)
    elif kind == "samples":
        n, descs, qs = rp["n"], rp["descs"], rp["qubits"]
        psi = statevector(make_circuit(n, descs))
        c = make_circuit(n, descs)
        c.add(gates.M(*qs))
        smp = np.asarray(b.execute_circuit(c, nshots=64).samples())
        run.case(["replay", key])
        if any(born_probability(psi, n, qs, row) < TOL for row in smp):
            run.find(key, what, rp)
    elif kind == "circuit":
        n, descs = rp["n"], rp["descs"]
        T, _ = real_tableau(b, make_circuit(n, descs))
        run.case(["replay", key])
        if stabiliser_defect(T, n, statevector(make_circuit(n, descs))) > TOL:
            run.find(key, what, rp)
    elif kind in ("flag_sound", "cr_flag"):
        sec_flag_witnesses(run)
    elif kind == "flag_complete":
        k = rp["k"]
        run.case(["replay", key])
        if not gates.RX(0, k * np.pi / 2).clifford:
            run.find(key, what, rp)
    elif kind in ("controlled_flag", "flag_semantics", "flags"):
        sec_flags(run)
    elif kind == "flag_exact":
        sec_flag_exact(run)
    elif kind in ("collapse", "collapse_exact"):
        sec_collapse(run, random.Random(data.get("seed", 0)))
    elif kind == "repeated":
        sec_repeated(run)
    elif kind == "shots":
        sec_shots(run, random.Random(data.get("seed", 0)))
    elif kind in ("stim", "stim_controlled", "stim_idle"):
        sec_stim(run, random.Random(data.get("seed", 0)))
    elif kind == "reject":
        sec_reject(run, random.Random(data.get("seed", 0)))
    elif kind == "to_circuit":
        sec_to_circuit(run, random.Random(data.get("seed", 0)))
    elif __import__("harness.c12_hist", fromlist=["replay"]).replay(run, data):
        pass
    else:
        return main(run)
    run.findings = [f for f in run.findings if f.key == key] or run.findings
    run.oblige("replay executed", True, "replay")
    run.notes.pop("reported_keys", None)
    return run.finish(level="proof", rule="replay of one recorded case")
