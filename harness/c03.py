"""C03  Measurements follow the Born rule and are reported consistently.

Static part (coq/theories/C03): executable Gallina models of calculate_probabilities(_density_matrix),
_order_probabilities, samples_to_binary/decimal, calculate_frequencies, the register projections,
collapse_state/_append_zeros/M.apply and the state machine of a result object with its measurement
gates, plus the theorems of C03/Props.v (Born marginal for every ordered qubit list, conversions,
frequency totals, register views, view consistency over all accessor orders, collapse).

Correspondence (this file): the real numpy backend / Circuit / result objects are run on
Gaussian-integer (probabilities, collapse) or dyadic normalised (sampling) data and every output
is compared EXACTLY with the model evaluated by vm_compute inside Coq, and with the Coq
specification (Born marginal, projection, `explainsb`).  The random draws of the implementation
(np.random.choice, np.random.shuffle, sample_frequencies) are recorded and fed to the model.

Round-5 streams (harness/c03_g.py, families G / C / D): near_exact + near_float = collapsing measurements with outcome
probabilities 1 - 10^-k and 10^-k (both outcomes forced, sv and dm, entangled partners) against the exact projection;
routes = every view incl. the per-gate handles for every construction route of a result object x cyclic / non-ascending
register layouts (model C03/ModelHandles.v, theorems C03/PropsHandles.v).  views / collapse / symbols / repeated also
draw cyclic 3-/4-qubit orders deterministically, views every third history as a density-matrix circuit.
"""
STATIC = ["C03/Props", "C03/Check", "C03/PropsHandles"]
import collections
import contextlib
import random
import re

import numpy as np

from lib import vcore

HEADER = ("From Coq Require Import List ZArith Bool.\nImport ListNotations.\n"
          "From QV Require Import Base.Mat Base.Zi C03.ModelSamples C03.ModelProbs C03.ModelCollapse "
          "C03.ModelResult C03.ModelCircuit C03.ModelRepeated C03.Check.\n")

LIMIT = 2 ** 50


# ------------------------------------------------------------------ Coq literals
def zlit(v):
    v = int(v)
    return f"{v}%Z" if v >= 0 else f"({v})%Z"


def z_list(l):
    return "[" + "; ".join(zlit(v) for v in l) + "]"


def nat_list(l):
    return "[" + "; ".join(str(int(v)) for v in l) + "]%nat" if len(l) else "(@nil nat)"


def nat_list_list(l):
    return "[" + "; ".join(nat_list(x) for x in l) + "]" if len(l) else "(@nil (list nat))"


def zi_lit(c):
    c = complex(c)
    re_, im_ = int(round(c.real)), int(round(c.imag))
    assert re_ == c.real and im_ == c.imag and abs(re_) < LIMIT and abs(im_) < LIMIT, c
    return f"({zlit(re_)}, {zlit(im_)})"


def zi_list(l):
    return "[" + "; ".join(zi_lit(c) for c in l) + "]"


def zi_mat(m):
    return "[" + "; ".join(zi_list(r) for r in m) + "]"


def bits_lit(b):
    return "[" + "; ".join("true" if int(x) else "false" for x in b) + "]" if len(b) else "(@nil bool)"


def bits_list(l):
    return "[" + "; ".join(bits_lit(b) for b in l) + "]" if len(l) else "(@nil (list bool))"


def counter_lit(c):
    items = sorted((int(k), int(v)) for k, v in c.items())
    return "[" + "; ".join(f"({k}, {v})%nat" for k, v in items) + "]" if items else "(@nil (nat * nat))"


def bcounter_lit(c):
    items = sorted((str(k), int(v)) for k, v in c.items())
    return ("[" + "; ".join(f"({bits_lit(k)}, {v}%nat)" for k, v in items) + "]") if items else "(@nil (list bool * nat))"


def parse_ints(s):
    return [int(x) for x in re.findall(r"-?\d+", s)]


def exact_ints(arr, scale=1):
    """floats that must be exact integers after scaling -> python ints (asserted)"""
    out = []
    for v in np.asarray(arr).ravel().tolist():
        w = v * scale
        assert w == int(w) and abs(w) < LIMIT, ("inexact value", v, scale)
        out.append(int(w))
    return out


# ------------------------------------------------------------------ data generators
PYTH = [(3, 4), (4, 3), (5, 12), (12, 5), (6, 8), (8, 15)]


def exact_amp(rng):
    """a Gaussian integer whose modulus is an exact float (so np.abs(.)**2 is exact)"""
    t = rng.random()
    if t < 0.15:
        return 0
    if t < 0.5:
        return rng.choice([-1, 1]) * rng.randint(1, 7)
    if t < 0.8:
        return 1j * rng.choice([-1, 1]) * rng.randint(1, 7)
    a, b = rng.choice(PYTH)
    return rng.choice([-1, 1]) * a + 1j * rng.choice([-1, 1]) * b


def gauss_state(rng, n):
    while True:
        psi = [exact_amp(rng) for _ in range(2 ** n)]
        if len({abs(complex(a)) for a in psi}) >= min(3, 2 ** n):
            return psi


def dyadic_state(rng, n, deterministic=False):
    """integers a_x (real or imaginary) with sum |a_x|^2 = 4^j: the float state a/2^j is exactly
    normalised and every probability is an exact dyadic float.  Returns (ints, j)."""
    dim = 2 ** n
    if deterministic:
        a = [0] * dim
        a[rng.randrange(dim)] = rng.choice([1, -1, 1j, -1j])
        return a, 0
    for _ in range(100000):
        vals = [rng.choice([0, 0, 1, 1, 1, 2, 2, 3, 4, 5, 6]) for _ in range(dim)]
        s = sum(v * v for v in vals)
        j = {1: 0, 4: 1, 16: 2, 64: 3, 256: 4}.get(s)
        if j is not None:
            return [v * rng.choice([1, -1, 1j, -1j]) for v in vals], j
    raise RuntimeError("no dyadic state found")


def ordered_sublist(rng, n, kmin=0, kmax=None, want_unsorted=False):
    kmax = n if kmax is None else min(kmax, n)
    for _ in range(50):
        k = rng.randint(kmin, kmax)
        qs = rng.sample(range(n), k)
        if not want_unsorted or qs != sorted(qs) or k < 2:
            return qs
    return qs


def random_registers(rng, n):
    """a partition of a non-empty subset of the qubits into 1..3 registers, in permuted order"""
    k = rng.randint(1, n)
    qs = rng.sample(range(n), k)
    nreg = rng.randint(1, min(3, k))
    cuts = sorted(rng.sample(range(1, k), nreg - 1)) if nreg > 1 else []
    regs, prev = [], 0
    for c in cuts + [k]:
        regs.append(qs[prev:c])
        prev = c
    return regs


CYCLIC_LAYOUTS = [[[2, 0, 1]], [[1, 2, 0]], [[2], [0], [1]], [[1], [2], [0]], [[2, 0], [1]], [[1], [2, 0]], [[1, 3, 0, 2]], [[3, 0], [2]]]
CYCLIC_LISTS = [[2, 0, 1], [1, 2, 0], [3, 0, 2], [1, 3, 0], [0, 3, 1]]


def backend():
    import qibo
    from qibo.backends import _Global
    qibo.set_backend("numpy")
    return _Global.backend()


# ------------------------------------------------------------------ oracle recording
class Recorder:
    """records what the implementation draws during one accessor call"""

    def __init__(self, be):
        self.be = be
        self.events = []
        self.depth = 0

    @contextlib.contextmanager
    def active(self):
        be = self.be
        orig_shots, orig_freq, orig_shuffle = be.sample_shots, be.sample_frequencies, np.random.shuffle
        rec = self

        def shots(probabilities, nshots):
            out = orig_shots(probabilities, nshots)
            if rec.depth == 0:
                rec.events.append(("shots", [int(x) for x in np.asarray(out).tolist()], np.array(probabilities, copy=True)))
            return out

        def freqs(probabilities, nshots):
            rec.depth += 1
            try:
                out = orig_freq(probabilities, nshots)
            finally:
                rec.depth -= 1
            rec.events.append(("freqs", collections.Counter(out), np.array(probabilities, copy=True)))
            return out

        def shuffle(x):
            orig_shuffle(x)
            rec.events.append(("shuffle", [int(v) for v in np.asarray(x).tolist()], None))

        be.sample_shots, be.sample_frequencies, np.random.shuffle = shots, freqs, shuffle
        try:
            yield self
        finally:
            # the instance attributes shadow the class methods: remove them again
            del be.sample_shots
            del be.sample_frequencies
            np.random.shuffle = orig_shuffle

    def take(self):
        ev, self.events = self.events, []
        return ev


# ------------------------------------------------------------------ histories on result objects
def make_circuit(n, regs, density_matrix=False):
    from qibo import Circuit, gates
    c = Circuit(n, density_matrix=density_matrix)
    for reg in regs:
        c.add(gates.M(*reg))
    return c


def out_term(kind, binary, registers, value, measurements, scale=1):
    """canonical Coq `out` term of a value returned by the implementation"""
    if kind == "samples":
        if registers:
            arrs = [np.asarray(value[m.register_name]) for m in measurements]
            if binary:
                return "ORegSamplesBin [" + "; ".join(bits_list(a.tolist()) for a in arrs) + "]"
            return "ORegSamplesDec " + nat_list_list([a.tolist() for a in arrs])
        a = np.asarray(value)
        return ("OSamplesBin " + bits_list(a.tolist())) if binary else ("OSamplesDec " + nat_list(a.tolist()))
    if kind == "freqs":
        if registers:
            cs = [value[m.register_name] for m in measurements]
            if binary:
                return "ORegFreqBin [" + "; ".join(bcounter_lit(c) for c in cs) + "]"
            return "ORegFreqDec [" + "; ".join(counter_lit(c) for c in cs) + "]"
        return ("OFreqBin " + bcounter_lit(value)) if binary else ("OFreqDec " + counter_lit(value))
    if kind == "probs":
        return "OProbs " + z_list(exact_ints(value, scale))
    raise ValueError(kind)


def b2s(b):
    return "true" if b else "false"


class HistoryRun:
    """executes a history of operations on ONE circuit object with the real code, recording the
    draws; produces the Coq history (with oracle payloads) and the implementation's outputs"""

    def __init__(self, be, n, regs, density_matrix=False):
        self.be, self.n, self.regs = be, n, regs
        self.density_matrix = density_matrix
        self.circuit = make_circuit(n, regs, density_matrix=density_matrix)
        self.results = []       # real result objects
        self.scales = []        # 4^j per result
        self.ops_coq, self.outs_coq, self.log = [], [], []
        self.rec = Recorder(be)
        self.problems = []
        self.handle_checks = []   # Coq booleans: MeasurementResult.frequencies() of the handles right after a frequency draw

    def execute(self, ints, j, nshots):
        if self.density_matrix:
            return self.execute_dm(ints, j, nshots)
        psi = np.array(ints, dtype=complex) / 2 ** j
        r = self.circuit(initial_state=psi.copy(), nshots=nshots)
        st = np.asarray(r.state())
        got = exact_ints(np.concatenate([st.real, st.imag]), 2 ** j)
        dim = 2 ** self.n
        fin = [complex(got[i], got[dim + i]) for i in range(dim)]
        if fin != [complex(a) for a in ints]:
            self.problems.append(("state", "result.state() differs from the executed state"))
        w = [int(abs(a) ** 2) for a in fin]
        self.results.append(r)
        self.scales.append(4 ** j)
        self.ops_coq.append(f"Exec {z_list(w)} {nshots}%nat")
        self.outs_coq.append("ODone")
        self.log.append({"op": "exec", "state_times_2^j": [str(a) for a in ints], "j": j, "nshots": nshots})
        return len(self.results) - 1

    def execute_dm(self, ints, j, nshots):
        """the same execution in density-matrix mode: rho = |psi><psi| (exact dyadic entries, scale 4^j)"""
        rho_int = [[complex(a) * complex(b).conjugate() for b in ints] for a in ints]
        rho = np.array(rho_int, dtype=complex) / 4 ** j
        r = self.circuit(initial_state=rho.copy(), nshots=nshots)
        st = np.asarray(r.state())
        if st.shape != rho.shape or not np.array_equal(st, rho):
            self.problems.append(("state", "result.state() differs from the executed density matrix"))
        w = [int(round(abs(complex(a)) ** 2)) for a in ints]
        self.results.append(r)
        self.scales.append(4 ** j)
        self.ops_coq.append(f"Exec {z_list(w)} {nshots}%nat")
        self.outs_coq.append("ODone")
        self.log.append({"op": "exec", "density_matrix": True, "state_times_2^j": [str(a) for a in ints], "j": j, "nshots": nshots})
        return len(self.results) - 1

    def adopt(self, r, ints, j, nshots):
        """register a result object that was produced elsewhere (parallel helpers) by executing
        self.circuit on the state ints/2^j"""
        st = np.asarray(r.state())
        got = exact_ints(np.concatenate([st.real, st.imag]), 2 ** j)
        dim = 2 ** self.n
        fin = [complex(got[i], got[dim + i]) for i in range(dim)]
        if fin != [complex(a) for a in ints]:
            self.problems.append(("state", "result.state() differs from the executed state"))
        w = [int(abs(a) ** 2) for a in fin]
        self.results.append(r)
        self.scales.append(4 ** j)
        self.ops_coq.append(f"Exec {z_list(w)} {nshots}%nat")
        self.outs_coq.append("ODone")
        self.log.append({"op": "exec", "state_times_2^j": [str(a) for a in ints], "j": j, "nshots": nshots})
        return len(self.results) - 1

    def accessor(self, kind, r, binary=True, registers=False, qubits=None):
        res = self.results[r]
        meas = self.circuit.measurements
        with self.rec.active():
            try:
                if kind == "samples":
                    val = res.samples(binary=binary, registers=registers)
                elif kind == "freqs":
                    val = res.frequencies(binary=binary, registers=registers)
                else:
                    val = res.probabilities(qubits)
            except Exception as e:  # noqa
                val = e
        ev = self.rec.take()
        entry = {"op": kind, "result": r, "binary": binary, "registers": registers}
        if kind == "probs":
            entry = {"op": kind, "result": r, "qubits": list(qubits)}
        if isinstance(val, Exception):
            self.ops_coq.append(self._op(kind, r, binary, registers, qubits, [], {}))
            self.outs_coq.append("OErr 100%nat")
            entry["raised"] = repr(val)[:200]
            self.log.append(entry)
            return val
        draw, fdraw = [], {}
        for (k, v, _p) in ev:
            if k in ("shots", "shuffle") and kind == "samples" and not draw:
                draw = v
            elif k == "freqs" and kind == "freqs" and not fdraw:
                fdraw = v
            else:
                self.problems.append(("oracle", f"unexpected draw {k} during {kind}"))
        if draw:
            entry["drawn"] = draw
        if fdraw:
            entry["drawn_frequencies"] = dict(sorted(fdraw.items()))
            # frequencies-first path: the global Counter was drawn and projected onto every register;
            # the handles returned by circuit.add must now show that projection (direct spec check)
            cfg = f"(mkcfg {self.n}%nat {nat_list_list(self.regs)})"
            hfs = []
            for m_, reg in zip(meas, self.regs):
                hf = m_.result.frequencies(binary=False)
                hfs.append(dict(sorted((int(k), int(v)) for k, v in hf.items())))
                self.handle_checks.append(f"handle_freq_okb {cfg} {nat_list(reg)} {counter_lit(fdraw)} {counter_lit(hf)} {res.nshots}%nat")
            entry["handle_frequencies_after_draw"] = hfs
        self.ops_coq.append(self._op(kind, r, binary, registers, qubits, draw, fdraw))
        self.outs_coq.append(out_term(kind, binary, registers, val, meas, self.scales[r]))
        self.log.append(entry)
        return val

    def final(self):
        fs = self.circuit._final_state
        idx = [i for i, r in enumerate(self.results) if r is fs]
        self.ops_coq.append("Final")
        self.outs_coq.append(f"OFinal (Some {idx[0]}%nat)" if idx else "OFinal None")
        self.log.append({"op": "final_state"})

    @staticmethod
    def _op(kind, r, binary, registers, qubits, draw, fdraw):
        if kind == "samples":
            return f"Samples {r}%nat {b2s(binary)} {b2s(registers)} {nat_list(draw)}"
        if kind == "freqs":
            return f"Freqs {r}%nat {b2s(binary)} {b2s(registers)} {counter_lit(fdraw)}"
        return f"Probs {r}%nat {nat_list(qubits)}"

    def candidates(self):
        """what each real result object finally holds as its shots (attribute peek): decimal
        samples if materialised, else the expansion of its frequencies, else nothing"""
        out = []
        for r in self.results:
            if r._samples is not None:
                rows = np.asarray(r._samples).tolist()
                out.append([int("".join(str(int(b)) for b in row) or "0", 2) for row in rows])
            elif r._frequencies is not None:
                out.append([k for k, v in sorted(r._frequencies.items()) for _ in range(v)])
            else:
                out.append(None)
        return out

    def gate_caches(self):
        """what the circuit's measurement gates finally hold (attribute peek): decimal samples and
        frequencies per gate, as a Coq literal"""
        items = []
        for m_ in self.circuit.measurements:
            s, f = m_.result._samples, m_.result._frequencies
            if s is None:
                sl = "None"
            else:
                rows = np.asarray(s).tolist()
                sl = "Some " + nat_list([int("".join(str(int(b)) for b in row) or "0", 2) for row in rows])
            fl = "None" if f is None else "Some " + counter_lit(f)
            items.append(f"({sl}, {fl})")
        return "[" + "; ".join(items) + "]"

    def coq_case(self):
        cfg = f"(mkcfg {self.n}%nat {nat_list_list(self.regs)})"
        h = "[" + ";\n   ".join(self.ops_coq) + "]"
        impl = "[" + ";\n   ".join(self.outs_coq) + "]"
        cands = "[" + "; ".join("None" if c is None else f"Some {nat_list(c)}" for c in self.candidates()) + "]"
        hc = "[" + "; ".join(self.handle_checks) + "]" if self.handle_checks else "(@nil bool)"
        return (f"(let cfg := {cfg} in let h := {h} in let impl := {impl} in\n"
                f"  (check_history cfg h impl ++ [gates_eqb (final_gates cfg h) {self.gate_caches()}], spec_verdicts cfg h impl {cands}, {hc}))")


HANDLE_FLAGS = {}


def parse_case(val):
    """'([true; ...], [0; 1], [true])' -> (bools, verdicts); the third list (handle checks) is kept
    in HANDLE_FLAGS[val] for judge_history"""
    m = re.match(r"\(\[(.*?)\],\s*(?:\[(.*?)\]|nil),\s*(?:\[(.*?)\]|nil)\)", val.replace("%nat", ""))
    if not m:
        return None, None
    bools = [t == "true" for t in re.findall(r"true|false", m.group(1))]
    HANDLE_FLAGS[val] = [t == "true" for t in re.findall(r"true|false", m.group(3) or "")]
    return bools, parse_ints(m.group(2) or "")


def random_accessor(rng, hr, r, n):
    t = rng.random()
    if t < 0.42:
        hr.accessor("samples", r, rng.random() < 0.5, rng.random() < 0.5)
    elif t < 0.84:
        hr.accessor("freqs", r, rng.random() < 0.5, rng.random() < 0.5)
    else:
        hr.accessor("probs", r, qubits=ordered_sublist(rng, n, 1))


def eval_cases(run, name, exprs, chunk=60):
    """evaluate the Coq terms by vm_compute, `chunk` per generated file, files compiled in parallel"""
    from concurrent.futures import ThreadPoolExecutor
    jobs = [(f"{name}_{i // chunk}.v", exprs[i:i + chunk]) for i in range(0, len(exprs), chunk)]
    if not jobs:
        return []
    with ThreadPoolExecutor(max_workers=8) as ex:
        outs = list(ex.map(lambda jb: run.coq_eval(jb[0], HEADER, jb[1], timeout=900), jobs))
    vals = []
    for v in outs:
        if v is None:
            return None
        vals += v
    return vals


# ------------------------------------------------------------------ part A/B: probabilities
def all_ordered_sublists(n):
    import itertools
    return [list(p) for k in range(n + 1) for p in itertools.permutations(range(n), k)]


def part_probabilities(run, rng, be, count):
    from qibo import Circuit, gates
    items, meta = [], []
    forced = []
    if run.tier == "thorough":
        # exhaustive small scope: every ordered duplicate-free qubit list for n <= 4 (state vector)
        # and n <= 3 (density matrix)
        forced = [(n, qs, False) for n in range(1, 5) for qs in all_ordered_sublists(n)]
        forced += [(n, qs, True) for n in range(1, 4) for qs in all_ordered_sublists(n)]
        run.notes["exhaustive_qubit_lists"] = f"{len(forced)} (all ordered sub-lists, n<=4 state vector, n<=3 density matrix)"
    for i in range(count + len(forced)):
        crng = random.Random(f"{run.seed}:probs:{i}")
        n = crng.randint(1, 5 if i % 4 else 3)
        dm = (i % 3 == 2)
        if dm:
            n = min(n, 3)
        qs = ordered_sublist(crng, n, 0 if i % 7 == 0 else 1, want_unsorted=True)
        if i >= count:
            n, qs, dm = forced[i - count]
        label = f"probs_{'dm' if dm else 'sv'}:n={n}:qs={','.join(map(str, qs))}:case{i}"
        try:
            nontriv = _probabilities_case(crng, be, i, n, qs, dm, label, items, meta)
        except Exception as e:  # the implementation under test raised / returned inexact values
            run.case({"probs": label, "raised": True}, False)
            run.find(label.rsplit(":case", 1)[0] + ":raised", "computing the probabilities raised or returned non-integer values for integer data: " + repr(e)[:200],
                     {"part": "probs", "case": i, "n": n, "qubits": qs, "density_matrix": dm, "raised": repr(e)[:300]})
            continue
        run.case({"probs": label, "impl": meta[-1][1]["impl"]}, nontriv)
        if i < 2:
            run.sample(meta[-1][1])
    _probabilities_finish(run, be, items, meta)


def _probabilities_case(crng, be, i, n, qs, dm, label, items, meta):
    from qibo import Circuit, gates
    if True:
        if not dm:
            psi = gauss_state(crng, n)
            arr = np.array(psi, dtype=complex)
            if i % 2:
                c = Circuit(n)
                c.add(gates.M(*range(n)))
                r = c(initial_state=arr.copy(), nshots=1)
                st = np.asarray(r.state())
                assert np.array_equal(st, arr)
                impl = r.probabilities(qs)
                path = "Circuit(n)(initial_state).probabilities(qs)"
            else:
                impl = be.calculate_probabilities(arr, qs, n)
                path = "backend.calculate_probabilities"
            ints = exact_ints(impl)
            items.append((label + ":model", f"list_eqb Z.eqb (calc_probs_state {n}%nat {nat_list(qs)} {zi_list(psi)}) {z_list(ints)}"))
            items.append((label + ":spec", f"list_eqb Z.eqb (born_vec {n}%nat {nat_list(qs)} (map zi_norm2 {zi_list(psi)})) {z_list(ints)}"))
            meta.append((label, {"part": "probs", "case": i, "n": n, "qubits": qs, "state": [str(a) for a in psi], "path": path, "impl": ints}))
            nontriv = (qs != list(range(n))) and len(set(abs(complex(a)) for a in psi)) >= 2
        else:
            dim = 2 ** n
            rho = [[(crng.randint(-5, 5) if a == b else complex(crng.randint(-4, 4), crng.randint(-4, 4))) for b in range(dim)] for a in range(dim)]
            arr = np.array(rho, dtype=complex)
            if i % 2:
                c = Circuit(n, density_matrix=True)
                c.add(gates.M(*range(n)))
                r = c(initial_state=arr.copy(), nshots=1)
                assert np.array_equal(np.asarray(r.state()), arr)
                impl = r.probabilities(qs)
                path = "Circuit(n, density_matrix=True)(rho).probabilities(qs)"
            else:
                impl = be.calculate_probabilities_density_matrix(arr, qs, n)
                path = "backend.calculate_probabilities_density_matrix"
            ints = exact_ints(impl)
            items.append((label + ":model", f"list_eqb Z.eqb (calc_probs_dm {n}%nat {nat_list(qs)} {zi_mat(rho)}) {z_list(ints)}"))
            items.append((label + ":spec", f"list_eqb Z.eqb (map (fun s => Z.abs (fst s)) (born_vec_zi {n}%nat {nat_list(qs)} (dm_diag {zi_mat(rho)}))) {z_list(ints)}"))
            meta.append((label, {"part": "probs", "case": i, "n": n, "qubits": qs, "rho": [[str(a) for a in row] for row in rho], "path": path, "impl": ints}))
            nontriv = qs != list(range(n))
    return nontriv


def _probabilities_finish(run, be, items, meta):
    res = {}
    for ci in range(0, len(items), 400):
        part, _ = run.coq_bools(f"probs_{ci // 400}.v", HEADER, items[ci:ci + 400], timeout=900)
        if part is None:
            res = None
            break
        res.update(part)
    if res is None:
        run.oblige("correspondence:probabilities", False, "correspondence")
        run.find("probs:coq-failed", "generated probabilities file did not compile", {}, concrete=False)
        return
    ok_all = True
    for label, info in meta:
        m_ok, s_ok = res[label + ":model"], res[label + ":spec"]
        if not s_ok:
            ok_all = False
            run.find(label.rsplit(":case", 1)[0], "reported probabilities differ from the Born marginal in the requested qubit order", info)
        elif not m_ok:
            ok_all = False
            run.find(label.rsplit(":case", 1)[0] + ":model", "model of calculate_probabilities disagrees with the implementation (implementation matches the Born specification)", info, concrete=False)
    run.oblige("correspondence:probabilities", ok_all, "correspondence")
    # malformed stream: the real code must reject what the theorems exclude
    rejected = 0
    for qs, n in (([0, 0], 2), ([1, 2], 2), ([0, 1, 0], 3)):
        try:
            be.calculate_probabilities(np.arange(2 ** n, dtype=complex), qs, n)
        except Exception:
            rejected += 1
        run.case({"malformed_probs": qs, "n": n}, False)
    run.notes["malformed_qubit_lists_rejected"] = f"{rejected}/3 (repeated or out-of-range qubits raise in numpy)"


# ------------------------------------------------------------------ part C: conversions and counting
def part_conversions(run, rng, be, count):
    from qibo.measurements import frequencies_to_binary
    items, meta = [], []
    for i in range(count):
        crng = random.Random(f"{run.seed}:conv:{i}")
        k = crng.randint(1, 6)
        ns = crng.randint(1, 12)
        samples = [crng.randrange(2 ** k) for _ in range(ns)]
        arr = np.array(samples)
        label = f"conv:k={k}:case{i}"
        try:
            b = be.samples_to_binary(arr, k)
            d = be.samples_to_decimal(b, k)
            f = be.calculate_frequencies(arr)
            fb = frequencies_to_binary(f, k)
        except Exception as e:  # noqa
            run.case({"conv": samples, "k": k, "raised": True}, False)
            run.find(f"conv:k={k}:raised", "a conversion / counting function raised: " + repr(e)[:200],
                     {"part": "conv", "case": i, "k": k, "samples": samples, "raised": repr(e)[:300]})
            continue
        items.append((label + ":to_bin", f"list_eqb bits_eqb (map (to_bin {k}%nat) {nat_list(samples)}) {bits_list(np.asarray(b).tolist())}"))
        items.append((label + ":to_dec", f"list_eqb Nat.eqb (map to_dec {bits_list(np.asarray(b).tolist())}) {nat_list(np.asarray(d).tolist())}"))
        items.append((label + ":freq", f"counter_eqb (calc_freq {nat_list(samples)}) {counter_lit(f)}"))
        items.append((label + ":fbin", f"bcounter_eqb (fbin {k}%nat {counter_lit(f)}) {bcounter_lit(fb)}"))
        items.append((label + ":spec", f"list_eqb Nat.eqb {nat_list(np.asarray(d).tolist())} {nat_list(samples)} && counts_okb {counter_lit(f)} {nat_list(samples)} && (total {counter_lit(f)} =? {ns})%nat"))
        meta.append((label, {"part": "conv", "case": i, "k": k, "samples": samples}))
        run.case({"conv": samples, "k": k}, len(set(samples)) >= 2)
    res, _ = run.coq_bools("conv.v", HEADER, items, timeout=600)
    if res is None:
        run.oblige("correspondence:conversions", False, "correspondence")
        run.find("conv:coq-failed", "generated conversions file did not compile", {}, concrete=False)
        return
    ok_all = True
    for label, info in meta:
        if not res[label + ":spec"]:
            ok_all = False
            run.find(label.rsplit(":case", 1)[0] + ":roundtrip", "samples_to_decimal(samples_to_binary(s)) != s or frequencies are not the counts", info)
        elif not all(res[label + s] for s in (":to_bin", ":to_dec", ":freq", ":fbin")):
            ok_all = False
            run.find(label.rsplit(":case", 1)[0] + ":model", "conversion model disagrees with the implementation", info, concrete=False)
    run.oblige("correspondence:conversions", ok_all, "correspondence")


# ------------------------------------------------------------------ part D: views of one result
def one_view_history(run, be, i, replaying=False):
    crng = random.Random(f"{run.seed}:views:{i}")
    freq_first = (i % 4 == 1)   # >= 2 registers, superposed state, frequencies(registers=True) before any samples()
    n = crng.randint(2 if freq_first else 1, 4)
    regs = random_registers(crng, n)
    while freq_first and len(regs) < 2:
        regs = random_registers(crng, n)
    if i % 5 == 4:
        # cyclic orders of >= 3 qubits (a permutation and its inverse coincide on swaps), one or several registers
        regs = [list(r) for r in CYCLIC_LAYOUTS[(i // 5) % len(CYCLIC_LAYOUTS)]]
        n = max(q for r in regs for q in r) + 1
        freq_first = freq_first and len(regs) >= 2
    hr = HistoryRun(be, n, regs, density_matrix=(i % 3 == 2 and n <= 3))
    ints, j = dyadic_state(crng, n, deterministic=(i % 9 == 8 and not freq_first))
    while freq_first and sum(1 for a in ints if a != 0) < 3:
        ints, j = dyadic_state(crng, n)
    nshots = crng.randint(4 if freq_first else 1, 10)
    be.set_seed(crng.randrange(2 ** 31))
    import qibo
    default_batch = qibo.get_batch_size()
    try:
        if freq_first and i % 8 == 1:
            # frequencies are drawn in batches: shot counts at / next to a multiple of the batch size
            qibo.set_batch_size(crng.choice([nshots, max(1, nshots // 2), nshots + 1, max(1, nshots - 1)]))
            hr.log.append({"op": "set_batch_size", "batch_size": qibo.get_batch_size()})
        hr.execute(ints, j, nshots)
        if freq_first:
            hr.accessor("freqs", 0, crng.random() < 0.5, True)
            hr.accessor("freqs", 0, crng.random() < 0.5, False)
        nops = crng.randint(2, 8)
        for _ in range(nops):
            random_accessor(crng, hr, 0, n)
    finally:
        qibo.set_batch_size(default_batch)
    return hr


def judge_history(run, hr, val, key_prefix, info, shared_key=None):
    """returns True if everything agreed; files findings otherwise"""
    bools, verdicts = parse_case(val)
    if bools is None:
        run.find(key_prefix + ":unparsable", "could not parse the Coq answer", info, concrete=False)
        return False
    ok = True
    for kind, what in hr.problems:
        ok = False
        run.find(f"{key_prefix}:{kind}", what, info)
    if not all(HANDLE_FLAGS.get(val, [])):
        ok = False
        run.find(key_prefix.split(":case")[0].split(":regs=")[0] + ":handle_frequencies",
                 "after result.frequencies() drew the global frequencies, MeasurementResult.frequencies() of a register is not the projection of "
                 "those shots onto the register or does not sum to nshots", info)
    if not bools[0]:
        ok = False
        run.find(key_prefix + ":sampler_contract", "a drawn shot has zero probability / wrong count (oracle premise of the theorems violated by the implementation's sampler)", info)
    model_ok = all(bools[1:])
    spec_bad = [r for r, v in enumerate(verdicts) if v == 1]
    if any(v == 2 for v in verdicts):
        run.notes["inconclusive_spec_verdicts"] = run.notes.get("inconclusive_spec_verdicts", 0) + sum(1 for v in verdicts if v == 2)
    if spec_bad:
        ok = False
        if model_ok and shared_key is not None:
            run.find(shared_key(spec_bad), "outputs of a result are not a function of its own execution", info)
        else:
            run.find(key_prefix + ":spec", f"views of result(s) {spec_bad} are not explained by one admissible list of shots", info)
    if not model_ok:
        ok = False
        bad = [k - 2 for k, b in enumerate(bools[:-1]) if k >= 2 and not b] + (["gate caches"] if not bools[-1] else [])
        run.find(key_prefix + ":model", f"state-machine model disagrees with the implementation at operation(s) {bad}" +
                 ("" if spec_bad else " (the implementation's outputs satisfy the specification)"), info, concrete=bool(spec_bad))
    return ok


def part_views(run, rng, be, count):
    exprs, hrs = [], []
    for i in range(count):
        try:
            hr = one_view_history(run, be, i)
            expr = hr.coq_case()
        except Exception as e:  # noqa
            run.case({"views": i, "raised": True}, False)
            run.find("views:raised", "executing a circuit with measurements / reading a view raised: " + repr(e)[:200],
                     {"part": "views", "case": i, "raised": repr(e)[:300]})
            continue
        hr.case_index = i
        hrs.append(hr)
        exprs.append(expr)
        kinds = {(e["op"], e.get("binary"), e.get("registers")) for e in hr.log}
        run.case({"views": hr.log, "regs": hr.regs}, len(kinds) >= 3 and len(hr.regs[0]) + len(hr.regs) > 2)
        if i < 2:
            run.sample({"part": "views", "n": hr.n, "registers": hr.regs, "history": hr.log})
    vals = eval_cases(run, "views", exprs)
    if vals is None:
        run.oblige("correspondence:result_views", False, "correspondence")
        run.find("views:coq-failed", "generated histories file did not compile", {}, concrete=False)
        return
    ok_all = not any(f.key == "views:raised" for f in run.findings)
    for i, (hr, v) in enumerate(zip(hrs, vals)):
        info = {"part": "views", "case": getattr(hr, "case_index", i), "n": hr.n, "registers": hr.regs, "history": hr.log}
        ok_all &= judge_history(run, hr, v, f"views:regs={hr.regs}".replace(" ", ""), info)
    run.oblige("correspondence:result_views", ok_all, "correspondence")


# ------------------------------------------------------------------ part E: collapse
GATE_ZI = {
    "X": "[[zi0; zi1]; [zi1; zi0]]",
    "Y": "[[zi0; (0, -1)%Z]; [zii; zi0]]",
    "Z": "[[zi1; zi0]; [zi0; (-1, 0)%Z]]",
    "SWAP": "[[zi1; zi0; zi0; zi0]; [zi0; zi0; zi1; zi0]; [zi0; zi1; zi0; zi0]; [zi0; zi0; zi0; zi1]]",
}


def random_post_gates(rng, n):
    """permutation / phase gates: exact on every float input"""
    from qibo import gates
    out = []
    for _ in range(rng.randint(0, 3)):
        t = rng.choice(["X", "Y", "Z", "CNOT", "CZ", "SWAP"] if n >= 2 else ["X", "Y", "Z"])
        if t in ("X", "Y", "Z"):
            q = rng.randrange(n)
            out.append((getattr(gates, t)(q), f"(@nil nat, [{q}]%nat, {GATE_ZI[t]})", f"{t}({q})"))
        else:
            a, b = rng.sample(range(n), 2)
            if t == "SWAP":
                out.append((gates.SWAP(a, b), f"(@nil nat, [{a}; {b}]%nat, {GATE_ZI['SWAP']})", f"SWAP({a},{b})"))
            else:
                base = "X" if t == "CNOT" else "Z"
                out.append((getattr(gates, t)(a, b), f"([{a}]%nat, [{b}]%nat, {GATE_ZI[base]})", f"{t}({a},{b})"))
    return out


def parse_collapse(val):
    """(recorded, Some collapsed, norm2, Some final, spec_ok, sorted_ok[, (projection, norm2)]) as printed by Coq;
    returns a 6-tuple, or an 8-tuple when the projection onto the recorded outcome is included"""
    v = val.replace("%Z", "").replace("%nat", "")
    parts = re.match(r"\(\s*(\[.*?\]|nil),\s*(Some \[.*?\]|None),\s*(-?\d+),\s*(Some \[.*?\]|None),\s*(true|false),\s*(true|false)"
                     r"(?:,\s*\(\s*(\[.*?\]|nil),\s*(-?\d+)\))?\)$", v)
    if not parts:
        return None
    rec = [t == "true" for t in re.findall(r"true|false", parts.group(1))]
    col = None if parts.group(2) == "None" else parse_ints(parts.group(2))
    fin = None if parts.group(4) == "None" else parse_ints(parts.group(4))
    base = (rec, col, int(parts.group(3)), fin, parts.group(5) == "true", parts.group(6) == "true")
    if parts.group(7) is not None:
        return base + (parse_ints(parts.group(7)), int(parts.group(8)))
    return base


def pairs_to_complex(flat):
    return np.array([complex(flat[2 * i], flat[2 * i + 1]) for i in range(len(flat) // 2)], dtype=complex)


def collapse_circuit_case(run, be, i):
    """M(*tq, collapse=True) in the middle of a circuit, followed by exact gates and a final
    measurement of all qubits; every shot is one case."""
    from qibo import Circuit, gates
    import qibo.backends.numpy as qnp
    crng = random.Random(f"{run.seed}:collapse:{i}")
    n = crng.randint(2, 4)
    tq = ordered_sublist(crng, n, 1, 3, want_unsorted=(i % 4 != 3))
    if i % 5 == 4:
        tq = list(CYCLIC_LISTS[(i // 5) % len(CYCLIC_LISTS)])
        n = max(max(tq) + 1, n)
    ints, j = dyadic_state(crng, n)
    post = random_post_gates(crng, n)
    nshots = crng.randint(1, 3)
    c = Circuit(n)
    mres = c.add(gates.M(*tq, collapse=True))
    for g, _, _ in post:
        c.add(g)
    c.add(gates.M(*range(n)))
    calls, finals, draws = [], [], []
    orig_collapse = be.collapse_state
    orig_cr = qnp.CircuitResult
    orig_shots = be.sample_shots

    def collapse_state(state, qubits, shot, nqubits, normalize=True):
        with np.errstate(all="ignore"):
            out = orig_collapse(state, qubits, shot, nqubits, normalize)
        calls.append((np.array(state, copy=True), list(qubits), int(np.asarray(shot).ravel()[0]), np.array(out, copy=True), normalize))
        return out

    def circuit_result(state, *a, **kw):
        finals.append(np.array(state, copy=True))
        return orig_cr(state, *a, **kw)

    def shots(probabilities, ns):
        out = orig_shots(probabilities, ns)
        draws.append([int(v) for v in np.asarray(out).tolist()])
        return out

    be.collapse_state = collapse_state
    be.sample_shots = shots
    qnp.CircuitResult = circuit_result
    error, res_samples = None, None
    try:
        be.set_seed(crng.randrange(2 ** 31))
        psi = np.array(ints, dtype=complex) / 2 ** j
        res = c(initial_state=psi.copy(), nshots=nshots)
        res_samples = np.asarray(res.samples()).tolist()
    except Exception as e:  # the implementation under test raised: judge the shots completed so far
        error = repr(e)[:300]
    finally:
        del be.collapse_state
        del be.sample_shots
        qnp.CircuitResult = orig_cr
    recorded = [[int(b) for b in np.asarray(s).tolist()] for s in (mres._samples or [])]
    cases = []
    for s in range(min(nshots, len(calls))):
        st_in, qubits, shot_passed, st_out, normalize = calls[s]
        # the shot the sampler drew for this collapse (oracle for the model): 2 draws per completed shot
        drawn = draws[2 * s][0] if len(draws) > 2 * s else shot_passed
        try:
            in_ints = exact_ints(np.concatenate([st_in.real, st_in.imag]), 2 ** j)
        except (AssertionError, ValueError, OverflowError):
            error = error or "the state entering the measurement is not the exact input state (NaN/inexact)"
            break
        dim = 2 ** n
        psi_in = [complex(in_ints[x], in_ints[dim + x]) for x in range(dim)]
        rec_s = recorded[s] if s < len(recorded) else []
        expr = (f"(collapse_case {n}%nat {nat_list(tq)} {drawn}%nat {zi_list(psi_in)} "
                f"[{'; '.join(t for _, t, _ in post)}] {bits_lit(rec_s)}, "
                f"projection_on_recorded {n}%nat {nat_list(tq)} {zi_list(psi_in)} {bits_lit(rec_s)})")
        cases.append({"expr": expr, "tq": tq, "n": n, "shot": drawn, "shot_passed_to_collapse_state": shot_passed, "j": j, "psi_in": psi_in,
                      "qubits_passed": qubits, "recorded": recorded[s] if s < len(recorded) else None, "st_out": st_out,
                      "final": finals[s] if s < len(finals) else None, "post": [t for _, _, t in post],
                      "final_samples": res_samples[s] if res_samples is not None and s < len(res_samples) else None,
                      "case": i, "shot_index": s, "error": error})
    if error and not cases:
        cases.append({"expr": None, "tq": tq, "n": n, "j": j, "psi_in": [complex(a) for a in ints], "post": [t for _, _, t in post],
                      "case": i, "shot_index": 0, "error": error, "recorded": None, "shot": None})
    elif error:
        cases[-1]["error"] = error
    return cases


def part_collapse(run, rng, be, count, only=None):
    all_cases = []
    for i in (range(count) if only is None else only):
        try:
            all_cases += collapse_circuit_case(run, be, i)
        except Exception as e:  # noqa
            all_cases.append({"expr": None, "tq": [], "n": 0, "j": 0, "psi_in": [], "post": [], "case": i, "shot_index": 0,
                              "error": "harness: " + repr(e)[:300], "recorded": None, "shot": None})
    with_expr = [c for c in all_cases if c["expr"] is not None]
    vals = eval_cases(run, "collapse", [c["expr"] for c in with_expr], chunk=80)
    if vals is None:
        run.oblige("correspondence:collapse", False, "correspondence")
        run.find("collapse:coq-failed", "generated collapse file did not compile", {}, concrete=False)
        return
    answers = {id(c): v for c, v in zip(with_expr, vals)}
    ok_all = True
    for c in all_cases:
        tqs = ",".join(map(str, c["tq"]))
        srt = "sorted" if c["tq"] == sorted(c["tq"]) else "unsorted"
        info = {"part": "collapse", "case": c["case"], "shot_index": c["shot_index"], "n": c["n"], "M": f"M({tqs}, collapse=True)",
                "state_times_2^j": [str(a) for a in c["psi_in"]], "j": c["j"], "drawn_shot": c["shot"], "recorded": c["recorded"], "post_gates": c["post"]}
        if "shot_passed_to_collapse_state" in c:
            info["shot_passed_to_collapse_state"] = c["shot_passed_to_collapse_state"]
        run.case({"collapse": info}, len(c["tq"]) >= 2 or c["n"] >= 3)
        if len(run.samples) < 6 and c["shot_index"] == 0 and c["case"] < 2:
            run.sample(info)
        if c.get("error"):
            ok_all = False
            run.find(f"collapse:raised:{srt}:M({tqs})", "executing a circuit with a collapsing measurement followed by gates and a final "
                     "measurement raised (or produced a non-finite state): " + c["error"], dict(info, raised=c["error"]))
        if c["expr"] is None:
            continue
        p = parse_collapse(answers[id(c)])
        if p is None or len(p) != 8:
            ok_all = False
            run.find(f"collapse:{srt}:M({tqs}):unparsable", "could not parse the Coq answer", info, concrete=False)
            continue
        rec, col, norm2, fin, spec_ok, sorted_ok, proj, pnorm2 = p
        scale = 2 ** c["j"]
        # specification, judged on the implementation's own output: the state after the measurement is the
        # normalised projection onto the outcome it recorded (bits in the order of the gate's qubits)
        with np.errstate(all="ignore"):
            exp_spec = (pairs_to_complex(proj) / scale) / np.sqrt(np.float64(pnorm2) / np.float64(4 ** c["j"]))
        if pnorm2 == 0 or not np.array_equal(exp_spec, c["st_out"]):
            ok_all = False
            run.find(f"collapse:projection_on_recorded_outcome:{srt}:M({tqs})",
                     "the state after M(..., collapse=True) is not the normalised projection onto the outcome recorded for that shot "
                     "(bits read in the order of the gate's qubits)" + ("; the recorded outcome has probability zero" if pnorm2 == 0 else ""), info)
        good = True
        if col is None or fin is None:
            good = False
        else:
            # the real code divides the projected block by sqrt(sum |.|^2): apply the same float
            # operation to the model's exact values and compare bit for bit
            nrm = np.sqrt(np.float64(norm2) / np.float64(4 ** c["j"]))
            exp_out = (pairs_to_complex(col) / scale) / nrm
            exp_fin = (pairs_to_complex(fin) / scale) / nrm
            good &= np.array_equal(exp_out, c["st_out"])
            if not c.get("error"):
                good &= c["final"] is not None and np.array_equal(exp_fin, c["final"])
            good &= c["recorded"] is not None and [bool(b) for b in c["recorded"]] == rec
            # the final measurement of all qubits must see the collapsed outcome
            if c["final"] is not None and c["final_samples"] is not None:
                x = int("".join(str(int(b)) for b in c["final_samples"]), 2)
                good &= abs(c["final"][x]) > 0
        if not spec_ok:
            if "collapse_recorded_order" not in run.refuted:
                run.refuted.append("collapse_recorded_order")
            run.find(f"collapse_order:{srt}:M({tqs})",
                     "the state after M(..., collapse=True) is not the projection onto the recorded outcome read in the order of the gate's qubits", info)
        if not good:
            ok_all = False
            run.find(f"collapse:{srt}:M({tqs}):model", "collapse model disagrees with the implementation", info, concrete=False)
    run.oblige("correspondence:collapse", ok_all, "correspondence")


def part_collapse_direct(run, rng, be, count):
    """backend.collapse_state / collapse_density_matrix with normalize=False on Gaussian-integer
    data (exact), sorted and unsorted qubit lists (the model follows numpy's axis insertion)"""
    items, meta = [], []
    for i in range(count):
        crng = random.Random(f"{run.seed}:collapse_direct:{i}")
        dm = (i % 3 == 2)
        n = crng.randint(1, 3 if dm else 4)
        qs = ordered_sublist(crng, n, 1, 3)
        if i % 5 != 4:
            qs = sorted(qs)
        shot = crng.randrange(2 ** len(qs))
        label = f"collapse_direct:{'dm' if dm else 'sv'}:n={n}:qs={','.join(map(str, qs))}:case{i}"
        try:
            if dm:
                dim = 2 ** n
                rho = [[complex(crng.randint(-4, 4), crng.randint(-4, 4)) for _ in range(dim)] for _ in range(dim)]
                out = be.collapse_density_matrix(np.array(rho, dtype=complex), list(qs), np.array([shot]), n, normalize=False)
                ints = exact_ints(np.concatenate([np.asarray(out).real.ravel(), np.asarray(out).imag.ravel()]))
                half = dim * dim
                mat = [[complex(ints[a * dim + b], ints[half + a * dim + b]) for b in range(dim)] for a in range(dim)]
                impl = f"Some {zi_mat(mat)}"
                data = zi_mat(rho)
                model = f"collapse_dm {n}%nat {nat_list(qs)} {shot}%nat {data}"
                spec = f"project_dm {n}%nat {nat_list(qs)} (to_bin {len(qs)}%nat {shot}%nat) {data}"
                eq = "mat_eqb"
            else:
                psi = [complex(crng.randint(-6, 6), crng.randint(-6, 6)) for _ in range(2 ** n)]
                out = be.collapse_state(np.array(psi, dtype=complex), list(qs), np.array([shot]), n, normalize=False)
                ints = exact_ints(np.concatenate([np.asarray(out).real, np.asarray(out).imag]))
                dim = 2 ** n
                vec = [complex(ints[x], ints[dim + x]) for x in range(dim)]
                impl = f"Some {zi_list(vec)}"
                data = zi_list(psi)
                model = f"collapse_state {n}%nat {nat_list(qs)} {shot}%nat {data}"
                spec = f"project {n}%nat {nat_list(qs)} (to_bin {len(qs)}%nat {shot}%nat) {data}"
                eq = "zi_list_eqb"
        except Exception as e:  # numpy raised (axis out of range for unsorted lists)
            impl = "None"
            model = (f"collapse_dm {n}%nat {nat_list(qs)} {shot}%nat {zi_mat(rho)}" if dm
                     else f"collapse_state {n}%nat {nat_list(qs)} {shot}%nat {zi_list(psi)}")
            spec, eq = None, ("mat_eqb" if dm else "zi_list_eqb")
        items.append((label + ":model", f"opt_eqb {eq} ({model}) ({impl})"))
        if spec is not None and qs == sorted(qs):
            items.append((label + ":spec", f"opt_eqb {eq} (Some ({spec})) ({impl})"))
        meta.append((label, {"part": "collapse_direct", "case": i, "n": n, "qubits": qs, "shot": shot, "density_matrix": dm, "raised": impl == "None"},
                     spec is not None and qs == sorted(qs)))
        run.case({"collapse_direct": label, "shot": shot}, len(qs) < n)
    res, _ = run.coq_bools("collapse_direct.v", HEADER, items, timeout=900)
    if res is None:
        run.oblige("correspondence:collapse_direct", False, "correspondence")
        run.find("collapse_direct:coq-failed", "generated file did not compile", {}, concrete=False)
        return
    ok_all = True
    for label, info, has_spec in meta:
        key = label.rsplit(":case", 1)[0]
        if has_spec and not res[label + ":spec"]:
            ok_all = False
            run.find(key, "collapse_state/collapse_density_matrix is not the projection onto the given outcome", info)
        elif not res[label + ":model"]:
            ok_all = False
            run.find(key + ":model", "collapse model disagrees with the implementation", info, concrete=False)
    run.oblige("correspondence:collapse_direct", ok_all, "correspondence")


def part_symbols(run, rng, be, count):
    """a gate conditioned on result.symbols[i] must see the outcome of qubit target_qubits[i]"""
    from qibo import Circuit, gates
    ok_all = True
    for i in range(count):
        crng = random.Random(f"{run.seed}:symbols:{i}")
        n = crng.randint(2, 4)
        tq = ordered_sublist(crng, n, 2, 3, want_unsorted=(i % 3 != 2))
        if i % 4 == 3:
            tq = list(CYCLIC_LISTS[(i // 4) % len(CYCLIC_LISTS)])
            n = max(max(tq) + 1, n)
        x = [crng.randint(0, 1) for _ in range(n)]
        psi = np.zeros(2 ** n, dtype=complex)
        psi[int("".join(map(str, x)), 2)] = 1
        c = Circuit(n)
        mres = c.add(gates.M(*tq, collapse=True))
        cond = []
        free = [q for q in range(n)]
        for k in range(len(tq)):
            g = gates.RZ(free[k % n], theta=mres.symbols[k])
            c.add(g)
            cond.append(g)
        c.add(gates.M(*range(n)))
        try:
            c(initial_state=psi, nshots=1)
        except Exception as e:  # noqa
            ok_all = False
            run.case({"symbols": i, "raised": True}, False)
            run.find(f"symbols:raised:M({','.join(map(str, tq))})", "executing a circuit with a gate conditioned on result.symbols raised: " + repr(e)[:200],
                     {"part": "symbols", "case": i, "n": n, "M": f"M({','.join(map(str, tq))}, collapse=True)", "basis_state_bits": x, "raised": repr(e)[:300]})
            continue
        seen = [float(g.parameters[0]) for g in cond]
        want = [float(x[q]) for q in tq]
        tqs = ",".join(map(str, tq))
        srt = "sorted" if tq == sorted(tq) else "unsorted"
        info = {"part": "symbols", "case": i, "n": n, "M": f"M({tqs}, collapse=True)", "basis_state_bits": x,
                "symbol_values_seen_by_gates": seen, "outcomes_of_target_qubits": want}
        run.case({"symbols": info}, tq != sorted(tq) and len(set(want)) > 1)
        if seen != want:
            ok_all = False
            run.find(f"collapse_order:{srt}:symbols:M({tqs})",
                     "a gate conditioned on result.symbols[i] receives the outcome of another qubit than target_qubits[i]", info)
    if ok_all:
        run.oblige("test:symbols_follow_gate_order", True, "test")
    elif "symbols_follow_gate_order" not in run.refuted:
        run.refuted.append("symbols_follow_gate_order")



# ------------------------------------------------------------------ part F: results of repeated execution
def repeated_circuit(crng, n, density_matrix=False, regs=None):
    """a state-vector circuit with a collapsing measurement: executed shot by shot, the result is a
    MeasurementOutcomes built from the aggregated samples (density_matrix=True: a CircuitResult with the
    averaged state and the aggregated samples)"""
    from qibo import Circuit, gates
    c = Circuit(n, density_matrix=density_matrix)
    cq = crng.sample(range(n), crng.randint(1, min(2, n)))
    c.add(gates.M(*cq, collapse=True))
    for _ in range(crng.randint(0, 2)):
        c.add(gates.X(crng.randrange(n)))
    regs = random_registers(crng, n) if regs is None else regs
    for reg in regs:
        c.add(gates.M(*reg))
    return c, regs, cq


def view_terms(r, measurements, regs, key_prefix, run, info, report_shape=True):
    """[(Coq op, Coq out)] for the eight sample/frequency views of result r; a view of the wrong
    shape (e.g. a flat Counter where a dict of registers is expected) is reported directly"""
    items = []
    for kind in ("samples", "freqs"):
        for b in (True, False):
            for rg in (True, False):
                v = r.samples(binary=b, registers=rg) if kind == "samples" else r.frequencies(binary=b, registers=rg)
                if rg and (not isinstance(v, dict) or isinstance(v, collections.Counter)):
                    if not report_shape:
                        continue
                    run.find(f"{key_prefix}:{'frequencies' if kind == 'freqs' else 'samples'}_registers_ignored",
                             f"{kind}(binary={b}, registers=True) does not return one entry per register", dict(info, returned=repr(v)[:200]))
                    continue
                op = (f"Samples 0%nat {b2s(b)} {b2s(rg)} (@nil nat)" if kind == "samples"
                      else f"Freqs 0%nat {b2s(b)} {b2s(rg)} (@nil (nat * nat))")
                items.append((f"{kind}:{b}:{rg}", op, out_term(kind, b, rg, v, measurements)))
    return items


def part_repeated(run, rng, be, count):
    items, meta = [], []
    for i in range(count):
        crng = random.Random(f"{run.seed}:repeated:{i}")
        n = crng.randint(1, 3)
        fixed = None
        if i % 3 == 2:
            fixed = [list(r_) for r_ in CYCLIC_LAYOUTS[(i // 3) % 6]]
            n = 3
        dm_ = (i % 4 == 1)
        c, regs, cq = repeated_circuit(crng, n, density_matrix=dm_, regs=fixed)
        ints, j = dyadic_state(crng, n)
        nshots = crng.randint(1, 6)
        be.set_seed(crng.randrange(2 ** 31))
        try:
            with np.errstate(all="ignore"):
                psi_ = np.array(ints, dtype=complex) / 2 ** j
                r = c(initial_state=(np.outer(psi_, psi_.conj()) if dm_ else psi_), nshots=nshots)
            S = [int(x) for x in np.asarray(r.samples(binary=False)).tolist()]
            terms = view_terms(r, c.measurements, regs, "repeated", run, {"part": "repeated", "case": i})
        except Exception as e:  # noqa
            run.case({"repeated": i, "raised": True}, False)
            run.find("repeated:raised", "shot-by-shot execution of a circuit with a collapsing measurement (or reading its result) raised: " + repr(e)[:200],
                     {"part": "repeated", "case": i, "n": n, "collapse": f"M({','.join(map(str, cq))}, collapse=True)", "registers": regs,
                      "state_times_2^j": [str(a) for a in ints], "j": j, "nshots": nshots, "raised": repr(e)[:300]})
            continue
        info = {"part": "repeated", "case": i, "n": n, "density_matrix": dm_, "collapse": f"M({','.join(map(str, cq))}, collapse=True)", "registers": regs,
                "state_times_2^j": [str(a) for a in ints], "j": j, "nshots": nshots, "samples": S}
        run.case({"repeated": info}, len(regs) > 1 or len(regs[0]) > 1)
        if i == 0:
            run.sample(info)
        if len(S) != nshots:
            run.find("repeated:nshots", "number of samples differs from nshots", info)
        cfg = f"(mkcfg {n}%nat {nat_list_list(regs)})"
        for label, op, out in terms:
            items.append((f"repeated:case{i}:{label}", f"explainsb {cfg} (@nil Z) {nat_list(S)} ({op}) ({out})"))
            meta.append((f"repeated:case{i}:{label}", info, label))
            items.append((f"repeated:case{i}:{label}:model", f"out_eqb (rep_view {cfg} {nat_list(S)} ({op})) ({out})"))
            meta.append((f"repeated:case{i}:{label}:model", info, label + ":model"))
    res, _ = run.coq_bools("repeated.v", HEADER, items, timeout=600)
    if res is None:
        run.find("repeated:coq-failed", "generated file did not compile", {}, concrete=False)
        return
    ok = True
    for label, info, view in meta:
        if not res[label]:
            ok = False
            if view.endswith(":model"):
                run.find(f"repeated:model:{view}", "model of the repeated-execution views (C03/ModelRepeated.v) disagrees with the implementation", info, concrete=False)
            else:
                run.find(f"repeated:view:{view}", "a view of a repeated-execution result is not the same data as its samples", info)
    if ok and not any(f.key.startswith("repeated:") for f in run.findings):
        run.oblige("test:repeated_execution_views", True, "test")
    elif "repeated_execution_views_consistent" not in run.refuted:
        run.refuted.append("repeated_execution_views_consistent")


# ------------------------------------------------------------------ part G: Circuit.add bookkeeping, gates after measurements
def gate_xop(kind, qs):
    """(real gate, Coq xop literal, text)"""
    from qibo import gates
    if kind in ("X", "Y", "Z"):
        return getattr(gates, kind)(qs[0]), f"XG (@nil nat, [{qs[0]}]%nat, {GATE_ZI[kind]})", f"{kind}({qs[0]})"
    if kind == "SWAP":
        return gates.SWAP(*qs), f"XG (@nil nat, [{qs[0]}; {qs[1]}]%nat, {GATE_ZI['SWAP']})", f"SWAP({qs[0]},{qs[1]})"
    base = "X" if kind == "CNOT" else "Z"
    return getattr(gates, kind)(*qs), f"XG ([{qs[0]}]%nat, [{qs[1]}]%nat, {GATE_ZI[base]})", f"{kind}({qs[0]},{qs[1]})"


def bookkeeping_script(crng, quiet=False):
    """[('G', kind, qubits) | ('M', qubits, name_code_or_None)]: basis-state preparation, 2-4
    registers, 1-3 later gates overlapping random subsets of them (often two registers at once),
    optional re-measurement; at least one final-state measurement remains"""
    # quiet: the later gates avoid every measured qubit, so NO measurement is converted and the
    # circuit takes the ordinary (single execution) path
    n = crng.randint(3 if quiet else 2, 4)
    script = [("G", "X", [q]) for q in range(n) if crng.random() < 0.5]
    nreg = crng.randint(2, min(4, n) - (1 if quiet else 0))
    perm = crng.sample(range(n), n)
    m = crng.randint(nreg, n - (1 if quiet else 0))
    cuts = sorted(crng.sample(range(1, m), nreg - 1))
    groups, prev = [], 0
    for c in cuts + [m]:
        groups.append(perm[prev:c])
        prev = c
    active, ncustom = [], 0
    for g in groups:
        name = None
        if crng.random() < 0.6:
            name, ncustom = ncustom, ncustom + 1
        script.append(("M", list(g), name))
        active.append(list(g))

    def later_gate():
        nonlocal active
        two = [a for a in active]
        unmeasured = [q for q in range(n) if not any(q in a for a in active)]
        if quiet and unmeasured:
            qs = [crng.choice(unmeasured)]
            kind = crng.choice(["X", "Z", "Y"])
        elif n >= 2 and len(two) >= 2 and crng.random() < 0.65:
            a, b = crng.sample(two, 2)
            qs = [crng.choice(a), crng.choice(b)]
            kind = crng.choice(["CNOT", "CZ", "SWAP"])
        elif n >= 2 and crng.random() < 0.5:
            qs = crng.sample(range(n), 2)
            kind = crng.choice(["CNOT", "CZ", "SWAP"])
        else:
            qs = [crng.randrange(n)]
            kind = crng.choice(["X", "Z", "Y"])
        script.append(("G", kind, qs))
        active = [a for a in active if not set(a) & set(qs)]

    for _ in range(crng.randint(1, 3)):
        later_gate()
    for _ in range(crng.randint(0, 2)):
        free = [q for q in range(n) if not any(q in a for a in active)]
        if free and crng.random() < 0.8:
            qs = crng.sample(free, crng.randint(1, len(free)))
            name = None
            if crng.random() < 0.5:
                name, ncustom = ncustom, ncustom + 1
            script.append(("M", qs, name))
            active.append(qs)
            if crng.random() < 0.35:
                later_gate()
    if not active:
        free = list(range(n))
        script.append(("M", crng.sample(free, crng.randint(1, n)), None))
    return n, script


def name_code(name, given):
    if given is not None:
        return f"(inr {given}%nat)"
    m_ = re.match(r"register(\d+)$", name or "")
    return f"(inl {m_.group(1)}%nat)" if m_ else "(inr 999%nat)"


def bookkeeping_case(run, be, i):
    from qibo import Circuit, gates
    crng = random.Random(f"{run.seed}:bookkeeping:{i}")
    n, script = bookkeeping_script(crng, quiet=(i % 6 == 5))
    nshots = crng.randint(1, 3)
    info = {"part": "bookkeeping", "case": i, "n": n, "nshots": nshots,
            "script": [(f"{s[1]}({','.join(map(str, s[2]))})" if s[0] == "G" else
                        f"M({','.join(map(str, s[1]))}" + (f", register_name='u{s[2]}')" if s[2] is not None else ")")) for s in script]}
    c = Circuit(n)
    xops, handles, given = [], [], []
    try:
        for s in script:
            if s[0] == "G":
                g, lit, _ = gate_xop(s[1], s[2])
                c.add(g)
                xops.append(lit)
            else:
                handles.append(c.add(gates.M(*s[1], register_name=(None if s[2] is None else f"u{s[2]}"))))
                given.append(s[2])
                xops.append(f"XM {nat_list(s[1])} {'None' if s[2] is None else f'(Some {s[2]}%nat)'} false")
        mgates = [g for g in c.queue if isinstance(g, gates.M)]
        impl_ms = "[" + "; ".join(f"mkmrec {nat_list(g.target_qubits)} {name_code(g.register_name, given[k])} {b2s(g.collapse)}"
                                  for k, g in enumerate(mgates)) + "]"
        impl_meas = [next(k for k, g in enumerate(mgates) if g is mm) for mm in c.measurements]
        info["implementation"] = {"collapse_flags": [bool(g.collapse) for g in mgates], "register_names": [g.register_name for g in mgates],
                                  "measurements": impl_meas, "has_collapse": bool(c.has_collapse)}
        impl_circ = f"(mkcirc {impl_ms} {nat_list(impl_meas)} {b2s(c.has_collapse)})"
        xs = "[" + "; ".join(xops) + "]"
        items = [("struct", f"match build_circ {xs} with Some c => circ_eqb c {impl_circ} | None => false end")]
        # execution: every draw of the implementation is recorded
        draws = []
        orig = be.sample_shots

        def shots(probabilities, ns):
            out = orig(probabilities, ns)
            draws.append([int(v) for v in np.asarray(out).tolist()])
            return out
        be.sample_shots = shots
        try:
            be.set_seed(crng.randrange(2 ** 31))
            r = c(nshots=nshots)
            # without any collapsing measurement the ordinary execution path is taken and the shots
            # are only drawn here (one call for all shots); after shot-by-shot execution nothing is drawn
            reg = r.samples(binary=True, registers=True)
        finally:
            del be.sample_shots
        coll = [k for k, g in enumerate(mgates) if g.collapse]
        if c.has_collapse:
            per = len(coll) + 1
            shot_draws = [[d[0] for d in draws[s * per:(s + 1) * per]] for s in range(nshots)] if len(draws) == per * nshots else None
        else:
            shot_draws = [[draws[0][s]] for s in range(nshots)] if len(draws) == 1 else None
        if shot_draws is None:
            info["draws"] = draws
            return info, items, "unexpected number of sampling calls"
        psi0 = "[" + "; ".join(["zi1"] + ["zi0"] * (2 ** n - 1)) + "]"
        info["per_shot"] = []
        for s in range(nshots):
            rec = [(k, [int(b) for b in np.asarray(handles[k]._samples[s]).tolist()]) for k in coll]
            fin = [[int(b) for b in np.asarray(reg[mm.register_name])[s].tolist()] for mm in c.measurements]
            info["per_shot"].append({"draws": shot_draws[s], "recorded": rec, "final_registers": fin})
            rec_lit = "[" + "; ".join(f"({k}%nat, {bits_lit(b)})" for k, b in rec) + "]" if rec else "(@nil (nat * list bool))"
            items.append((f"shot{s}", f"forallb (fun b => b) (shot_check {n}%nat {xs} {psi0} {nat_list(shot_draws[s])} {rec_lit} {bits_list(fin)})"))
        return info, items, None
    except Exception as e:  # noqa
        info["raised"] = repr(e)[:300]
        return info, [], "raised"


def part_bookkeeping(run, rng, be, count, only=None):
    all_items, meta = [], []
    ok = True
    for i in (range(count) if only is None else only):
        info, items, problem = bookkeeping_case(run, be, i)
        ngates_after = sum(1 for s in info["script"] if not s.startswith("M("))
        run.case({"bookkeeping": info["script"], "nshots": info["nshots"]}, True)
        if i < 2:
            run.sample({k: v for k, v in info.items() if k != "per_shot"})
        if problem:
            ok = False
            run.find(f"bookkeeping:{'raised' if problem == 'raised' else 'execution'}",
                     "building or executing a circuit with gates after measurements failed: " + str(info.get("raised", problem)), info)
        for label, term in items:
            all_items.append((f"bk{i}:{label}", term))
            meta.append((f"bk{i}:{label}", label, info))
    res = {}
    for ci in range(0, len(all_items), 300):
        part, _ = run.coq_bools(f"bookkeeping_{ci // 300}.v", HEADER, all_items[ci:ci + 300], timeout=900)
        if part is None:
            run.oblige("correspondence:circuit_add_bookkeeping", False, "correspondence")
            run.find("bookkeeping:coq-failed", "generated file did not compile", {}, concrete=False)
            return
        res.update(part)
    for label, kind, info in meta:
        if not res[label]:
            ok = False
            if kind == "struct":
                run.find("bookkeeping:structure", "after Circuit.add the collapse flags / register names / circuit.measurements / has_collapse "
                         "differ from the specification (every earlier measurement touched by a later gate becomes collapsing and leaves circuit.measurements)", info)
            else:
                run.find("bookkeeping:samples", "a register does not report the outcome at the time of its measurement (per-shot comparison with the exact model)", info)
    # malformed stream: a register name that already exists among the final-state measurements
    from qibo import Circuit, gates
    try:
        c = Circuit(2)
        c.add(gates.M(0, register_name="a"))
        c.add(gates.M(1, register_name="a"))
        rejected = False
    except KeyError:
        rejected = True
    mres, _ = run.coq_bools("bookkeeping_malformed.v", HEADER,
                            [("dup", "match build_circ [XM [0]%nat (Some 0%nat) false; XM [1]%nat (Some 0%nat) false] with None => true | Some _ => false end")])
    run.case({"bookkeeping_malformed": "duplicate register name"}, False)
    if mres is None or mres["dup"] != rejected:
        ok = False
        run.find("bookkeeping:duplicate_name", "model and implementation disagree on rejecting a duplicate register name", {"implementation_rejects": rejected})
    run.oblige("correspondence:circuit_add_bookkeeping", ok, "correspondence")


# ------------------------------------------------------------------ part H: bit-flip measurement noise (p > 0)
def bitflip_case(run, be, tag, i, executions=1):
    """one circuit object with measurement bit-flip noise, `executions` results, all eight views of
    every result in random order (frequencies possibly first).  Deterministic maps (p in {0,1} per
    qubit) are compared exactly with the flipped noiseless draws; fractional maps are judged for
    consistency only.  Returns (info, [(label, coq bool)])."""
    from qibo import Circuit, gates
    crng = random.Random(f"{run.seed}:{tag}:{i}")
    n = crng.randint(1, 3)
    regs = random_registers(crng, n)
    Q = [q for reg in regs for q in reg]
    deterministic = (i % 3 != 2)
    if deterministic:
        flipped = [q for q in Q if crng.random() < 0.5] or [Q[0]]
        pmap = {q: (1.0 if q in flipped else 0.0) for q in Q}
    else:
        flipped = None
        pmap = {q: crng.choice([0.0, 0.25, 0.5, 0.75]) for q in Q}
        if sum(pmap.values()) == 0:
            pmap[Q[0]] = 0.5
    c = Circuit(n)
    for reg in regs:
        c.add(gates.M(*reg, p0={q: pmap[q] for q in reg}))
    info = {"part": tag, "case": i, "n": n, "registers": regs, "bitflip_p0=p1": {str(q): pmap[q] for q in Q}, "executions": []}
    items = []
    cfg = f"(mkcfg {n}%nat {nat_list_list(regs)})"
    results = []
    for e in range(executions):
        ints, j = dyadic_state(crng, n)
        ns = crng.randint(1, 8)
        results.append((c(initial_state=np.array(ints, dtype=complex) / 2 ** j, nshots=ns), ns))
        info["executions"].append({"state_times_2^j": [str(a) for a in ints], "j": j, "nshots": ns})
    order = list(range(executions))
    crng.shuffle(order)
    for e in order:
        r, ns = results[e]
        draws = []
        orig = be.sample_shots

        def shots(probabilities, nshots_):
            out = orig(probabilities, nshots_)
            draws.append([int(v) for v in np.asarray(out).tolist()])
            return out
        be.sample_shots = shots
        try:
            be.set_seed(crng.randrange(2 ** 31))
            views = [(kind, b, rg) for kind in ("samples", "freqs") for b in (True, False) for rg in (True, False)]
            crng.shuffle(views)
            outs = []
            for kind, b, rg in views:
                v = r.samples(binary=b, registers=rg) if kind == "samples" else r.frequencies(binary=b, registers=rg)
                outs.append((kind, b, rg, v))
            S = [int(x) for x in np.asarray(r.samples(binary=False)).tolist()]
        finally:
            del be.sample_shots
        ex = info["executions"][e]
        ex.update({"view_order": [f"{k}:{b}:{rg}" for k, b, rg in views], "noiseless_draws": draws, "samples": S})
        items.append((f"r{e}:count", f"(length {nat_list(S)} =? {ns})%nat"))
        if len(draws) != 1:
            items.append((f"r{e}:one_draw", "false"))
        elif deterministic:
            mask = bits_lit([1 if q in flipped else 0 for q in Q])
            items.append((f"r{e}:flips", f"list_eqb Nat.eqb (map (flip_shot {len(Q)}%nat {mask}) {nat_list(draws[0])}) {nat_list(S)}"))
        for kind, b, rg, v in outs:
            op = (f"Samples 0%nat {b2s(b)} {b2s(rg)} (@nil nat)" if kind == "samples" else f"Freqs 0%nat {b2s(b)} {b2s(rg)} (@nil (nat * nat))")
            items.append((f"r{e}:{kind}:{b}:{rg}", f"explainsb {cfg} (@nil Z) {nat_list(S)} ({op}) ({out_term(kind, b, rg, v, c.measurements)})"))
    return info, items


def part_bitflip(run, rng, be, count, tag="bitflip", executions=1, only=None):
    all_items, meta = [], []
    for i in (range(count) if only is None else only):
        try:
            info, items = bitflip_case(run, be, tag, i, executions)
        except Exception as e:  # noqa
            run.find(f"{tag}:raised", "reading the views of a result with bit-flip noise raised: " + repr(e)[:200], {"part": tag, "case": i})
            continue
        run.case({tag: info}, True)
        if i == 0:
            run.sample(info)
        for label, term in items:
            all_items.append((f"{tag}{i}:{label}", term))
            meta.append((f"{tag}{i}:{label}", label, info))
    res = {}
    for ci in range(0, len(all_items), 400):
        part, _ = run.coq_bools(f"{tag}_{ci // 400}.v", HEADER, all_items[ci:ci + 400], timeout=900)
        if part is None:
            run.find(f"{tag}:coq-failed", "generated file did not compile", {}, concrete=False)
            return
        res.update(part)
    ok = True
    for label, short, info in meta:
        if not res[label]:
            ok = False
            kind = short.split(":")[1]
            what = {"count": "number of noisy samples differs from nshots", "flips": "noisy samples are not the noiseless draws with exactly the bits of the p=1 qubits flipped (bit-flip map applied to the wrong qubits / bit order)",
                    "one_draw": "unexpected number of sampling calls"}.get(kind, "a view of a result with bit-flip noise is not the same data as its own samples")
            run.find(f"{tag}:{kind if kind in ('count', 'flips', 'one_draw') else 'views'}", what, dict(info, failed=short))
    if ok and not any(f.key.startswith(tag + ":") for f in run.findings):
        run.oblige(f"test:{tag}_views_consistent", True, "test")


# ------------------------------------------------------------------ part H2: the post-hoc accessor result.apply_bitflips(p0, p1)
def bitflip_accessor_case(run, be, tag, i):
    """one result (state vector / density matrix / shot-by-shot), the eight views and apply_bitflips calls
    (deterministic maps: every probability 0 or 1, all argument forms; 0->1 and 1->0 maps different) in
    random order, frequencies possibly first.  The returned array must be the result's OWN samples with
    exactly the mapped columns flipped (exact, Coq flip_shot01), and the call must be pure: every view read
    before or after it is explained by the same list of shots, which is what the object still holds."""
    from qibo import Circuit, gates
    crng = random.Random(f"{run.seed}:{tag}:{i}")
    n = crng.randint(1, 3)
    regs = random_registers(crng, n)
    Q = [q for reg in regs for q in reg]
    mode = ("sv", "dm", "repeated")[i % 3]
    c = Circuit(n, density_matrix=(mode == "dm"))
    if mode == "repeated":
        c.add(gates.M(crng.randrange(n), collapse=True))
    for reg in regs:
        c.add(gates.M(*reg))
    ints, j = dyadic_state(crng, n)
    psi = np.array(ints, dtype=complex) / 2 ** j
    ns = crng.randint(1, 8)
    be.set_seed(crng.randrange(2 ** 31))
    with np.errstate(all="ignore"):
        r = c(initial_state=(np.outer(psi, psi.conj()) if mode == "dm" else psi), nshots=ns)
    info = {"part": tag, "case": i, "mode": mode, "n": n, "registers": regs, "state_times_2^j": [str(a) for a in ints], "j": j, "nshots": ns, "calls": []}
    cfg = f"(mkcfg {n}%nat {nat_list_list(regs)})"
    views = [(kind, b, rg) for kind in ("samples", "freqs") for b in (True, False) for rg in (True, False)]
    crng.shuffle(views)
    script = [("view",) + v for v in views[: crng.randint(3, 8)]]
    for _ in range(crng.randint(1, 3)):
        script.insert(crng.randint(0 if i % 2 else 1, len(script)), ("flip",))
    outs = []
    for step in script:
        if step[0] == "view":
            _, kind, b, rg = step
            v = r.samples(binary=b, registers=rg) if kind == "samples" else r.frequencies(binary=b, registers=rg)
            if rg and (not isinstance(v, dict) or isinstance(v, collections.Counter)):
                continue
            outs.append(("view", kind, b, rg, out_term(kind, b, rg, v, c.measurements)))
            info["calls"].append(f"{kind}(binary={b}, registers={rg})")
        else:
            m0 = [crng.randint(0, 1) for _ in Q]
            m1 = [crng.randint(0, 1) for _ in Q] if crng.random() < 0.6 else None

            def form(m):
                t = crng.random()
                if len(set(m)) == 1 and t < 0.4:
                    return float(m[0])
                if t < 0.7:
                    return {q: float(x) for q, x in zip(Q, m) if x or crng.random() < 0.5}
                return [float(x) for x in m] if t < 0.85 else tuple(float(x) for x in m)
            p0, p1 = form(m0), (None if m1 is None else form(m1))
            v = r.apply_bitflips(p0) if p1 is None else r.apply_bitflips(p0, p1)
            a = np.asarray(v)
            dec = [int("".join(str(int(x)) for x in row) or "0", 2) for row in a.tolist()] if a.ndim == 2 and a.shape[1] == len(Q) else None
            outs.append(("flip", m0, m0 if m1 is None else m1, dec, a.shape))
            info["calls"].append(f"apply_bitflips({p0!r}, {p1!r}) -> {a.tolist()}")
    S = [int(x) for x in np.asarray(r.samples(binary=False)).tolist()]
    info["samples"] = S
    items = [("count", f"(length {nat_list(S)} =? {ns})%nat")]
    for t, o in enumerate(outs):
        if o[0] == "view":
            _, kind, b, rg, term = o
            op = (f"Samples 0%nat {b2s(b)} {b2s(rg)} (@nil nat)" if kind == "samples" else f"Freqs 0%nat {b2s(b)} {b2s(rg)} (@nil (nat * nat))")
            items.append((f"purity:{t}:{kind}:{b}:{rg}", f"explainsb {cfg} (@nil Z) {nat_list(S)} ({op}) ({term})"))
        else:
            _, m0, m1, dec, shape = o
            if dec is None:
                items.append((f"flips:{t}:shape", "false"))
            else:
                items.append((f"flips:{t}", f"list_eqb Nat.eqb (map (flip_shot01 {len(Q)}%nat {bits_lit(m0)} {bits_lit(m1)}) {nat_list(S)}) {nat_list(dec)}"))
    return info, items


def part_bitflip_accessor(run, rng, be, count, tag="bitflip_accessor", only=None):
    all_items, meta = [], []
    for i in (range(count) if only is None else only):
        try:
            info, items = bitflip_accessor_case(run, be, tag, i)
        except Exception as e:  # noqa
            run.find(f"{tag}:raised", "result.apply_bitflips / reading the views raised: " + repr(e)[:200], {"part": tag, "case": i})
            continue
        run.case({tag: info}, True)
        if i == 0:
            run.sample(info)
        for label, term in items:
            all_items.append((f"{tag}{i}:{label}", term))
            meta.append((f"{tag}{i}:{label}", label, info))
    res = {}
    for ci in range(0, len(all_items), 400):
        part, _ = run.coq_bools(f"{tag}_{ci // 400}.v", HEADER, all_items[ci:ci + 400], timeout=900)
        if part is None:
            run.find(f"{tag}:coq-failed", "generated file did not compile", {}, concrete=False)
            return
        res.update(part)
    ok = True
    for label, short, info in meta:
        if not res[label]:
            ok = False
            kind = short.split(":")[0]
            what = {"count": "number of samples differs from nshots",
                    "flips": "result.apply_bitflips(p0, p1) with a deterministic map did not return the result's own samples with exactly the mapped columns flipped (0->1 where p0=1, 1->0 where p1=1)",
                    "purity": "a view of the result read before / after result.apply_bitflips is not explained by the samples the result holds: the accessor changed the result (or views disagree)"}[kind]
            run.find(f"{tag}:{kind}" + (":" + ":".join(short.split(":")[2:]) if kind == "purity" else ""), what, dict(info, failed=short))
    # distribution of the fractional flips (statistical, fixed seeds): |0..0> gains ones at rate p0, |1..1> loses them at rate p1
    from qibo import Circuit, gates
    dist_ok = True
    for t, (p0, p1) in enumerate([(0.25, 0.0), (0.0, 0.5), (0.5, 0.125), ({0: 0.75}, {1: 0.25})] if only is None else []):
        crng = random.Random(f"{run.seed}:{tag}:dist:{t}")
        c = Circuit(2)
        c.add(gates.X(0))
        c.add(gates.M(0, 1))
        ns = 6000
        be.set_seed(crng.randrange(2 ** 31))
        r = c(nshots=ns)
        before = np.array(r.samples(), copy=True)
        noisy = np.asarray(r.apply_bitflips(p0, p1))
        after = np.asarray(r.samples())
        info = {"part": tag, "distribution": t, "p0": repr(p0), "p1": repr(p1), "nshots": ns, "state": "|10>"}
        run.case({tag: info}, True)
        if not np.array_equal(before, after):
            dist_ok = False
            run.find(f"{tag}:purity:samples", "result.samples() changed after result.apply_bitflips(p0, p1)", info)
        P0 = [p0.get(q, 0.0) for q in (0, 1)] if isinstance(p0, dict) else [p0, p0]
        P1 = [p1.get(q, 0.0) for q in (0, 1)] if isinstance(p1, dict) else [p1, p1]
        # qubit 0 is 1 (loses at rate p1[0]); qubit 1 is 0 (gains at rate p0[1])
        for col, (rate, flipped) in enumerate([(P1[0], np.sum(noisy[:, 0] == 0)), (P0[1], np.sum(noisy[:, 1] == 1))]):
            sigma = (ns * rate * (1 - rate)) ** 0.5
            if abs(flipped - ns * rate) > 5 * sigma + 1e-9:
                dist_ok = False
                run.find(f"{tag}:distribution", f"column {col}: {int(flipped)} of {ns} shots flipped, expected rate {rate} (more than 5 sigma away)", dict(info, column=col, flipped=int(flipped)))
    if only is None:
        run.oblige(f"test:{tag}_flip_rates_within_5_sigma", dist_ok, "test")
    if ok and not any(f.key.startswith(tag + ":") for f in run.findings):
        run.oblige(f"test:{tag}_exact_and_pure", True, "test")


# ------------------------------------------------------------------ part I: gates conditioned on several collapsed outcomes
def conditioned_case(run, be, i):
    """>= 2 collapsing measurements in one circuit, X-prepared basis state so that their outcomes
    are determined (and differ), gates RX(q, theta = pi * integer combination of symbols of the
    different measurements), final measurement of all qubits; state vector and density matrix.
    Per shot: recorded outcomes, the multiple of pi every conditioned gate received and the final
    samples are compared with the model (each symbol = the bit recorded by ITS measurement)."""
    from qibo import Circuit, gates
    crng = random.Random(f"{run.seed}:conditioned:{i}")
    n = crng.randint(3, 5)
    dm = bool(i % 2)
    nm = crng.randint(2, 3)
    perm = crng.sample(range(n), n)
    sizes = [1] * nm
    for _ in range(crng.randint(0, max(0, n - nm - 1))):
        sizes[crng.randrange(nm)] += 1
    groups, pos = [], 0
    for s in sizes:
        groups.append(perm[pos:pos + s])
        pos += s
    # the first bits of the first two measurements differ with certainty
    ones = {groups[0][0]} | {q for q in range(n) if q not in (groups[0][0], groups[1][0]) and crng.random() < 0.5}
    c = Circuit(n, density_matrix=dm)
    xops, script = [], []
    for q in sorted(ones):
        c.add(gates.X(q))
        xops.append(f"XG (@nil nat, [{q}]%nat, {GATE_ZI['X']})")
        script.append(f"X({q})")
    handles, cond = [], []

    def add_conditioned(avail):
        q = crng.randrange(n)
        terms = []
        for mi in crng.sample(avail, crng.randint(1, min(2, len(avail)))):
            terms.append((crng.choice([1, 1, 2, 3]), mi, crng.randrange(len(groups[mi]))))
        expr = sum(cf * handles[mi].symbols[b] for cf, mi, b in terms)
        g = gates.RX(q, theta=np.pi * expr)
        seen = []
        orig = g.substitute_symbols

        def wrapped(_g=g, _o=orig, _s=seen):
            _o()
            _s.append(float(_g.parameters[0]))
        g.substitute_symbols = wrapped
        c.add(g)
        cond.append(seen)
        xops.append(f"XC {q}%nat [" + "; ".join(f"({cf}, {mi}, {b})%nat" for cf, mi, b in terms) + "]")
        script.append(f"RX({q}, theta=pi*(" + " + ".join(f"{cf}*r{mi}.symbols[{b}]" for cf, mi, b in terms) + "))")

    for k_, g_ in enumerate(groups):
        handles.append(c.add(gates.M(*g_, collapse=True)))
        xops.append(f"XM {nat_list(g_)} None true")
        script.append(f"r{k_} = M({','.join(map(str, g_))}, collapse=True)")
        if k_ >= 1 and crng.random() < 0.3:
            add_conditioned(list(range(k_ + 1)))
    # one gate per measurement on its bit 0 (same bit index in different gates), plus random ones
    order = list(range(nm))
    crng.shuffle(order)
    for mi in order:
        q = crng.randrange(n)
        g = gates.RX(q, theta=np.pi * handles[mi].symbols[0])
        seen = []
        orig = g.substitute_symbols

        def wrapped(_g=g, _o=orig, _s=seen):
            _o()
            _s.append(float(_g.parameters[0]))
        g.substitute_symbols = wrapped
        c.add(g)
        cond.append(seen)
        xops.append(f"XC {q}%nat [(1, {mi}, 0)%nat]")
        script.append(f"RX({q}, theta=pi*r{mi}.symbols[0])")
    for _ in range(crng.randint(0, 2)):
        add_conditioned(list(range(nm)))
    c.add(gates.M(*range(n)))
    xops.append(f"XM {nat_list(range(n))} None false")
    script.append(f"M({','.join(map(str, range(n)))})")
    nshots = crng.randint(1, 3)
    info = {"part": "conditioned", "case": i, "n": n, "density_matrix": dm, "nshots": nshots, "script": script}
    # NOTE: cond is in creation order of the conditioned gates = queue order of the XC items
    draws = []
    orig_s = be.sample_shots

    def shots(probabilities, ns):
        out = orig_s(probabilities, ns)
        draws.append([int(v) for v in np.asarray(out).tolist()])
        return out
    be.sample_shots = shots
    try:
        be.set_seed(crng.randrange(2 ** 31))
        r = c(nshots=nshots)
        final = np.asarray(r.samples(binary=True)).tolist()
    finally:
        del be.sample_shots
    per = nm + 1
    if len(draws) != per * nshots:
        info["draws"] = draws
        return info, [], "unexpected number of sampling calls"
    xs = "[" + "; ".join(xops) + "]"
    psi0 = "[" + "; ".join(["zi1"] + ["zi0"] * (2 ** n - 1)) + "]"
    items = []
    info["per_shot"] = []
    for s in range(nshots):
        sd = [d[0] for d in draws[s * per:(s + 1) * per]]
        rec = [(k_, [int(b) for b in np.asarray(handles[k_]._samples[s]).tolist()]) for k_ in range(nm)]
        ks = []
        for seen in cond:
            th = seen[s] if s < len(seen) else float("nan")
            kk = int(round(th / np.pi)) if th == th else -1
            if not (abs(th - kk * np.pi) < 1e-9 and kk >= 0):
                kk = 999
            ks.append(kk)
        info["per_shot"].append({"draws": sd, "recorded": rec, "multiples_of_pi_seen_by_conditioned_gates": ks, "final_samples": final[s]})
        rec_lit = "[" + "; ".join(f"({k_}%nat, {bits_lit(b)})" for k_, b in rec) + "]"
        items.append((f"shot{s}", f"shot_check_cond {n}%nat {xs} {psi0} {nat_list(sd)} {rec_lit} {nat_list(ks)} [{bits_lit(final[s])}]"))
    return info, items, None


def part_conditioned(run, rng, be, count, only=None):
    exprs, meta = [], []
    ok = True
    for i in (range(count) if only is None else only):
        try:
            info, items, problem = conditioned_case(run, be, i)
        except Exception as e:  # noqa
            info, items, problem = {"part": "conditioned", "case": i}, [], "raised: " + repr(e)[:300]
        run.case({"conditioned": info.get("script"), "dm": info.get("density_matrix"), "nshots": info.get("nshots")}, True)
        if i < 2:
            run.sample({k: v for k, v in info.items() if k != "per_shot"})
        if problem:
            ok = False
            run.find("conditioned:execution", "building or executing a circuit with gates conditioned on collapsed outcomes failed: " + problem, info)
        for label, term in items:
            exprs.append(term)
            meta.append((label, info))
    vals = eval_cases(run, "conditioned", exprs, chunk=60)
    if vals is None:
        run.oblige("correspondence:conditioned_gates", False, "correspondence")
        run.find("conditioned:coq-failed", "generated file did not compile", {}, concrete=False)
        return
    for (label, info), v in zip(meta, vals):
        bs = [x == "true" for x in re.findall(r"true|false", v)]
        if len(bs) != 5 or not all(bs):
            ok = False
            names = ["model ran", "recorded outcomes", "angles of the conditioned gates", "final samples", "sampler contract"]
            bad = [nm_ for nm_, b in zip(names, bs) if not b] if len(bs) == 5 else ["unparsable"]
            if "angles of the conditioned gates" in bad or "final samples" in bad:
                run.find("conditioned:gate_sees_other_outcome",
                         "a gate whose angle depends on result.symbols of a collapsing measurement was not evaluated with the outcome recorded by THAT "
                         "measurement in this shot (disagreeing: " + ", ".join(bad) + ")", dict(info, shot=label))
            else:
                run.find("conditioned:model", "per-shot model disagrees with the implementation: " + ", ".join(bad), dict(info, shot=label), concrete=False)
    run.oblige("correspondence:conditioned_gates", ok, "correspondence")


# ------------------------------------------------------------------ part J: frequencies sampled in batches
def part_batches(run, rng, be, count, only=None):
    """frequencies() before samples() draws the shots in batches of qibo.get_batch_size(); with a small
    batch size, shot counts at and around the multiples of the batch size, state vector and density
    matrix.  Coq oracle: total = nshots, support, per-register totals, consistency with the samples
    rebuilt from the frequencies."""
    import qibo
    from qibo import Circuit, gates
    items, meta = [], []
    default = qibo.get_batch_size()
    try:
        for i in (range(count) if only is None else only):
            crng = random.Random(f"{run.seed}:batches:{i}")
            n = crng.randint(1, 3)
            regs = random_registers(crng, n)
            dm = bool(i % 2)
            batch = crng.choice([1, 2, 3, 5, 8])
            nshots = crng.choice([batch, 2 * batch, 3 * batch, batch + 1, max(1, batch - 1), 2 * batch + 1])
            ints, j = dyadic_state(crng, n)
            psi = np.array(ints, dtype=complex) / 2 ** j
            c = Circuit(n, density_matrix=dm)
            for reg in regs:
                c.add(gates.M(*reg))
            qibo.set_batch_size(batch)
            be.set_seed(crng.randrange(2 ** 31))
            try:
                r = c(initial_state=(np.outer(psi, psi.conj()) if dm else psi), nshots=nshots)
                F = r.frequencies(binary=False)
            except Exception as e:  # noqa
                run.case({"batches": i, "raised": True}, False)
                run.find("batches:raised", "executing the circuit / frequencies() raised: " + repr(e)[:200],
                         {"part": "batches", "case": i, "n": n, "registers": regs, "density_matrix": dm, "batch_size": batch, "nshots": nshots, "raised": repr(e)[:300]})
                continue
            w = [int(abs(a) ** 2) for a in ints]
            try:
                FR = r.frequencies(binary=False, registers=True)
                S = [int(x) for x in np.asarray(r.samples(binary=False)).tolist()]
            except Exception as e:  # noqa
                bad = {"part": "batches", "case": i, "n": n, "registers": regs, "density_matrix": dm, "batch_size": batch, "nshots": nshots,
                       "state_times_2^j": [str(a) for a in ints], "j": j, "frequencies": dict(sorted(F.items())), "total": sum(F.values()),
                       "raised": repr(e)[:200]}
                run.case({"batches": bad}, nshots % batch == 0)
                run.find("batches:total" if sum(F.values()) != nshots else "batches:raised",
                         f"frequencies() sampled before samples() sum to {sum(F.values())} instead of nshots={nshots}; the following accessor raised " + repr(e)[:120], bad)
                continue
            info = {"part": "batches", "case": i, "n": n, "registers": regs, "density_matrix": dm, "batch_size": batch, "nshots": nshots,
                    "state_times_2^j": [str(a) for a in ints], "j": j, "frequencies": dict(sorted(F.items())), "total": sum(F.values()),
                    "register_totals": [sum(FR[m_.register_name].values()) for m_ in c.measurements], "nsamples": len(S)}
            run.case({"batches": info}, nshots % batch == 0)
            if i == 0:
                run.sample(info)
            cfg = f"(mkcfg {n}%nat {nat_list_list(regs)})"
            Q = [q for reg in regs for q in reg]
            items.append((f"b{i}:total", f"(total {counter_lit(F)} =? {nshots})%nat && nodupb (keys {counter_lit(F)}) && "
                          f"forallb (in_support {len(Q)}%nat (born_vec {n}%nat {nat_list(Q)} {z_list(w)})) (keys {counter_lit(F)})"))
            items.append((f"b{i}:registers", f"explainsb {cfg} (@nil Z) (expand {counter_lit(F)}) (Freqs 0%nat false true (@nil (nat * nat))) "
                          f"({out_term('freqs', False, True, FR, c.measurements)}) && "
                          f"forallb (fun f => (total f =? {nshots})%nat) [{'; '.join(counter_lit(FR[m_.register_name]) for m_ in c.measurements)}]"))
            items.append((f"b{i}:samples", f"(length {nat_list(S)} =? {nshots})%nat && counts_okb {counter_lit(F)} {nat_list(S)}"))
            for lab in ("total", "registers", "samples"):
                meta.append((f"b{i}:{lab}", lab, info))
    finally:
        qibo.set_batch_size(default)
    res, _ = run.coq_bools("batches.v", HEADER, items, timeout=900)
    if res is None:
        run.find("batches:coq-failed", "generated file did not compile", {}, concrete=False)
        return
    ok = True
    for label, lab, info in meta:
        if not res[label]:
            ok = False
            what = {"total": "frequencies() sampled before samples() do not sum to nshots (or contain an outcome of zero probability)",
                    "registers": "per-register frequencies are not the projection of the global ones / do not sum to nshots",
                    "samples": "samples() rebuilt from the frequencies have the wrong count or other counts"}[lab]
            run.find(f"batches:{lab}", what, info)
    if ok and not any(f.key.startswith("batches:") for f in run.findings):
        run.oblige("test:frequencies_sum_to_nshots_for_all_batch_boundaries", True, "test")

# ------------------------------------------------------------------ main
RULE = ("probabilities: random n<=5, random duplicate-free ordered qubit lists (biased to unsorted), Gaussian-integer states with exact moduli / "
        "integer density matrices, through the backend function and through Circuit execution; non-trivial = list differs from range(n) and "
        ">=2 distinct weights.  conversions: random sample arrays.  views: random register partitions in permuted qubit order, dyadic "
        "normalised states, 2..8 random accessor calls (samples/frequencies x binary x registers, probabilities) on one result with the "
        "implementation's draws fed to the model; non-trivial = >=3 different accessor kinds and more than one register or qubit.  "
        "collapse: M(*qubits, collapse=True) on unsorted/sorted lists mid-circuit followed by X/Y/Z/CNOT/CZ/SWAP and a final measurement, "
        "every shot one case; direct collapse_state/collapse_density_matrix calls on integer data.  repeated: state-vector circuits with a "
        "collapsing measurement (shot-by-shot execution), the eight sample/frequency views of the MeasurementOutcomes judged by the Coq "
        "specification explainsb against its own samples.  bookkeeping: X-prepared basis states, 2-4 measurement registers (default and custom "
        "names), then 1-3 later gates (X/Y/Z/CNOT/CZ/SWAP, 65% touching two registers at once), optional re-measurement of freed qubits and "
        "further gates; collapse flags / names / circuit.measurements / has_collapse compared structurally with the model of Circuit.add, and "
        "every shot's recorded and final register outcomes compared with the exact per-shot model.  bitflip: measurement registers with "
        "bit-flip maps (2/3 deterministic p in {0,1} per qubit: noisy samples = noiseless draws with exactly those bits flipped, exact; 1/3 "
        "fractional p: consistency only), all eight views in random order judged by the Coq oracle against the result's own samples.  "
        "bitflip_accessor: the post-hoc accessor result.apply_bitflips(p0, p1) on state-vector / density-matrix / shot-by-shot results, deterministic maps in every "
        "argument form (float, dict, list, tuple; p1 given or defaulted), 1-3 calls interleaved with 3-8 views in random order (frequencies possibly first): returned array = own "
        "samples with exactly the mapped columns flipped (exact), every view before/after explained by the samples the result holds (purity); fractional maps: flip rates of 6000 shots "
        "within 5 sigma (test).  "
        "conditioned: 2-3 collapsing measurements (1-2 qubits each, outcomes determined by X preparation and differing between the first two), "
        "RX gates whose angle is pi times an integer combination of symbols of different measurements (same bit index in different gates), "
        "state vector and density matrix, per shot recorded outcomes / angles received / final samples against the model.  batches: "
        "qibo.set_batch_size(1,2,3,5,8) with nshots at and around multiples of the batch size, frequencies() before samples().")


def budgets(tier):
    if tier == "thorough":
        return {"probs": 480, "conv": 200, "views": 900, "collapse": 300, "direct": 240, "symbols": 60, "repeated": 120, "bookkeeping": 600, "bitflip": 300, "bitflip_accessor": 400, "conditioned": 300, "batches": 240, "near_exact": 220}
    return {"probs": 150, "conv": 60, "views": 160, "collapse": 70, "direct": 60, "symbols": 20, "repeated": 30, "bookkeeping": 120, "bitflip": 60, "bitflip_accessor": 90, "conditioned": 60, "batches": 60, "near_exact": 66}


def static_obligations(run, theory):
    ok, res = vcore.static_assumptions(theory)
    names = vcore.props_theorems(theory + ".v")
    for nm in names:
        txt = res.get(nm, "")
        closed = txt.startswith("Closed under the global context")
        if nm.endswith("_refuted"):   # names ending in _refuted_before_repair are historical lemmas
            run.refuted.append(nm[: -len("_refuted")])
        run.oblige("theorem:" + nm, ok and nm in res, "theorem")
        if ok and not closed:
            for m in re.finditer(r"([A-Za-z_][\w.]*)\s*:", txt):
                run.axioms.add(m.group(1))
    run.checker_cmds.append(f"make theories/{theory}.vo (coqc, static) ; Print Assumptions for {len(names)} theorems")
    return names


def safe_part(run, name, fn):
    """last line of defence: an exception escaping a part (every part already turns exceptions of the
    implementation under test into concrete findings with the input) must not stop the other parts"""
    import traceback
    try:
        fn()
    except Exception:  # noqa
        tb = traceback.format_exc()
        run.find(f"{name}:part_aborted", f"part {name} aborted: " + tb[-600:], {"part": name, "traceback": tb[-2000:]}, concrete=False)


def coqchk(run, module):
    """thorough tier: re-check the compiled cone of the Props file with the independent checker"""
    rc, out = vcore.sh(f"timeout 1500 coqchk -silent -o -Q theories QV {module}", timeout=1600, cwd=vcore.COQ)
    ok = rc == 0 and "Axioms: <none>" in out
    run.oblige(f"coqchk:{module}", ok, "checker")
    run.checker_cmds.append(f"coqchk -silent -o -Q theories QV {module}")
    if not ok:
        run.find(f"coqchk:{module}", "coqchk failed or reports axioms: " + out[-400:], {}, concrete=False)


def main(run):
    rng = random.Random(run.seed)
    be = backend()
    run.trusted += ["Coq 8.16.1 kernel, vm_compute",
                    "numpy semantics of reshape/transpose/sum(axis)/einsum('abab->a')/expand_dims/concatenate as transcribed in C03/ModelProbs.v and C03/ModelCollapse.v (tensors as functions on bit lists)",
                    "harness/c03.py: serialisation of inputs/outputs, recording of the implementation's draws"]
    run.assumptions += ["near_exact: the projection is exact (Coq, Gaussian integers); its float normalisation is compared at 1e-14 (np.abs of a general Gaussian integer is not exact); near_float: 1e-12 (test)",
                        "exact arithmetic (float rounding not modelled); the state-machine theorems are for bit-flip probabilities p = 0 (p > 0 is covered at test level by the bitflip part)",
                        "np.random.choice / np.random.shuffle / sample_frequencies are oracles: only their contract (count, support, permutation) is assumed, and checked on every draw"]
    names = static_obligations(run, "C03/Props")
    if run.tier == "thorough":
        coqchk(run, "QV.C03.Props")
    run.not_proved += [n[: -len("_partial")] + " (full statement; see the _partial theorem)" for n in names if n.endswith("_partial")]
    run.notes["model_follows"] = ("the repaired tree: MeasurementResult.add_shot records the bits in the gate's own qubit order; "
                                  "frequencies(registers=True) honours `registers` for repeated-execution results")
    b = budgets(run.tier)
    safe_part(run, "probs", lambda: part_probabilities(run, rng, be, b["probs"]))
    safe_part(run, "conv", lambda: part_conversions(run, rng, be, b["conv"]))
    safe_part(run, "views", lambda: part_views(run, rng, be, b["views"]))
    safe_part(run, "collapse", lambda: part_collapse(run, rng, be, b["collapse"]))
    safe_part(run, "collapse_direct", lambda: part_collapse_direct(run, rng, be, b["direct"]))
    safe_part(run, "symbols", lambda: part_symbols(run, rng, be, b["symbols"]))
    safe_part(run, "repeated", lambda: part_repeated(run, rng, be, b["repeated"]))
    safe_part(run, "bookkeeping", lambda: part_bookkeeping(run, rng, be, b["bookkeeping"]))
    safe_part(run, "bitflip", lambda: part_bitflip(run, rng, be, b["bitflip"]))
    safe_part(run, "bitflip_accessor", lambda: part_bitflip_accessor(run, rng, be, b["bitflip_accessor"]))
    safe_part(run, "conditioned", lambda: part_conditioned(run, rng, be, b["conditioned"]))
    safe_part(run, "batches", lambda: part_batches(run, rng, be, b["batches"]))
    from harness import c03_g
    run.not_proved += [n_ for n_ in static_obligations(run, "C03/PropsHandles") if n_.endswith("_partial")]
    safe_part(run, "near_exact", lambda: c03_g.part_near_exact(run, be, b["near_exact"]))
    safe_part(run, "near_float", lambda: c03_g.part_near_float(run, be))
    safe_part(run, "routes", lambda: c03_g.part_routes(run, be, c03_g.routes_count(run.tier)))
    return run.finish(rule=RULE + c03_g.RULE)


def replay(run, data):
    be = backend()
    rp = data.get("replay", {})
    part, i = rp.get("part"), rp.get("case")
    run.seed = data.get("seed", run.seed)
    if part == "views":
        try:
            hr = one_view_history(run, be, i)
            vals = eval_cases(run, "replay_views", [hr.coq_case()])
            if vals:
                judge_history(run, hr, vals[0], f"views:regs={hr.regs}".replace(" ", ""), rp)
        except Exception as e:  # noqa
            run.find("views:raised", "executing a circuit with measurements / reading a view raised: " + repr(e)[:200], rp)
    elif part == "collapse":
        part_collapse(run, None, be, 0, only=[i])
    elif part == "symbols":
        part_symbols_range(run, be, [i])
    elif part == "conditioned":
        part_conditioned(run, None, be, 0, only=[i])
    elif part == "batches":
        part_batches(run, None, be, 0, only=[i])
    elif part == "bitflip":
        part_bitflip(run, None, be, 0, only=[i])
    elif part == "bitflip_accessor":
        if i is None:
            part_bitflip_accessor(run, None, be, 0)
        else:
            part_bitflip_accessor(run, None, be, 0, only=[i])
    elif part == "bookkeeping":
        part_bookkeeping(run, None, be, 0, only=[i])
    elif part in ("near_exact", "near_float", "routes"):
        from harness import c03_g
        {"near_exact": lambda: c03_g.part_near_exact(run, be, 0, only=[i]),
         "near_float": lambda: c03_g.part_near_float(run, be, only=[i]),
         "routes": lambda: c03_g.part_routes(run, be, 0, only=[i])}[part]()
    elif part == "repeated":
        part_repeated(run, None, be, i + 1)
        run.findings = [f for f in run.findings if f.key == data.get("key") and f.replay.get("case") == i]
    elif part in ("probs", "conv", "collapse_direct"):
        # these parts are cheap: re-run them completely with the recorded seed
        b = budgets(data.get("tier", "quick"))
        rng = random.Random(run.seed)
        {"probs": lambda: part_probabilities(run, rng, be, b["probs"]),
         "conv": lambda: part_conversions(run, rng, be, b["conv"]),
         "collapse_direct": lambda: part_collapse_direct(run, rng, be, b["direct"])}[part]()
        run.findings = [f for f in run.findings if f.key == data.get("key")]
    return run.finish(rule="replay of one recorded case")


def part_collapse_single(run, be, cases):
    for c in cases:
        if c.get("error"):
            run.find("collapse:raised", "executing the circuit raised: " + c["error"], {"case": c["case"]})
    cases = [c for c in cases if c["expr"] is not None]
    vals = eval_cases(run, "replay_collapse", [c["expr"] for c in cases])
    for c, v in zip(cases or [], vals or []):
        p = parse_collapse(v)
        if p and not p[4]:
            tqs = ",".join(map(str, c["tq"]))
            srt = "sorted" if c["tq"] == sorted(c["tq"]) else "unsorted"
            run.find(f"collapse_order:{srt}:M({tqs})", "recorded bits are not in the order of the gate's qubits", {"case": c["case"]})


def part_symbols_range(run, be, idxs):
    # same generator as part_symbols, restricted to the given case indices
    count = max(idxs) + 1
    before = len(run.findings)
    part_symbols(run, None, be, count)
    keep = [f for f in run.findings[before:] if f.replay.get("case") in idxs]
    run.findings = run.findings[:before] + keep
