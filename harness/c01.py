"""C01  State-vector execution applies exactly the circuit's unitary (index / execution part).

Static theorems (coq/theories/C01/Props.v, universally quantified over n, qubit placements,
matrices and states over any commutative semiring): the executable model of
`NumpyBackend.apply_gate` (both branches), of the execution loop and of
`matrix_fused` / `Circuit.unitary` equals the textbook operator Base/Mat.embed / cembed.

Tie to /repo on every run (exact, Gaussian-integer data, no tolerance):
  * the string builders of einsum_utils.py are called directly and compared with the model;
  * the einsum / transpose semantics of the model (mini-numpy) is compared with numpy itself on
    random label strings and permutations;
  * circuits of `gates.Unitary(M, *qubits, check_unitary=False)` (plain / controlled_by) and exact
    named gates on random ordered, non-adjacent placements are executed by the real numpy backend;
    `.state()` and `Circuit.unitary()` are compared inside Coq (vm_compute) with the model, with
    the Spec of the theorems and with the pure Base/Mat.circ_mat spec built from the intent;
  * a malformed stream (duplicate / overlapping / out-of-range qubits, wrong matrix size) must be
    rejected by both sides;
  * fused circuits (`Circuit.fuse`): execution and `FusedGate.matrix` against the model, and
    `Circuit.unitary()` of the fused circuit against the model (Props.unitary_queue_ok) and the spec;
  * histories on long-lived objects (harness/c01_history.py; model C01/History.v, theorems C01/PropsHistory.v): executions,
    Circuit.unitary and gate.matrix after parameter updates through aliases, derived objects, input non-mutation;
  * gate tables (harness/c01_tables.py): every gate class's traced matrix equals the documented
    matrix of Spec/GateSpec.v for all parameters, is unitary, and constructor roles are as documented.
This module also holds the helpers shared with harness/c02.py (density matrices).
"""
STATIC = ["C01/Props", "C01/Examples", "C01/PropsHistory", "C01/ExamplesHistory", "C01/PropsLayout", "Spec/GateSpec", "Base/TrigMat", "Base/SemProps",
          "Base/SemExamples"]
import hashlib
import itertools
import json
import random
import re
from concurrent.futures import ThreadPoolExecutor

import numpy as np

from lib import vcore

LIMIT = 2 ** 50
HEADER = """From Coq Require Import ZArith List Bool.
From QV Require Import Base.Mat Base.Zi C01.Model C01.ModelExtra C01.Spec.
Import ListNotations.
Local Open Scope Z_scope.
Definition veqb (u v : list Zi) : bool :=
  Nat.eqb (length u) (length v) && forallb (fun p => zi_eqb (fst p) (snd p)) (combine u v).
Definition meqb (A B : list (list Zi)) : bool :=
  Nat.eqb (length A) (length B) && forallb (fun p => veqb (fst p) (snd p)) (combine A B).
Definition leqb (u v : list nat) : bool :=
  Nat.eqb (length u) (length v) && forallb (fun p => Nat.eqb (fst p) (snd p)) (combine u v).
Definition seqb (s t : estring) : bool :=
  leqb (fst (fst s)) (fst (fst t)) && leqb (snd (fst s)) (snd (fst t)) && leqb (snd s) (snd t).
Definition G := gate (T:=Zi).
Definition osv (o : option (list Zi)) (ex : list Zi) : bool := match o with Some v => veqb v ex | None => false end.
Definition odm (o : option (list (list Zi))) (ex : list (list Zi)) : bool := match o with Some m => meqb m ex | None => false end.
Definition onone {A} (o : option A) : bool := match o with Some _ => false | None => true end.
"""

# exact named gates: name -> (number of built-in controls, base matrix on the targets)
I_ = 1j
NAMED = {
    "X": (0, [[0, 1], [1, 0]]),
    "Y": (0, [[0, -I_], [I_, 0]]),
    "Z": (0, [[1, 0], [0, -1]]),
    "S": (0, [[1, 0], [0, I_]]),
    "SDG": (0, [[1, 0], [0, -I_]]),
    "CNOT": (1, [[0, 1], [1, 0]]),
    "CY": (1, [[0, -I_], [I_, 0]]),
    "CZ": (1, [[1, 0], [0, -1]]),
    "SWAP": (0, [[1, 0, 0, 0], [0, 0, 1, 0], [0, 1, 0, 0], [0, 0, 0, 1]]),
    "iSWAP": (0, [[1, 0, 0, 0], [0, 0, I_, 0], [0, I_, 0, 0], [0, 0, 0, 1]]),
    "FSWAP": (0, [[1, 0, 0, 0], [0, 0, 1, 0], [0, 1, 0, 0], [0, 0, 0, -1]]),
    "TOFFOLI": (2, [[0, 1], [1, 0]]),
    "CCZ": (2, [[1, 0], [0, -1]]),
}
NAMED_ARITY = {"X": 1, "Y": 1, "Z": 1, "S": 1, "SDG": 1, "CNOT": 1, "CY": 1, "CZ": 1, "SWAP": 2, "iSWAP": 2,
               "FSWAP": 2, "TOFFOLI": 1, "CCZ": 1}


# ------------------------------------------------------------------ exact conversions / literals
def zpair(z):
    z = complex(z)
    re_, im_ = int(round(z.real)), int(round(z.imag))
    if re_ != z.real or im_ != z.imag or abs(re_) >= LIMIT or abs(im_) >= LIMIT:
        raise ValueError(f"value {z!r} is not an exact small Gaussian integer")
    return [re_, im_]


def zmat(a):
    a = np.asarray(a)
    return [[zpair(x) for x in row] for row in a]


def zvec(a):
    return [zpair(x) for x in np.asarray(a).ravel()]


def cz(p):
    a, b = p
    return f"({a},{b})"


def cvec(v):
    return "[" + ";".join(cz(p) for p in v) + "]"


def cmat(m):
    return "[" + ";".join(cvec(r) for r in m) + "]"


def cnats(l):
    if not l:
        return "(@nil nat)"
    return "[" + ";".join(f"{int(x)}%nat" for x in l) + "]"


def cbool(b):
    return "true" if b else "false"


def cgate(g):
    """model gate (is_controlled_by, _control_qubits, target_qubits, matrix)"""
    if "fused" in g:
        inner = "[" + ";".join(cgate(x) for x in g["fused"]) + "]"
        return f"(((false, @nil nat), {cnats(g['ts'])}), matrix_fused Ziops {cnats(g['ts'])} ({inner} : list G))"
    return f"((({cbool(g['ctrl'])}, {cnats(g['cs'])}), {cnats(g['ts'])}), {cmat(g['M'])})"


def cgates(gs):
    return "([" + ";\n     ".join(cgate(g) for g in gs) + "] : list G)"


def cintent(g):
    """Base/Mat.gapp (controls, targets, base matrix): the operator the user asked for"""
    cs, ts, M = g["intent"]
    return f"(({cnats(cs)}, {cnats(ts)}), {cmat(M)})"


def cintents(gs):
    return "([" + ";\n     ".join(cintent(g) for g in gs) + "] : list (gapp Zi))"


# ------------------------------------------------------------------ building real gates
def np_matrix(M):
    return np.array([[complex(a, b) for (a, b) in row] for row in M], dtype=complex)


def make_real_gate(g):
    """g["kw"]: constructor keywords that do not change the documented operator (Unitary: name / trainable / check_unitary);
    g["mrepr"]: representation of the Unitary matrix (harness/repr_inv.py); g["attrs"]: labels assigned after construction;
    names "I" (any number of targets) and "Align" (g["delay"]) are the library's identity gates"""
    from qibo import gates
    if g["name"] == "Unitary":
        M = np_matrix(g["intent"][2])
        if g.get("mrepr"):
            from harness import repr_inv
            M, _ = repr_inv.rebuild(g["mrepr"], M)
        kw = dict(g.get("kw") or {})
        kw.setdefault("check_unitary", False)
        r = gates.Unitary(M, *g["args"], **kw)
    elif g["name"] == "Align":
        r = gates.Align(g["args"][0], int(g.get("delay", 0)))
    else:
        r = getattr(gates, g["name"])(*g["args"])
    if g.get("extra"):
        r = r.controlled_by(*g["extra"])
    for k, v in (g.get("attrs") or {}).items():
        setattr(r, k, v)
    return r


def identity_gate(rng, n):
    """gates.I on 1..n qubits in any order (optionally controlled) or gates.Align: documented operator = identity"""
    if rng.random() < 0.3:
        q = rng.randrange(n)
        return {"name": "Align", "args": [q], "delay": rng.choice([0, 1, 7]), "extra": [], "intent": [[], [q], [[[1, 0], [0, 0]], [[0, 0], [1, 0]]]]}
    k = rng.randint(1, min(n, 3))
    ts = rng.sample(range(n), k)
    rest = [q for q in range(n) if q not in ts]
    cs = rng.sample(rest, rng.choice([0, 0, min(1, len(rest))]))
    eye = [[[1 if i == j else 0, 0] for j in range(2 ** k)] for i in range(2 ** k)]
    return {"name": "I", "args": ts, "extra": cs, "intent": [sorted(cs), ts, eye]}


def describe(real, g):
    """fill the model view of a constructed real gate: flag, controls as stored, targets, gate.matrix()"""
    from qibo.backends import NumpyBackend
    g["ctrl"] = bool(real.is_controlled_by)
    g["cs"] = [int(q) for q in real._control_qubits]
    g["ts"] = [int(q) for q in real.target_qubits]
    g["M"] = zmat(real.matrix(backend()))
    return g


_BACKEND = None


def backend():
    global _BACKEND
    if _BACKEND is None:
        from qibo.backends import NumpyBackend
        _BACKEND = NumpyBackend()
    return _BACKEND


def rand_zi(rng, amp, pzero=0.25):
    if rng.random() < pzero:
        return [0, 0]
    return [rng.randint(-amp, amp), rng.randint(-amp, amp)]


def rand_matrix(rng, d, amp):
    return [[rand_zi(rng, amp) for _ in range(d)] for _ in range(d)]


def row_growth(M):
    return max(sum(abs(a) + abs(b) for a, b in row) for row in M) or 1


def unitary_gate(rng, n, ts, cs, amp):
    """intent: matrix M on targets ts (in that order) controlled on cs"""
    M = rand_matrix(rng, 2 ** len(ts), amp)
    cs_given = list(cs)
    rng.shuffle(cs_given)
    return {"name": "Unitary", "args": list(ts), "extra": cs_given, "intent": [sorted(cs), list(ts), M]}


def named_gate(rng, n, name, qubits, extra):
    nbuilt, base = NAMED[name]
    base = zmat(np.array(base, dtype=complex))
    k = NAMED_ARITY[name]
    built_cs, ts = list(qubits[:nbuilt]), list(qubits[nbuilt:nbuilt + k])
    ex = list(extra) if nbuilt == 0 else []
    return {"name": name, "args": built_cs + ts, "extra": ex, "intent": [sorted(built_cs + ex), ts, base]}


def random_gate(rng, n, amp, max_arity=3, p_named=0.2):
    if rng.random() < 0.06:
        return identity_gate(rng, n)
    if rng.random() < p_named:
        names = [nm for nm in NAMED if NAMED[nm][0] + NAMED_ARITY[nm] <= n]
        name = rng.choice(names)
        need = NAMED[name][0] + NAMED_ARITY[name]
        qs = rng.sample(range(n), need)
        rest = [q for q in range(n) if q not in qs]
        nex = rng.choice([0, 0, 1, 2, len(rest)])
        extra = rng.sample(rest, min(nex, len(rest)))
        return named_gate(rng, n, name, qs, extra)
    k = rng.randint(1, min(max_arity, n))
    ts = rng.sample(range(n), k)
    rest = [q for q in range(n) if q not in ts]
    nc = rng.choice([0, 0, 1, 1, 2, len(rest), rng.randint(0, len(rest))])
    cs = rng.sample(rest, min(nc, len(rest)))
    return unitary_gate(rng, n, ts, cs, amp)


def growth(g):
    return row_growth(g["intent"][2])


def random_circuit(rng, n, depth, amp, dm=False, max_arity=3):
    """depth gates; the product of the row growth factors keeps every intermediate value exact"""
    budget = LIMIT // (64 * 4 ** n)
    gs, tot = [], 1
    for _ in range(depth):
        for _try in range(20):
            g = random_gate(rng, n, amp, max_arity)
            f = growth(g) ** (2 if dm else 1)
            if tot * f <= budget:
                gs.append(g)
                tot *= f
                break
    return gs


def rand_state(rng, n, amp=3):
    v = [rand_zi(rng, amp, 0.1) for _ in range(2 ** n)]
    if all(p == [0, 0] for p in v):
        v[-1] = [1, -2]
    return v


# ------------------------------------------------------------------ running the real code
def build_circuit(n, gs, dm=False):
    from qibo import Circuit
    c = Circuit(n, density_matrix=dm)
    for g in gs:
        real = make_real_gate(g)
        describe(real, g)
        c.add(real)
    return c


def real_state(n, gs, init, dm=False):
    """returns exact outputs of the real code; fills the model view of every gate"""
    c = build_circuit(n, gs, dm)
    if dm:
        st0 = np_matrix(init)
    else:
        st0 = np.array([complex(a, b) for a, b in init], dtype=complex)
    res = c(initial_state=st0.copy()).state()
    out = {"state": zmat(res) if dm else zvec(res)}
    if not dm:
        out["unitary"] = zmat(c.unitary(backend()))
    return out


def case_key(prefix, case):
    sig = []
    for g in case["gates"]:
        cs, ts, _ = g["intent"]
        sig.append(f"{g['name']}{''.join(map(str, ts))}" + (f"c{''.join(map(str, cs))}" if cs else ""))
    h = hashlib.sha1(json.dumps(case, sort_keys=True).encode()).hexdigest()[:8]
    return f"{prefix}:n{case['n']}:" + ".".join(sig)[:60] + ":" + h


# ------------------------------------------------------------------ Coq side
def sv_case_term(case, out):
    """[model state; theorem-spec state; Mat-spec state; model unitary; theorem-spec unitary; Mat-spec unitary; gates ok]"""
    n = case["n"]
    return (f"(let n := {n}%nat in let gs := {cgates(case['gates'])} in\n"
            f"   let its := {cintents(case['gates'])} in\n"
            f"   let psi := {cvec(case['init'])} in let ex := {cvec(out['state'])} in\n"
            f"   let exu := {cmat(out['unitary'])} in\n"
            f"   [veqb (execute Ziops n gs psi) ex; veqb (mvmul Ziops (circ_op Ziops n gs) psi) ex;\n"
            f"    veqb (mvmul Ziops (circ_mat Ziops n its) psi) ex;\n"
            f"    meqb (unitary Ziops n gs) exu; meqb (circ_op Ziops n gs) exu; meqb (circ_mat Ziops n its) exu;\n"
            f"    forallb (gate_ok n) gs])")


SV_LABELS = ["model_state", "thmspec_state", "spec_state", "model_unitary", "thmspec_unitary", "spec_unitary", "gate_ok"]


def eval_cases(run, name, terms, width, chunk=120):
    """evaluate one list-of-bools term per case, in parallel files; returns list of lists (None = Coq failed)"""
    chunks = [terms[i:i + chunk] for i in range(0, len(terms), chunk)]

    def one(ic):
        i, ts = ic
        body = "Definition results : list (list bool) := [\n" + ";\n".join(ts) + "].\n"
        vals = run.coq_eval(f"{name}_{i}.v", HEADER + body, ["results"], timeout=1500)
        if vals is None:
            return [None] * len(ts)
        bs = vcore.parse_bools(vals[0])
        if len(bs) != width * len(ts):
            return [None] * len(ts)
        return [bs[j * width:(j + 1) * width] for j in range(len(ts))]
    with ThreadPoolExecutor(max_workers=8) as ex:
        res = list(ex.map(one, list(enumerate(chunks))))
    return [r for rs in res for r in rs]


def judge(run, prefix, cases, outs, results, labels, spec_labels, model_labels, shrink=None):
    """turn per-case boolean vectors into findings"""
    nshrunk = [0]
    for case, out, bs in zip(cases, outs, results):
        key = case_key(prefix, case)
        if bs is None:
            run.find("coq-eval:" + key, "the Coq evaluation of this correspondence case failed", {"case": case}, concrete=False)
            continue
        d = dict(zip(labels, bs))
        bad_spec = [l for l in spec_labels if not d[l]]
        bad_model = [l for l in model_labels if not d[l]]
        if bad_spec:
            nshrunk[0] += 1
            small = shrink(case) if (shrink and nshrunk[0] <= 3) else None
            rep = small or case
            run.find(case_key(prefix, rep), f"implementation contradicts the Coq spec ({', '.join(bad_spec)})",
                     {"case": rep, "observed": out if rep is case else None, "failed": bad_spec})
        elif bad_model:
            run.find("model:" + key, f"model and implementation disagree ({', '.join(bad_model)}) while the implementation matches the spec",
                     {"case": case, "observed": out, "failed": bad_model}, concrete=False)


# ------------------------------------------------------------------ generators
def placements(n, max_arity):
    """all (ordered targets, control subset) with arity <= max_arity"""
    for k in range(1, min(max_arity, n) + 1):
        for ts in itertools.permutations(range(n), k):
            rest = [q for q in range(n) if q not in ts]
            for m in range(len(rest) + 1):
                for cs in itertools.combinations(rest, m):
                    yield list(ts), list(cs)


def gen_sv_cases(run, rng):
    cases = []
    quick = run.tier != "thorough"
    # random deep circuits
    nrand = 170 if quick else 2500
    for i in range(nrand):
        n = rng.choice([1, 2, 2, 3, 3, 3, 4, 4, 4, 5, 5])
        depth = rng.randint(1, 6)
        cases.append({"n": n, "gates": random_circuit(rng, n, depth, 2), "init": rand_state(rng, n)})
    # depth-1 placements: all for small n, sampled otherwise
    allp = [(n, ts, cs) for n in range(1, 6) for ts, cs in placements(n, 3)]
    if quick:
        small = [p for p in allp if p[0] <= 3]
        big = [p for p in allp if p[0] > 3]
        sel = small + rng.sample(big, 60)
    else:
        sel = allp
    for n, ts, cs in sel:
        cases.append({"n": n, "gates": [unitary_gate(rng, n, ts, cs, 3)], "init": rand_state(rng, n)})
    # named gates, each once on a scrambled placement with and without extra controls
    for name in NAMED:
        need = NAMED[name][0] + NAMED_ARITY[name]
        for n in (need, need + 2):
            if n > 5:
                continue
            qs = rng.sample(range(n), need)
            rest = [q for q in range(n) if q not in qs]
            cases.append({"n": n, "gates": [named_gate(rng, n, name, qs, rest)], "init": rand_state(rng, n)})
    return cases


def is_nontrivial(case):
    """a case is nontrivial when some gate is on a non-ascending or non-adjacent placement or has controls"""
    for g in case["gates"]:
        cs, ts, _ = g["intent"]
        qs = list(cs) + list(ts)
        if cs or any(b != a + 1 for a, b in zip(qs, qs[1:])) or (ts and ts[0] != 0):
            return True
    return False


# ------------------------------------------------------------------ einsum_utils string builders
class _FakeGate:
    def __init__(self, cs, ts):
        self.control_qubits, self.target_qubits = tuple(sorted(cs)), tuple(ts)


def strings_check(run, rng):
    from qibo.backends import einsum_utils as eu
    from qibo.config import EINSUM_CHARS as EC
    lab = lambda s: [EC.index(ch) for ch in s]

    def estr(s):
        a, rest = s.split(",")
        b, o = rest.split("->")
        return f"(({cnats(lab(a))}, {cnats(lab(b))}), {cnats(lab(o))})"
    items, meta = [], []
    trials = []
    for n in range(1, 7):
        for k in range(1, min(3, n) + 1):
            perms = list(itertools.permutations(range(n), k))
            for qs in (perms if (n <= 4 or run.tier == "thorough") else rng.sample(perms, min(25, len(perms)))):
                trials.append((n, list(qs)))
    trials += [(25, [24, 0]), (17, [3, 16, 9])]
    for n, qs in trials:
        items.append((f"ags:{n}:{qs}", f"seqb (apply_gate_string {cnats(qs)} {n}%nat) {estr(eu.apply_gate_string(qs, n))}"))
        if 2 * n + len(qs) + 1 <= len(EC):
            l, r = eu.apply_gate_density_matrix_string(qs, n)
            items.append((f"dms:{n}:{qs}", f"(let lr := apply_gate_density_matrix_string {cnats(qs)} {n}%nat in seqb (fst lr) {estr(l)} && seqb (snd lr) {estr(r)})"))
            l, r = eu.apply_gate_density_matrix_controlled_string(qs, n)
            items.append((f"dmcs:{n}:{qs}", f"(let lr := apply_gate_density_matrix_controlled_string {cnats(qs)} {n}%nat in seqb (fst lr) {estr(l)} && seqb (snd lr) {estr(r)} && batch_ok (fst lr) && batch_ok (snd lr) "
                          f"&& einsum_ok (tl (fst (fst (fst lr))), snd (fst (fst lr)), tl (snd (fst lr))))"))
    ctr = []
    for n in range(1, 7):
        for ts, cs in placements(n, 2):
            if cs and (n <= 4 or rng.random() < 0.15):
                ctr.append((n, ts, cs))
    for n, ts, cs in ctr:
        g = _FakeGate(cs, ts)
        order, targets = eu.control_order(g, n)
        items.append((f"co:{n}:{cs}:{ts}", f"(let ot := control_order {cnats(sorted(cs))} {cnats(ts)} {n}%nat in leqb (fst ot) {cnats(order)} && leqb (snd ot) {cnats(targets)})"))
        odm, tdm = eu.control_order_density_matrix(g, n)
        items.append((f"codm:{n}:{cs}:{ts}", f"(let ot := control_order_density_matrix {cnats(sorted(cs))} {cnats(ts)} {n}%nat in leqb (fst ot) {cnats(odm)} && leqb (snd ot) {cnats(tdm)})"))
        items.append((f"ro:{order}", f"leqb (reverse_order {cnats(order)}) {cnats(eu.reverse_order(order))}"))
        items.append((f"ro:{odm}", f"leqb (reverse_order {cnats(odm)}) {cnats(eu.reverse_order(odm))}"))
    res, out = run.coq_bools(f"{run.prop}_strings.v", HEADER.replace("Local Open Scope Z_scope.", ""), items)
    if res is None:
        run.find("coq-eval:strings", "string-builder correspondence file does not compile", {"log": out[-800:]}, concrete=False)
        return
    for lab_, ok in res.items():
        run.case(["strings", lab_], nontrivial=True)
        if not ok:
            run.find("strings:" + lab_, "einsum_utils string/order builder differs from the model", {"item": lab_}, concrete=False)
    run.notes["string_builder_cases"] = len(items)


# ------------------------------------------------------------------ mini-numpy against numpy
def numpy_check(run, rng):
    """the einsum / transpose semantics of C01/Model.v against the real numpy, on random label strings"""
    from qibo.config import EINSUM_CHARS as EC
    items = []
    nein = 60 if run.tier != "thorough" else 300
    for i in range(nein):
        la = [rng.randrange(6) for _ in range(rng.randint(1, 4))]
        lb = [rng.randrange(6) for _ in range(rng.randint(1, 4))]
        union = sorted(set(la + lb))
        lo = rng.sample(union, rng.randint(0, len(union)))
        a = [rand_zi(rng, 3, 0.1) for _ in range(2 ** len(la))]
        b = [rand_zi(rng, 3, 0.1) for _ in range(2 ** len(lb))]
        na = np.array([complex(x, y) for x, y in a]).reshape((2,) * len(la))
        nb = np.array([complex(x, y) for x, y in b]).reshape((2,) * len(lb))
        st = "".join(EC[l] for l in la) + "," + "".join(EC[l] for l in lb) + "->" + "".join(EC[l] for l in lo)
        out = zvec(np.einsum(st, na, nb))
        items.append((f"einsum:{st}:{i}",
                      f"veqb (tvec {len(lo)}%nat (einsum2 Ziops (({cnats(la)}, {cnats(lb)}), {cnats(lo)}) "
                      f"(vtens Ziops {cvec(a)}) (vtens Ziops {cvec(b)}))) {cvec(out)} "
                      f"&& einsum_ok (({cnats(la)}, {cnats(lb)}), {cnats(lo)})"))
    for i in range(30 if run.tier != "thorough" else 120):
        m = rng.randint(1, 5)
        order = list(range(m))
        rng.shuffle(order)
        a = [rand_zi(rng, 5, 0.0) for _ in range(2 ** m)]
        na = np.array([complex(x, y) for x, y in a]).reshape((2,) * m)
        out = zvec(np.transpose(na, order))
        items.append((f"transpose:{order}:{i}",
                      f"veqb (tvec {m}%nat (ttranspose {cnats(order)} (vtens Ziops {cvec(a)}))) {cvec(out)}"))
    res, out = run.coq_bools(f"{run.prop}_numpy.v", HEADER, items)
    if res is None:
        run.find("coq-eval:numpy", "mini-numpy correspondence file does not compile", {"log": out[-800:]}, concrete=False)
        return
    for lab_, ok in res.items():
        run.case(["numpy", lab_], nontrivial=True)
        if not ok:
            run.find("mini-numpy:" + lab_, "numpy differs from the einsum / transpose semantics of C01/Model.v (trusted base broken)",
                     {"item": lab_}, concrete=False)
    run.notes["mini_numpy_cases"] = len(items)


# ------------------------------------------------------------------ declared construction: Class(...).controlled_by(...)
import math

DECL_ANGLES = [0.0, math.pi / 2, math.pi]
SCALES = [1.0, math.sqrt(2.0), 2.0, 2.0 * math.sqrt(2.0)]


def scaled_int_matrix(M):
    """smallest s in {1, sqrt2, 2, 2sqrt2} with s*M Gaussian-integer; (s, integer matrix) or None"""
    M = np.asarray(M, dtype=complex)
    for sc in SCALES:
        S = M * sc
        R = np.round(S.real) + 1j * np.round(S.imag)
        if np.abs(S - R).max() < 1e-9:
            return sc, [[[int(round(x.real)), int(round(x.imag))] for x in row] for row in R]
    return None


def decl_params(rng, name, nq, ps, one):
    from lib import qtrace
    for attempt in range(30):
        params = [one() for _ in ps] if attempt < 15 else [rng.choice([0.0, math.pi / 2]) for _ in ps]
        try:
            qtrace.make_gate(name, list(range(nq)), params)
            return params
        except ValueError:
            continue
    return [0.0] * len(ps)


def decl_run(case):
    """executes Class(qubits, params).controlled_by(controls) through a circuit; the reference is built from the
    DECLARATION: controls, the base gate's qubits and the matrix of a separately constructed BASE gate (the class
    tables of c01_tables prove that matrix equal to the documented one).  Returns None when the class refuses
    controlled_by because it has built-in controls."""
    from qibo import Circuit
    from lib import qtrace
    n = case["n"]
    base = qtrace.make_gate(case["class"], case["qubits"], case["params"])
    if base.control_qubits:
        return None
    g = qtrace.make_gate(case["class"], case["qubits"], case["params"]).controlled_by(*case["controls"])
    c = Circuit(n)
    c.add(g)
    psi = np.array([complex(a, b) for a, b in case["init"]], dtype=complex)
    return {"base_matrix": np.asarray(base.matrix(backend())), "base_qubits": [int(q) for q in base.qubits],
            "state": np.asarray(c(initial_state=psi.copy()).state()), "unitary": np.asarray(c.unitary(backend())),
            "returned_class": type(g).__name__}


def decl_exact_term(case, r):
    """rows whose declared controls are all 1 carry the factor s of the scaled base matrix, the others are identity rows"""
    sm = scaled_int_matrix(r["base_matrix"])
    if sm is None:
        return None
    sc, S = sm
    n = case["n"]
    on = [all((i >> (n - 1 - q)) & 1 for q in case["controls"]) for i in range(2 ** n)]
    fac = np.array([sc if o else 1.0 for o in on])
    st, un = r["state"] * fac, r["unitary"] * fac[:, None]
    for a in (st, un):
        if np.abs(a - (np.round(a.real) + 1j * np.round(a.imag))).max() > 1e-6 * max(1.0, np.abs(a).max()):
            return "off"
    zi = lambda a: [[int(round(x.real)), int(round(x.imag))] for x in a]
    its = f"([(({cnats(sorted(case['controls']))}, {cnats(r['base_qubits'])}), {cmat(S)})] : list (gapp Zi))"
    return (f"(let n := {n}%nat in let its := {its} in\n"
            f"   [veqb (mvmul Ziops (circ_mat Ziops n its) {cvec(case['init'])}) {cvec(zi(st))};\n"
            f"    meqb (circ_mat Ziops n its) {cmat([zi(row) for row in un])}])")


def decl_float_bad(case, r):
    """TEST level: the same declaration through the generic Unitary(...).controlled_by(...) path (C01 index theorems)"""
    from qibo import Circuit, gates
    n = case["n"]
    c = Circuit(n)
    c.add(gates.Unitary(r["base_matrix"], *r["base_qubits"], check_unitary=False).controlled_by(*case["controls"]))
    psi = np.array([complex(a, b) for a, b in case["init"]], dtype=complex)
    d = max(float(np.abs(np.asarray(c(initial_state=psi.copy()).state()) - r["state"]).max()),
            float(np.abs(np.asarray(c.unitary(backend())) - r["unitary"]).max()))
    return d if d > 1e-9 * max(1.0, float(np.abs(psi).max())) else None


def declared_check(run, rng):
    """every library class x 1..2 extra controls x placements: Class(...).controlled_by(...) against the operator of the
    declaration, cembed n controls qubits (base matrix)"""
    from lib import qtrace
    cat = qtrace.catalogue()
    reps = 1 if run.tier != "thorough" else 3
    cases = []
    for name, nq, ps in cat:
        for nctrl in (1, 2):
            for rep in range(reps):
                n = nq + nctrl + rng.randint(0, 1)
                if rep == 0:      # non-ascending: targets descending from the top, controls below them, also descending
                    perm = list(range(n))[::-1]
                else:
                    perm = rng.sample(range(n), n)
                qs, cs = perm[:nq], perm[nq:nq + nctrl]
                for mode in ("exact", "float"):
                    one = (lambda: rng.choice(DECL_ANGLES)) if mode == "exact" else (lambda: round(rng.uniform(-3.0, 3.0), 4))
                    cases.append({"class": name, "qubits": qs, "controls": cs, "n": n, "mode": mode,
                                  "params": decl_params(rng, name, nq, ps, one), "init": rand_state(rng, n)})
    terms, metas, nfloat, nskip = [], [], 0, 0
    for case in cases:
        key = f"declared:{case['class']}:c{len(case['controls'])}"
        try:
            r = decl_run(case)
        except Exception as e:
            run.find(key + ":raises", f"{case['class']}(...).controlled_by({case['controls']}) raised {type(e).__name__}: {e}",
                     {"case": case, "mechanism": "declared"})
            continue
        if r is None:
            nskip += 1
            continue
        run.case(["declared", case], nontrivial=True)
        term = decl_exact_term(case, r) if case["mode"] == "exact" else None
        if term == "off":
            run.find(key, f"{case['class']}(...).controlled_by(...): result is off the exact lattice of the declared operator "
                     f"(returned object: {r['returned_class']})", {"case": case, "mechanism": "declared"})
        elif term is not None:
            terms.append(term)
            metas.append((case, key, r["returned_class"]))
        else:
            nfloat += 1
            bad = decl_float_bad(case, r)
            if bad is not None:
                run.find(key + ":float", f"{case['class']}(...).controlled_by(...) differs from the declared controlled operator "
                         f"(max abs diff {bad:.3g}; returned object: {r['returned_class']})", {"case": case, "mechanism": "declared"})
    res = eval_cases(run, "C01_declared", terms, 2, chunk=40)
    seen = set()
    for (case, key, cls), bs in zip(metas, res):
        if bs is None:
            run.find("coq-eval:" + key, "Coq evaluation failed", {"case": case}, concrete=False)
        elif not all(bs) and key not in seen:
            seen.add(key)
            what = [l for l, b in zip(["state", "unitary"], bs) if not b]
            run.find(key, f"{case['class']}{tuple(case['qubits'])}.controlled_by{tuple(case['controls'])} does not act as the declared "
                     f"operator 'base matrix where every control is 1' ({', '.join(what)}; returned object: {cls})",
                     {"case": case, "mechanism": "declared"})
    run.notes["declared_construction"] = {"exact": len(terms), "float_test": nfloat, "builtin_controls_skipped": nskip,
                                          "classes": len(cat)}


def declared_replay(run, data):
    case = data["replay"]["case"]
    r = decl_run(case)
    term = decl_exact_term(case, r) if case.get("mode") == "exact" else None
    if term == "off":
        bad = True
    elif term is not None:
        bs = eval_cases(run, "C01_replay", [term], 2)[0]
        bad = bs is None or not all(bs)
    else:
        bad = decl_float_bad(case, r) is not None
    if bad:
        run.find(data["key"], data.get("what", ""), data["replay"])
    return run.finish(rule="replay of one recorded case")


# ------------------------------------------------------------------ malformed stream
def malformed_cases(rng):
    M2, M4 = rand_matrix(rng, 2, 2), rand_matrix(rng, 4, 2)
    U = lambda args, extra, M: {"name": "Unitary", "args": args, "extra": extra, "intent": [sorted(extra), args, M]}
    return [
        ("dup_targets", 2, U([0, 0], [], M4)),
        ("dup_targets3", 3, U([1, 2, 1], [], rand_matrix(rng, 8, 1))),
        ("ctrl_is_target", 2, U([0], [0], M2)),
        ("dup_controls", 3, U([0], [1, 1], M2)),
        ("target_out_of_range", 2, U([2], [], M2)),
        ("control_out_of_range", 2, U([0], [2], M2)),
        ("matrix_too_big", 2, U([0], [], M4)),
        ("matrix_too_small", 2, U([0, 1], [], M2)),
        ("matrix_too_big_ctrl", 3, U([2], [0], M4)),
    ]


def malformed_check(run, rng, dm=False):
    items = []
    for label, n, g in malformed_cases(rng):
        rejected = False
        try:
            real = make_real_gate(g)
            model = {"ctrl": bool(real.is_controlled_by), "cs": [int(q) for q in real._control_qubits],
                     "ts": [int(q) for q in real.target_qubits], "M": g["intent"][2]}
            from qibo import Circuit
            c = Circuit(n, density_matrix=dm)
            c.add(real)
            st0 = np.eye(2 ** n, dtype=complex) if dm else np.ones(2 ** n, dtype=complex)
            c(initial_state=st0)
        except (ValueError, IndexError, TypeError, NotImplementedError, RuntimeError):
            rejected = True
            model = {"ctrl": bool(g["extra"]), "cs": g["extra"], "ts": g["args"], "M": g["intent"][2]}
        items.append((label, rejected, f"gate_ok {n}%nat ({cgate(model)})"))
    res, out = run.coq_bools(f"{run.prop}_malformed.v", HEADER, [(l, t) for l, _, t in items])
    for label, rejected, _ in items:
        run.case(["malformed", label, dm], nontrivial=True)
        if res is None:
            run.find("coq-eval:malformed", "malformed-stream file does not compile", {"log": out[-800:]}, concrete=False)
            return
        if res[label] == rejected:   # model accepts <-> implementation rejected : disagreement
            run.find("malformed:" + label, f"model gate_ok={res[label]} but implementation rejected={rejected}",
                     {"label": label}, concrete=not rejected)


# ------------------------------------------------------------------ fused circuits
def fused_cases(run, rng):
    # first the historical witness (ProofsQueue.historical_unitary_queue_skipping_wrong): X(0), Y(0) fused
    cases = [{"n": 1, "gates": [named_gate(rng, 1, "X", [0], []), named_gate(rng, 1, "Y", [0], [])],
              "init": [[1, 0], [0, 0]], "fuse": 1}]
    for i in range(12 if run.tier != "thorough" else 60):
        n = rng.choice([2, 2, 3, 3, 4])
        depth = rng.randint(3, 6)
        gs = [g for g in random_circuit(rng, n, depth, 1, max_arity=2) if len(g["intent"][0]) + len(g["intent"][1]) <= 2]
        if gs:
            cases.append({"n": n, "gates": gs, "init": rand_state(rng, n), "fuse": 2})
    return cases


def fused_check(run, rng):
    """Circuit.fuse(): execution of the fused circuit, FusedGate.matrix() (matrix_fused on a qubit subset)
    and Circuit.unitary() of the fused circuit"""
    from qibo import gates
    cases = fused_cases(run, rng)
    terms, metas = [], []
    for case in cases:
        n = case["n"]
        c = build_circuit(n, case["gates"])
        fc = c.fuse(max_qubits=case["fuse"])
        view, nfused = [], 0
        for fg in fc.queue:
            if isinstance(fg, gates.FusedGate):
                nfused += 1
                inner = [describe(x, {}) for x in fg.gates]
                view.append({"fused": inner, "ts": [int(q) for q in fg.target_qubits], "M": zmat(fg.matrix(backend()))})
            else:
                view.append(describe(fg, {}))
        psi = np.array([complex(a, b) for a, b in case["init"]], dtype=complex)
        st = zvec(fc(initial_state=psi.copy()).state())
        fu = zmat(fc.unitary(backend()))
        fm = "([" + ";".join(f"meqb (matrix_fused Ziops {cnats(v['ts'])} {cgates(v['fused'])}) {cmat(v['M'])}"
                             for v in view if "fused" in v) + "] : list bool)"
        queue = "([" + ";\n     ".join(
            (f"QFused {cnats(v['ts'])} {cgates(v['fused'])}" if "fused" in v else f"QGate ({cgate(v)})") for v in view
        ) + "] : list (qitem (T:=Zi)))"
        terms.append(
            f"(let n := {n}%nat in let q := {queue} in let its := {cintents(case['gates'])} in\n"
            f"   let psi := {cvec(case['init'])} in let ex := {cvec(st)} in let fu := {cmat(fu)} in\n"
            f"   [veqb (execute_queue Ziops n q psi) ex; veqb (mvmul Ziops (circ_mat Ziops n its) psi) ex;\n"
            f"    forallb (fun b => b) {fm}; meqb (circ_mat Ziops n its) fu; meqb (unitary_queue Ziops n q) fu])")
        metas.append((case, nfused))
    res = eval_cases(run, f"{run.prop}_fused", terms, 5)
    skipped = []
    for (case, nfused), bs in zip(metas, res):
        run.case(["fused", case], nontrivial=nfused > 0)
        key = case_key("fused", case)
        if bs is None:
            run.find("coq-eval:" + key, "Coq evaluation failed", {"case": case}, concrete=False)
            continue
        model_exec, spec_exec, fmat, funit, model_unit = bs
        if not model_unit:
            run.find("model:" + key + ":unitary", "model of Circuit.unitary on a queue with FusedGates disagrees with the implementation",
                     {"case": case}, concrete=False)
        if not spec_exec:
            run.find(key, "execution of the fused circuit contradicts the spec of the original circuit", {"case": case})
        elif not (model_exec and fmat):
            run.find("model:" + key, "model of matrix_fused / fused execution disagrees with the implementation", {"case": case}, concrete=False)
        if not funit:
            if nfused > 0:
                skipped.append(case)
            else:
                run.find(key + ":unitary", "Circuit.unitary() of the fused circuit contradicts the spec", {"case": case})
    if skipped:
        # defect repaired in /repo by 93eb16277 (Circuit.unitary skipped FusedGate); if it returns it is a violation
        case = min(skipped, key=lambda c: (len(c["gates"]), c["n"]))
        run.find("unitary_skips_fused", "Circuit.unitary() of a fused circuit is not the operator the circuit executes "
                 "(contradicts Props.unitary_queue_ok; FusedGate members missing from the product?)",
                 {"case": case, "mechanism": "fused", "circuits_affected_this_run": len(skipped)})
    run.notes["fused_circuits"] = len(cases)


# ------------------------------------------------------------------ theorems
def oblige_theorems(run, theory):
    ok, res = vcore.static_assumptions(theory)
    names = vcore.props_theorems(theory + ".v")
    for nm in names:
        txt = res.get(nm, "")
        good = ok and nm in res
        if nm.endswith("_refuted"):
            run.refuted.append(nm)
            continue
        run.oblige(nm, good, "theorem")
        if good and not txt.startswith("Closed"):
            for m in re.finditer(r"([A-Za-z_][\w.]*)\s*:", txt):
                run.axioms.add(m.group(1))
        if nm.endswith("_partial"):
            run.not_proved.append(nm + " (partial statement, see the comment in " + theory + ".v)")
    run.notes.setdefault("print_assumptions", {}).update(res)
    if not ok:
        run.find("theorems:" + theory, "Print Assumptions over the static theorems failed", {}, concrete=False)


def shrink_sv(run):
    def f(case):
        """try each gate alone (depth-1 circuits) and report the first that still contradicts the spec"""
        singles = []
        for g in case["gates"]:
            c1 = {"n": case["n"], "gates": [g], "init": case["init"]}
            try:
                o1 = real_state(c1["n"], c1["gates"], c1["init"])
            except Exception:
                continue
            singles.append((c1, o1))
        if not singles:
            return None
        res = eval_cases(run, f"{run.prop}_shrink", [sv_case_term(c, o) for c, o in singles], len(SV_LABELS))
        for (c1, _), bs in zip(singles, res):
            if bs is not None and not (bs[2] and bs[5]):
                return c1
        return None
    return f


TRUSTED = ["Coq 8.16.1 kernel, vm_compute",
           "C01/Model.v mini-numpy (bit-indexed tensors, two-operand einsum over label lists, transpose, row-major "
           "reshape = big-endian bits, leading axis of dimension 2^m = idx of m bits) - validated by the exact correspondence",
           "Base/Mat.v embed / cembed / circ_mat as the meaning of 'gate on qubits' and of a circuit",
           "numpy complex128 arithmetic is exact on Gaussian integers below 2^50 (asserted on every value read back)"]


def main(run):
    import qibo
    qibo.set_backend("numpy")
    rng = random.Random(run.seed)
    run.trusted += TRUSTED
    run.assumptions += ["exact arithmetic (rounding not modelled)",
                        "gate matrix tables (npmatrices.py) are checked by the table obligations, not here",
                        "qulacs is outside the proof", "qubit ids are natural numbers (qibo also accepts negative ids through Python indexing)"]
    oblige_theorems(run, "C01/Props")
    # histories on long-lived objects: observations are the Spec operator of the CURRENT store (PropsHistory.v)
    oblige_theorems(run, "C01/PropsHistory")
    # representation independence: layouts denote their logical array; labels are not operator data (round 5)
    oblige_theorems(run, "C01/PropsLayout")
    # matrix-level facts about embed / cembed proved from the same index lemmas (premises of C05, C07, C09)
    oblige_theorems(run, "Base/SemProps")
    strings_check(run, rng)
    numpy_check(run, rng)
    cases = gen_sv_cases(run, rng)
    outs, good = [], []
    for case in cases:
        try:
            outs.append(real_state(case["n"], case["gates"], case["init"]))
            good.append(case)
        except Exception as e:   # a well-formed circuit must run
            run.find(case_key("raises", case), f"well-formed circuit raised {type(e).__name__}: {e}", {"case": case})
    res = eval_cases(run, "C01_sv", [sv_case_term(c, o) for c, o in zip(good, outs)], len(SV_LABELS))
    for c in good:
        run.case(c, nontrivial=is_nontrivial(c))
    for c in good[:3]:
        run.sample({"n": c["n"], "gates": [[g["name"], g["args"], g["extra"]] for g in c["gates"]]})
    judge(run, "sv", good, outs, res, SV_LABELS, ["spec_state", "spec_unitary"],
          ["model_state", "thmspec_state", "model_unitary", "thmspec_unitary", "gate_ok"], shrink_sv(run))
    malformed_check(run, rng)
    fused_check(run, rng)
    declared_check(run, rng)
    from harness import c01_repr
    c01_repr.labels_check(run, random.Random(run.seed * 104729 + 11), dm=False)
    c01_repr.repr_check(run, random.Random(run.seed * 104729 + 12), dm=False)
    from harness import c01_history
    c01_history.check(run, random.Random(run.seed * 7919 + 101), "sv")
    from harness import c01_tables
    c01_tables.run_tables(run, rng)
    from harness import c01_qulacs
    c01_qulacs.run_qulacs(run, rng, 40 if run.tier == "quick" else 300)
    return run.finish(level="proof", rule=(
        "labels (harness/c01_repr.py): Unitary(name= / trainable= / check_unitary=) and draw_label with values colliding with other "
        "classes' names, two gates with one label, gates.I(*q) / gates.Align mixed in: execution, Circuit.unitary, fused circuit, deep "
        "copy, gate.matrix against circ_mat of the declared operators (exact, Coq); representations (harness/repr_inv.py): initial "
        "state and Unitary matrix as C / Fortran / transposed / strided / sliced / reversed views, read-only, big-endian, complex64, "
        "float / int arrays, lists, tuples, circuits whose first operation is each kind of gate, direct backend.apply_gate: exact "
        "equality with the canonical run (itself against the Coq spec), inputs not written, results not aliased; "
        "histories (harness/c01_history.py): execute / set_parameters through the circuit, the gate object, a fused / shallow / "
        "`+` alias / derive (controlled_by with 1..3 controls after an in-place update, dagger, on_qubits, invert, deep copy, fuse "
        "of fuse) / execute again, every parametrised class + Unitary, trainable True and False, same object twice; exact ones "
        "inside Coq against circ_mat of a from-scratch rebuild and against the history machine C01/History.v, float ones at "
        "1e-12 (TEST level); user-supplied arrays must not be modified, returned arrays must not change later; "
        "gate tables: one obligation per gate class of gates.py (traced matrix = documented matrix of Spec/GateSpec.v for all "
        "parameters, unitarity for all parameters, constructor argument roles); qulacs backend against the numpy backend on "
        "generated circuits (test level, tolerance, labelled); declared construction: every class x 1..2 extra controls x "
        "placements, Class(...).controlled_by(...) against cembed n controls qubits (base matrix) exactly at multiples of pi/2 "
        "and at test level for random angles; index part: "
        "random circuits n in 1..5, depth 1..6, Unitary gates with Gaussian-integer matrices on random ordered target tuples "
        "(arity 1..3) with 0..n-k controls given in random order, plus exact named gates; depth-1 sweep over all "
        "(ordered targets, control subset) placements (quick: all n<=3 + sample, thorough: all n<=5 arity<=3); "
        "nontrivial = some gate non-ascending / non-adjacent / not starting at qubit 0 / controlled"))


def replay(run, data):
    import qibo
    qibo.set_backend("numpy")
    rp = data.get("replay", {})
    if rp.get("mechanism") == "history":
        from harness import c01_history
        return c01_history.replay(run, data)
    if rp.get("mechanism") in ("labels", "repr", "matrix_repr"):
        from harness import c01_repr
        return c01_repr.replay(run, data)
    if rp.get("mechanism") == "declared":
        return declared_replay(run, data)
    if rp.get("mechanism") == "fused" or data.get("key", "").startswith("unitary_skips_fused"):
        case = rp["case"]
        c = build_circuit(case["n"], case["gates"])
        fc = c.fuse(max_qubits=case.get("fuse", 2))
        fu = zmat(fc.unitary(backend()))
        t = f"[meqb (circ_mat Ziops {case['n']}%nat {cintents(case['gates'])}) {cmat(fu)}]"
        res = eval_cases(run, "C01_replay", [t], 1)
        if res[0] is None or not res[0][0]:
            run.find(data["key"], data.get("what", "fused unitary differs"), rp)
        return run.finish(rule="replay of one recorded case")
    case = rp.get("case")
    if case:
        try:
            out = real_state(case["n"], case["gates"], case["init"])
            res = eval_cases(run, "C01_replay", [sv_case_term(case, out)], len(SV_LABELS))
            bs = res[0]
            if bs is None or not (bs[2] and bs[5]):
                run.find(data["key"], data.get("what", ""), {"case": case, "observed": out})
        except Exception as e:
            run.find(data["key"], f"raised {type(e).__name__}: {e}", {"case": case})
    return run.finish(rule="replay of one recorded case")
