"""C17  Channel representations convert without changing the channel.

Static part: C17/Props.v (vectorisation orders are bijections, reshuffling is an involution,
L|rho) = |sum K rho K^dagger), Choi<->Liouville, Pauli basis orthogonality for every n and every
pauli_order, to/from Pauli inverse up to d^2, the Pauli-Liouville and chi matrices act as the channel (pauli_acts,
chi_ok), path independence along any path of the conversion table for every n, Stinespring round trip,
choi_to_kraus under the contract of eigh incl. the rank-deficient case, QuantumChannel results).

Run-time part (this file): the real functions of qibo.quantum_info are executed on
integer-valued, deliberately asymmetric Kraus sets / operators (the conversions are linear, so
non-CPTP data is admissible and makes the arithmetic exact in complex128) and every output is
compared, inside Coq by vm_compute over Gaussian integers,
  (a) with the executable model C17/Model.v   (entry-for-entry equality), and
  (b) with the Spec C17/Spec.v: the output, read as a representation of its kind, acts on a test
      operator rho exactly as sum_k K rho K^dagger (times the stated dimension factor).
normalize=True results are compared with the un-normalised ones after scaling by d per basis
change (exact when sqrt(d) is an integer, otherwise within 1e-9 and labelled 'test').
Spectral conversions (*_to_kraus, *_to_stinespring through eigh) are exercised as a test only.

History streams (model C17/History.v, theorems C17/PropsHistory.v: a query / conversion is a function of the data and of
the arguments of THIS call; every answer along any history is a fresh object's answer and all forms give the same output):
  * object histories (harness/chan_hist.py): ONE gate-level channel object (the integer KrausChannel of every case, and
    every built-in class incl. both thermal regimes) asked to_choi / to_liouville / to_pauli_liouville for every
    order x nqubits x normalize x pauli_order in seeded sequences interleaved with executions in two register sizes and
    with the caller overwriting returned arrays; each answer == a fresh object's (exact) == the documented map == (integer
    cases) the value the main stream verified against C17/Model.v; the object's attribute tree stays as constructed;
  * functional histories: every converter of the table called repeatedly on the SAME arrays (no copies) with varying
    order / pauli_order; inputs never written; each result == the first-call value of the main stream;
  * representation stream (family F; C17/PropsRepr.v): every converter of the table on the SAME numbers handed over as int64 / float64 /
    float32 / complex64 / Fortran order / strided view / read-only / (nested) list -- real dtypes wherever the input is real-valued: the
    Pauli-Liouville matrices of every case, and all inputs of two real-integer variants of the plan's cases -- each result == the
    complex128 C-order value that the main stream verified against C17/Model.v; inputs never written; QuantumChannel.from_operator /
    apply on re-typed operators and states == sum K rho K^dagger;
  * network histories: ONE QuantumChannel (pure and Choi form) applied to several states, full()/operator()/copy(),
    composed on both sides with a second long-lived network, linked with states; each observation == fresh object's,
    apply == sum K rho K^dagger exactly, source operators never written.
"""
STATIC = ["C17/Props", "C17/PropsHistory", "C17/PropsRepr"]
import itertools
import random
import warnings
from concurrent.futures import ThreadPoolExecutor

import numpy as np

from lib import vcore
from harness import chan_hist as H

HEADER = """From Coq Require Import ZArith List Bool.
From QV Require Import Base.Mat Base.Zi C17.Alg C17.Model C17.Spec C17.ZiInst.
Import ListNotations. Open Scope Z_scope.
"""
ORDERS = ("row", "column", "system")
PAULI_ORDERS = ["".join(p) for p in itertools.permutations("IXYZ")]
LIMIT = 2 ** 50


# ----------------------------------------------------------------------------- literals
def ints(M, scale=1.0, tol=1e-9):
    """complex ndarray (any shape) -> nested lists of (re, im) python ints; (value, exact?)"""
    A = np.asarray(M, dtype=complex) * scale
    R = np.rint(A.real) + 1j * np.rint(A.imag)
    err = float(np.abs(A - R).max()) if A.size else 0.0
    big = float(np.abs(R).max()) if A.size else 0.0
    if err > tol * max(1.0, big) or big >= LIMIT:
        raise ValueError(f"not integer valued (err={err}, max={big})")

    def conv(x):
        if isinstance(x, np.ndarray):
            return [conv(y) for y in x]
        return (int(round(x.real)), int(round(x.imag)))
    return conv(R), err == 0.0


def lit(x):
    """nested (re,im) lists -> Coq list literal over Zi"""
    if isinstance(x, tuple):
        return f"({x[0]},{x[1]})"
    return "[" + ";".join(lit(y) for y in x) + "]"


def natl(xs):
    return "[" + ";".join(str(int(x)) for x in xs) + "]%nat"


def po_nat(po):
    return natl(["IXYZ".index(ch) for ch in po])


def ocoq(order, n):
    d = 2 ** n
    return {"row": f"(Row {d}%nat)", "column": f"(Col {d}%nat)", "system": f"(Sys {n}%nat)"}[order]


def colb(order):
    return "true" if order == "column" else "false"


# ----------------------------------------------------------------------------- inputs
def gint(rng, lo=-3, hi=3, imag=True):
    return complex(rng.randint(lo, hi), rng.randint(lo, hi) if imag else 0)


def rand_mat(rng, r, c=None, lo=-3, hi=3):
    c = r if c is None else c
    while True:
        M = np.array([[gint(rng, lo, hi) for _ in range(c)] for _ in range(r)], dtype=complex)
        if r != c or r == 1:
            return M
        # deliberately asymmetric: M != M^T, M != M^dagger, no zero row
        if (not np.array_equal(M, M.T)) and (not np.array_equal(M, M.conj().T)) and np.all(np.abs(M).sum(1) > 0):
            return M


def make_case(rng, n, rank, kind, tag):
    """one integer 'channel': Kraus operators as (qubits, matrix) pairs acting inside n qubits"""
    d = 2 ** n
    kraus = []
    for k in range(rank):
        if kind == "full" or n == 1:
            qs = tuple(range(n))
        elif kind == "perm":
            qs = tuple(rng.sample(range(n), n))
            if qs == tuple(range(n)):
                qs = tuple(reversed(qs))
        else:  # "sub": operators on proper subsets, non-ascending / non-adjacent
            m = rng.randint(1, n - 1) if k else n
            qs = tuple(rng.sample(range(n), m))
            if k == 0 and qs == tuple(range(n)):
                qs = tuple(reversed(qs))
        kraus.append((qs, rand_mat(rng, 2 ** len(qs))))
    # make sure the largest qubit index appears (nqubits = 1 + max target)
    if max(max(q) for q, _ in kraus) != n - 1:
        kraus[0] = (tuple(range(n)), rand_mat(rng, d))
    return {
        "tag": tag, "n": n, "kraus": kraus, "U": rand_mat(rng, d), "rho": rand_mat(rng, d),
        "psi": np.array([gint(rng) for _ in range(d)], dtype=complex),
        "v0": np.array([gint(rng, -2, 2) for _ in range(rank)], dtype=complex) + (1 if rank else 0),
        "X": rand_mat(rng, d * d, lo=-2, hi=2),
    }


def case_json(c):
    return {"tag": c["tag"], "n": c["n"],
            "kraus": [[list(q), ints(K)[0]] for q, K in c["kraus"]],
            "U": ints(c["U"])[0], "rho": ints(c["rho"])[0], "psi": ints(c["psi"])[0],
            "v0": ints(c["v0"])[0], "X": ints(c["X"])[0]}


def case_from_json(j):
    def arr(x):
        return np.array([[complex(*e) for e in row] for row in x], dtype=complex)

    def vec(x):
        return np.array([complex(*e) for e in x], dtype=complex)
    return {"tag": j["tag"], "n": j["n"], "kraus": [(tuple(q), arr(K)) for q, K in j["kraus"]],
            "U": arr(j["U"]), "rho": arr(j["rho"]), "psi": vec(j["psi"]), "v0": vec(j["v0"]), "X": arr(j["X"])}


def embed_full(n, qs, M):
    """the 2^n matrix of M acting on qubits qs (qubit 0 most significant), exact, for python-side use"""
    d = 2 ** n
    k = len(qs)
    out = np.zeros((d, d), dtype=complex)
    for r in range(d):
        rb = [(r >> (n - 1 - q)) & 1 for q in range(n)]
        for c in range(d):
            cb = [(c >> (n - 1 - q)) & 1 for q in range(n)]
            if all(rb[q] == cb[q] for q in range(n) if q not in qs):
                ri = sum(rb[q] << (k - 1 - t) for t, q in enumerate(qs))
                ci = sum(cb[q] << (k - 1 - t) for t, q in enumerate(qs))
                out[r, c] = M[ri, ci]
    return out


# ----------------------------------------------------------------------------- items
class Item:
    """one observed output of the implementation"""
    __slots__ = ("key", "fn", "label", "model", "value", "spec", "meta", "exact", "file", "alt")

    def __init__(self, key, fn, label, model, value, spec=None, meta=None, exact=True, alt=None):
        self.key, self.fn, self.label, self.model, self.value = key, fn, label, model, value
        self.spec, self.meta, self.exact = spec, meta or {}, exact
        self.alt = alt      # optional second admissible model (unused at present: every model is the code as it is now)


class CaseCtx:
    def __init__(self, c):
        self.c = c
        self.n = c["n"]
        self.d = 2 ** self.n
        self.items = []
        self.test_items = []   # (key, ok, detail) checks done in python with a tolerance ('test')
        self.crashes = []      # (key, text)
        self.prelude = self._prelude()

    def _prelude(self):
        c, n, d = self.c, self.n, self.d
        ks = ";".join(f"({natl(q)}, {lit(ints(K)[0])})" for q, K in c["kraus"])
        v0 = ints(c["v0"])[0]
        nv = sum(a * a + b * b for a, b in v0)
        return (f"Definition n := {n}%nat.\nDefinition d := {d}%nat.\n"
                f"Definition Ks : list (mat Zi) := z_kraus_full n [{ks}].\n"
                f"Definition Um : mat Zi := {lit(ints(c['U'])[0])}.\n"
                f"Definition rho : mat Zi := {lit(ints(c['rho'])[0])}.\n"
                f"Definition psi : vec Zi := {lit(ints(c['psi'])[0])}.\n"
                f"Definition v0 : vec Zi := {lit(v0)}.\n"
                f"Definition Dn := {len(c['kraus'])}%nat.\n"
                f"Definition Xm : mat Zi := {lit(ints(c['X'])[0])}.\n"
                f"Definition EK : mat Zi := z_kraus_action d Ks rho.\n"
                f"Definition EU : mat Zi := z_kraus_action d [Um] rho.\n"
                f"Definition nv2 : Z := {nv * nv}.\n")

    def add(self, fn, label, model, thunk, spec=None, scale=1.0, meta=None, sub="", alt=None):
        key = f"{fn}:{label}" if label else fn
        try:
            with warnings.catch_warnings():
                warnings.simplefilter("ignore")
                out = thunk()
            val, exact = ints(out, scale)
        except Exception as e:  # noqa: BLE001
            self.crashes.append((key, f"{type(e).__name__}: {e}"))
            return None
        self.items.append(Item(key, fn, label, model, val, spec, meta, exact, alt))
        return np.asarray(out)


def spec_term(kind, out, order, n, po=None, E="EK", fac=1):
    """Coq bool: OUT (a representation of kind `kind`) acts on rho as fac * E"""
    o = ocoq(order, n) if order else None
    rhs = f"(zscal ({fac}) {E})"
    if kind == "choi":
        return f"zmeqb (z_choi_action {o} {out} rho) {rhs}"
    if kind == "liouville":
        return f"zmeqb (z_liouville_action {o} {out} rho) {rhs}"
    if kind == "pauli":
        return f"zmeqb (z_pauli_action {po_nat(po)} {n}%nat {out} rho) (zscal ({fac} * {4 ** n}) {E})"
    if kind == "chi":
        return f"zmeqb (z_chi_action {po_nat(po)} {n}%nat {out} rho) (zscal ({fac} * {4 ** n}) {E})"
    raise KeyError(kind)


def expect_raises(ctx, key, thunk, exc):
    try:
        with warnings.catch_warnings():
            warnings.simplefilter("ignore")
            thunk()
    except exc:
        ctx.test_items.append((key, True, f"raises {exc.__name__} as the model has no such case"))
        return
    except Exception as e:  # noqa: BLE001
        ctx.test_items.append((key, False, f"raised {type(e).__name__} instead of {exc.__name__}"))
        return
    ctx.test_items.append((key, False, f"did not raise {exc.__name__}"))


# ----------------------------------------------------------------------------- the conversion table
def run_basic(ctx, orders):
    """functions that do not involve the Pauli basis"""
    import qibo.quantum_info as qi
    from qibo import gates
    c, n, d = ctx.c, ctx.n, ctx.d
    K = [(q, M.copy()) for q, M in c["kraus"]]
    D = len(K)
    U, rho, psi, v0 = c["U"], c["rho"], c["psi"], c["v0"]
    nv = int(round(float(np.vdot(v0, v0).real)))
    st = ctx.add("kraus_to_stinespring", "", "(z_kraus_to_stinespring d Ks v0)",
                 lambda: qi.kraus_to_stinespring(K, nqubits=n, initial_state_env=v0.copy()),
                 spec="zmeqb (z_stinespring_action d Dn OUT v0 rho) (zscal nv2 EK)")
    ctx.add("to_stinespring", "", "(z_kraus_to_stinespring d [Um] [(1,0)])",
            lambda: qi.to_stinespring(U.copy()),
            spec="zmeqb (z_stinespring_action d 1%nat OUT [(1,0)] rho) EU")
    if st is not None:
        ctx.prelude += f"Definition St : mat Zi := {lit(ints(st)[0])}.\n"
        ctx.add("stinespring_to_kraus", "", "(z_stinespring_to_kraus d Dn St v0)",
                lambda: np.array(qi.stinespring_to_kraus(st.copy(), D, initial_state_env=v0.copy(), nqubits=n)),
                spec="zmeqb (z_kraus_action d OUT rho) (zscal nv2 EK)")
    for order in orders:
        o = ocoq(order, n)
        col = colb(order)
        lab = f"order={order}"
        ctx.add("vectorization", lab, f"(z_vectorize {o} rho)", lambda: qi.vectorization(rho.copy(), order=order))
        ctx.add("vectorization_statevector", lab, f"(z_vectorize_sv {o} psi)",
                lambda: qi.vectorization(psi.copy(), order=order))
        vec = c["X"][0]
        ctx.add("unvectorization", lab, f"(z_unvectorize {o} (nth 0 Xm []))",
                lambda: qi.unvectorization(vec.copy(), order=order))
        ctx.add("unvectorization_of_vectorization", lab, "rho",
                lambda: qi.unvectorization(qi.vectorization(rho.copy(), order=order), order=order))
        ctx.add("to_choi", lab, f"(z_to_choi {o} Um)", lambda: qi.to_choi(U.copy(), order=order),
                spec=spec_term("choi", "OUT", order, n, E="EU"))
        choi = ctx.add("kraus_to_choi", lab, f"(z_kraus_to_choi {o} Ks)", lambda: qi.kraus_to_choi(K, order=order),
                       spec=spec_term("choi", "OUT", order, n))
        ctx.add("Channel.to_choi", lab, f"(z_kraus_to_choi {o} Ks)",
                lambda: gates.KrausChannel([q for q, _ in K], [M for _, M in K]).to_choi(nqubits=n, order=order),
                spec=spec_term("choi", "OUT", order, n))
        if st is not None:
            ctx.add("stinespring_to_choi", lab, f"(z_stinespring_to_choi {o} Dn St v0)",
                    lambda: qi.stinespring_to_choi(st.copy(), D, initial_state_env=v0.copy(), nqubits=n, order=order),
                    spec=spec_term("choi", "OUT", order, n, fac="nv2"))
        if order == "system":
            expect_raises(ctx, "to_liouville:order=system", lambda: qi.to_liouville(U.copy(), order=order), NotImplementedError)
            expect_raises(ctx, "kraus_to_liouville:order=system", lambda: qi.kraus_to_liouville(K, order=order), NotImplementedError)
            expect_raises(ctx, "choi_to_liouville:order=system", lambda: qi.choi_to_liouville(c["X"].copy(), order=order), NotImplementedError)
            continue
        ctx.add("to_liouville", lab, f"(z_to_liouville {col} d Um)", lambda: qi.to_liouville(U.copy(), order=order),
                spec=spec_term("liouville", "OUT", order, n, E="EU"))
        liou = ctx.add("kraus_to_liouville", lab, f"(z_kraus_to_liouville {col} d Ks)",
                       lambda: qi.kraus_to_liouville(K, order=order), spec=spec_term("liouville", "OUT", order, n))
        ctx.add("Channel.to_liouville", lab, f"(z_kraus_to_liouville {col} d Ks)",
                lambda: gates.KrausChannel([q for q, _ in K], [M for _, M in K]).to_liouville(nqubits=n, order=order),
                spec=spec_term("liouville", "OUT", order, n))
        if choi is not None:
            ctx.add("choi_to_liouville", lab, f"(z_reshuffle {col} d (z_kraus_to_choi {o} Ks))",
                    lambda: qi.choi_to_liouville(choi.copy(), order=order), spec=spec_term("liouville", "OUT", order, n))
        if liou is not None:
            ctx.add("liouville_to_choi", lab, f"(z_reshuffle {col} d (z_kraus_to_liouville {col} d Ks))",
                    lambda: qi.liouville_to_choi(liou.copy(), order=order), spec=spec_term("choi", "OUT", order, n))
        ctx.add("_reshuffling_twice", lab, "Xm",
                lambda: qi.liouville_to_choi(qi.choi_to_liouville(c["X"].copy(), order=order), order=order))
        if st is not None:
            ctx.add("stinespring_to_liouville", lab, f"(z_stinespring_to_liouville {col} d Dn St v0)",
                    lambda: qi.stinespring_to_liouville(st.copy(), D, initial_state_env=v0.copy(), nqubits=n, order=order),
                    spec=spec_term("liouville", "OUT", order, n, fac="nv2"))


def run_pauli(ctx, orders, pos, norm_checks):
    """functions through the Pauli basis, un-normalised in Coq; normalised ones relative to them"""
    import qibo.quantum_info as qi
    from qibo import gates
    c, n, d = ctx.c, ctx.n, ctx.d
    K = [(q, M.copy()) for q, M in c["kraus"]]
    D = len(K)
    U, v0 = c["U"], c["v0"]
    st = qi.kraus_to_stinespring(K, nqubits=n, initial_state_env=v0.copy())
    d2 = d * d
    for order in orders:
        o = ocoq(order, n)
        col = colb(order)
        rc = order != "system"
        choi = qi.kraus_to_choi(K, order=order)
        liou = qi.kraus_to_liouville(K, order=order) if rc else None
        for po in pos:
            pn = po_nat(po)
            lab = f"order={order},pauli_order={po}"
            nn = f"{n}%nat"
            table = []   # (fn, model, impl(normalize) , spec, steps, alt)

            def T(fn, model, impl, spec, steps, alt=None):
                table.append((fn, model, impl, spec, steps, alt))
            kw = dict(order=order, pauli_order=po)
            # the basis itself
            T("pauli_basis_vectorized", f"(z_pauli_basis_vec {pn} {o} {nn})",
              lambda nz: qi.pauli_basis(n, nz, vectorize=True, order=order, pauli_order=po), None, 0.5)
            T("comp_basis_to_pauli", f"(z_comp_basis_to_pauli {pn} {o} {nn})",
              lambda nz: qi.comp_basis_to_pauli(n, nz, order=order, pauli_order=po),
              f"zmeqb (z_mmul OUT (dagger Ziops zi_conj {d2}%nat {d2}%nat OUT)) (zscal {d} (midentity Ziops {2 * n}%nat))", 0.5)
            T("pauli_to_comp_basis", f"(z_pauli_to_comp_basis {pn} {o} {nn})",
              lambda nz: qi.pauli_to_comp_basis(n, nz, order=order, pauli_order=po), None, 0.5)
            # from a unitary / Kraus set
            T("to_chi", f"(z_to_chi {pn} {o} {nn} Um)", lambda nz: qi.to_chi(U.copy(), nz, **kw),
              spec_term("chi", "OUT", order, n, po, E="EU"), 1)
            T("kraus_to_chi", f"(z_kraus_to_chi {pn} {o} {nn} Ks)", lambda nz: qi.kraus_to_chi(K, nz, **kw),
              spec_term("chi", "OUT", order, n, po), 1)
            T("choi_to_chi", f"(z_choi_to_chi {pn} {o} {nn} (z_kraus_to_choi {o} Ks))",
              lambda nz: qi.choi_to_chi(choi.copy(), nz, **kw), spec_term("chi", "OUT", order, n, po), 1)
            T("stinespring_to_chi", f"(z_stinespring_to_chi {pn} {o} {nn} Dn St v0)",
              lambda nz: qi.stinespring_to_chi(st.copy(), D, initial_state_env=v0.copy(), nqubits=n, normalize=nz, **kw),
              spec_term("chi", "OUT", order, n, po, fac="nv2"), 1)
            # a generic (non-channel) integer matrix through the bare basis changes
            T("liouville_to_pauli", f"(z_liouville_to_pauli {pn} {o} {nn} Xm)",
              lambda nz: qi.liouville_to_pauli(c["X"].copy(), nz, **kw), None, 1)
            T("pauli_to_liouville", f"(z_pauli_to_liouville {pn} {o} {nn} Xm)",
              lambda nz: qi.pauli_to_liouville(c["X"].copy(), nz, **kw), None, 1)
            chi = qi.kraus_to_chi(K, False, **kw)
            ctxchi = f"(z_kraus_to_chi {pn} {o} {nn} Ks)"
            T("chi_to_choi", f"(z_chi_to_choi {pn} {o} {nn} {ctxchi})",
              lambda nz: qi.chi_to_choi(chi.copy(), nz, **kw), spec_term("choi", "OUT", order, n, fac=d2), 1)
            if rc:
                pl = qi.kraus_to_pauli(K, False, **kw)
                ctxpl = f"(z_kraus_to_pauli {pn} {col} {nn} Ks)"
                T("to_pauli_liouville", f"(z_to_pauli_liouville {pn} {col} {nn} Um)",
                  lambda nz: qi.to_pauli_liouville(U.copy(), nz, **kw), spec_term("pauli", "OUT", order, n, po, E="EU"), 1)
                T("kraus_to_pauli", ctxpl, lambda nz: qi.kraus_to_pauli(K, nz, **kw),
                  spec_term("pauli", "OUT", order, n, po), 1)
                T("choi_to_pauli", f"(z_choi_to_pauli {pn} {col} {nn} (z_kraus_to_choi {o} Ks))",
                  lambda nz: qi.choi_to_pauli(choi.copy(), nz, **kw), spec_term("pauli", "OUT", order, n, po), 1)
                T("liouville_to_pauli_channel", f"(z_liouville_to_pauli {pn} {o} {nn} (z_kraus_to_liouville {col} d Ks))",
                  lambda nz: qi.liouville_to_pauli(liou.copy(), nz, **kw), spec_term("pauli", "OUT", order, n, po), 1)
                T("liouville_to_chi", f"(z_liouville_to_chi {pn} {col} {nn} (z_kraus_to_liouville {col} d Ks))",
                  lambda nz: qi.liouville_to_chi(liou.copy(), nz, **kw), spec_term("chi", "OUT", order, n, po), 1)
                T("stinespring_to_pauli", f"(z_stinespring_to_pauli {pn} {col} {nn} Dn St v0)",
                  lambda nz: qi.stinespring_to_pauli(st.copy(), D, initial_state_env=v0.copy(), nqubits=n, normalize=nz, **kw),
                  spec_term("pauli", "OUT", order, n, po, fac="nv2"), 1)
                T("pauli_to_liouville_channel", f"(z_pauli_to_liouville {pn} {o} {nn} {ctxpl})",
                  lambda nz: qi.pauli_to_liouville(pl.copy(), nz, **kw), spec_term("liouville", "OUT", order, n, fac=d2), 1)
                T("pauli_to_choi", f"(z_pauli_to_choi {pn} {col} {nn} {ctxpl})",
                  lambda nz: qi.pauli_to_choi(pl.copy(), nz, **kw), spec_term("choi", "OUT", order, n, fac=d2), 1)
                T("pauli_to_chi", f"(z_pauli_to_chi {pn} {col} {nn} {ctxpl})",
                  lambda nz: qi.pauli_to_chi(pl.copy(), nz, **kw), spec_term("chi", "OUT", order, n, po, fac=d2), 2)
                T("chi_to_liouville", f"(z_chi_to_liouville {pn} {col} {nn} {ctxchi})",
                  lambda nz: qi.chi_to_liouville(chi.copy(), nz, **kw), spec_term("liouville", "OUT", order, n, fac=d2), 1)
                T("chi_to_pauli", f"(z_chi_to_pauli {pn} {col} {nn} {ctxchi})",
                  lambda nz: qi.chi_to_pauli(chi.copy(), nz, **kw), spec_term("pauli", "OUT", order, n, po, fac=d2), 2)
                if order == "row":
                    T("Channel.to_pauli_liouville", ctxpl,
                      lambda nz: gates.KrausChannel([q for q, _ in K], [M for _, M in K]).to_pauli_liouville(
                          nqubits=n, normalize=nz, pauli_order=po), spec_term("pauli", "OUT", order, n, po), 1)
            for fn, model, impl, spec, steps, alt in table:
                un = ctx.add(fn, lab, model, lambda: impl(False), spec=spec, meta={"pauli_order": po, "order": order}, alt=alt)
                if un is None or not norm_checks:
                    continue
                key = f"{fn}:{lab},normalize=True"
                try:
                    with warnings.catch_warnings():
                        warnings.simplefilter("ignore")
                        nz = np.asarray(impl(True)) * (float(d) ** steps)
                    err = float(np.abs(nz - un).max())
                    ok = err <= 1e-9 * max(1.0, float(np.abs(un).max()))
                    ctx.test_items.append((key, ok, f"max|d^{steps}*normalised - unnormalised| = {err:.3g}"
                                           + ("" if err == 0.0 else " (tolerance, 'test')")))
                except Exception as e:  # noqa: BLE001
                    ctx.crashes.append((key, f"{type(e).__name__}: {e}"))


def run_networks(ctx):
    """QuantumNetwork / QuantumChannel built from a (row-order) Choi operator or a unitary"""
    import qibo.quantum_info as qi
    from qibo.quantum_info.quantum_networks import QuantumChannel, QuantumNetwork
    c, n, d = ctx.c, ctx.n, ctx.d
    K = [(q, M.copy()) for q, M in c["kraus"]]
    U, rho = c["U"], c["rho"]
    choi = qi.kraus_to_choi(K, order="row")
    choiU = qi.to_choi(U.copy(), order="row")
    C = "(z_kraus_to_choi (Row d) Ks)"
    dd = f"d d"
    ctx.add("QuantumNetwork.from_operator", "tensor", f"(z_qn_from_operator {dd} {C})",
            lambda: QuantumNetwork.from_operator(choi.copy(), (d, d))._tensor)
    ctx.add("QuantumChannel.from_operator", "inverse=True,tensor", f"(z_qn_from_operator_inv {dd} {C})",
            lambda: QuantumChannel.from_operator(choi.copy(), (d, d), inverse=True)._tensor)
    ctx.add("QuantumChannel.full", "pure,inverse=True", f"(z_qn_full {dd} (z_mtrans d d Um))",
            lambda: QuantumChannel.from_operator(U.copy(), (d, d), pure=True, inverse=True).full())
    # apply: documented construction (inverse=True), partition = (input, output)
    ctx.add("QuantumChannel.apply", "pure,inverse=True", f"(z_qn_apply_pure {dd} (z_mtrans d d Um) rho)",
            lambda: QuantumChannel.from_operator(U.copy(), (d, d), pure=True, inverse=True).apply(rho.copy()),
            spec="zmeqb OUT EU")
    ctx.add("QuantumChannel.apply", "nonpure,inverse=True", f"(z_qn_apply {dd} (z_qn_from_operator_inv {dd} {C}) rho)",
            lambda: QuantumChannel.from_operator(choi.copy(), (d, d), inverse=True).apply(rho.copy()),
            spec="zmeqb OUT EK")
    ctx.add("QuantumChannel.apply", "nonpure,inverse=True,unitary",
            f"(z_qn_apply {dd} (z_qn_from_operator_inv {dd} (z_to_choi (Row d) Um)) rho)",
            lambda: QuantumChannel.from_operator(choiU.copy(), (d, d), inverse=True).apply(rho.copy()),
            spec="zmeqb OUT EU")
    # the same channel applied through the link product with a state network
    ctx.add("link_product", "state*channel,nonpure,inverse=True",
            f"(z_qn_matrix_of_state d (z_qn_link (z_qn_state d rho) (z_qn_from_operator_inv {dd} {C})))",
            lambda: QuantumChannel.from_operator(rho.copy()).link_product(
                "ij,jk -> ik", QuantumChannel.from_operator(choi.copy(), (d, d), inverse=True)).matrix(),
            spec="zmeqb OUT EK")
    ctx.add("link_product", "state*channel,pure,inverse=True",
            f"(z_qn_matrix_of_state d (z_qn_link (z_qn_state d rho) (z_qn_full {dd} (z_mtrans d d Um))))",
            lambda: QuantumChannel.from_operator(rho.copy()).link_product(
                "ij,jk -> ik", QuantumChannel.from_operator(U.copy(), (d, d), pure=True, inverse=True)).matrix(),
            spec="zmeqb OUT EU")
    # composition  E_K after E_U :  (N_U @ N_K), then applied to a state through the link product
    ctx.add("QuantumNetwork.__matmul__", "unitary_then_kraus",
            f"(z_qn_link (z_qn_from_operator_inv {dd} (z_to_choi (Row d) Um)) (z_qn_from_operator_inv {dd} {C}))",
            lambda: (QuantumChannel.from_operator(choiU.copy(), (d, d), inverse=True)
                     @ QuantumChannel.from_operator(choi.copy(), (d, d), inverse=True))._tensor,
            spec="zmeqb (z_network_action d d OUT rho) (z_kraus_action d Ks EU)")


def run_spectral(ctx, orders):
    """conversions through eigh / svd: 'test' only (the Kraus set returned must reproduce the Choi operator)"""
    import qibo.quantum_info as qi
    c, n, d = ctx.c, ctx.n, ctx.d
    K = [(q, M.copy()) for q, M in c["kraus"]]
    rho = c["rho"]
    E = sum(embed_full(n, q, M) @ rho @ embed_full(n, q, M).conj().T for q, M in K)
    scale = float(np.abs(E).max())

    def act(ks):
        return sum(k @ rho @ k.conj().T for k in ks)

    def chk(key, thunk, getter):
        try:
            with warnings.catch_warnings():
                warnings.simplefilter("ignore")
                out = thunk()
            got = getter(out)
            err = float(np.abs(got - E).max()) / scale
            ctx.test_items.append((key, err < 1e-8, f"relative error of the re-applied channel {err:.2g} ('test', eigh is an oracle)"))
        except Exception as e:  # noqa: BLE001
            ctx.crashes.append((key, f"{type(e).__name__}: {e}"))

    for order in orders:
        if order == "system":
            continue
        choi = qi.kraus_to_choi(K, order=order)
        liou = qi.kraus_to_liouville(K, order=order)
        chk(f"choi_to_kraus:order={order}", lambda: qi.choi_to_kraus(choi.copy(), order=order), lambda o: act(o[0]))
        chk(f"liouville_to_kraus:order={order}", lambda: qi.liouville_to_kraus(liou.copy(), order=order), lambda o: act(o[0]))
        pl = qi.kraus_to_pauli(K, True, order=order)
        chk(f"pauli_to_kraus:order={order}", lambda: qi.pauli_to_kraus(pl.copy(), True, order=order), lambda o: act(o[0]))
        chi = qi.kraus_to_chi(K, True, order=order)
        chk(f"chi_to_kraus:order={order}", lambda: qi.chi_to_kraus(chi.copy(), True, order=order), lambda o: act(o[0]))

        def via_st(U0):
            Dn = U0.shape[0] // d
            return act(qi.stinespring_to_kraus(U0, Dn, nqubits=n))
        chk(f"choi_to_stinespring:order={order}", lambda: qi.choi_to_stinespring(choi.copy(), order=order, nqubits=n), via_st)
        chk(f"liouville_to_stinespring:order={order}", lambda: qi.liouville_to_stinespring(liou.copy(), order=order, nqubits=n), via_st)


def run_unitaries_probe(run):
    """kraus_to_unitaries is outside the proof (scipy minimize); the vectorisation order is an internal
    convention, so the probabilities found must not depend on it ('test')."""
    import qibo.quantum_info as qi
    U1, U2 = qi.random_unitary(2, seed=1), qi.random_unitary(2, seed=2)
    ks = [((0,), np.sqrt(0.5) * np.eye(2, dtype=complex)), ((0,), np.sqrt(0.3) * U1), ((0,), np.sqrt(0.2) * U2)]
    res = {}
    for order in ("row", "column"):
        with warnings.catch_warnings():
            warnings.simplefilter("ignore")
            try:
                _, probs = qi.kraus_to_unitaries(ks, order=order)
                res[order] = np.array(probs)
            except Exception as e:  # noqa: BLE001
                run.find(f"kraus_to_unitaries:order={order}:raises", f"{type(e).__name__}: {e}", {"order": order})
                return
    run.case({"kraus_to_unitaries": "row vs column"}, True)
    if not np.allclose(res["row"], res["column"], atol=1e-3):
        run.find("kraus_to_unitaries:order=column",
                 f"kraus_to_unitaries on a mixture of unitaries gives probabilities {np.round(res['row'], 4).tolist()} with order='row' "
                 f"but {np.round(res['column'], 4).tolist()} with order='column' (negative / not a distribution): the candidate "
                 "superoperators are built by _individual_kraus_to_liouville(...) without forwarding `order`, so a column-order target "
                 "is fitted with row-order candidates", {"row": res["row"].tolist(), "column": res["column"].tolist()})


def run_basis_probe(run, rng):
    """pauli_basis / comp_basis_to_pauli / pauli_to_comp_basis at n = 3 (all orders) and n = 4 (pauli_basis alone):
    un-normalised output == Coq model (exact); normalised output * sqrt(2^n) == un-normalised output and the normalised
    basis change is unitary; vectorize=False agrees with vectorize=True(order=row); one normalised Liouville -> Pauli ->
    Liouville round trip on an integer matrix at n = 3."""
    import qibo.quantum_info as qi
    terms, meta = [], []

    def tcheck(key, ok, detail, rp):
        run.case({"basis_probe": key, **rp}, True)
        if not ok:
            run.find(key, detail, {"function": key.split(":")[0], **rp})

    for n, orders, pos in ((3, ORDERS, ["IXYZ", rng.choice(PAULI_ORDERS[1:])]), (4, ("row",), [rng.choice(PAULI_ORDERS[1:])])):
        d, N = 2 ** n, 4 ** n
        for po in pos:
            pn = po_nat(po)
            plain = {nz: np.asarray(qi.pauli_basis(n, nz, vectorize=False, pauli_order=po)) for nz in (False, True)}
            for order in orders:
                o = ocoq(order, n)
                rp = {"n": n, "order": order, "pauli_order": po}
                fns = [("pauli_basis", lambda nz: qi.pauli_basis(n, nz, vectorize=True, order=order, pauli_order=po), f"(z_pauli_basis_vec {pn} {o} {n}%nat)")]
                if n == 3:
                    fns += [("comp_basis_to_pauli", lambda nz: qi.comp_basis_to_pauli(n, nz, order=order, pauli_order=po), f"(z_comp_basis_to_pauli {pn} {o} {n}%nat)"),
                            ("pauli_to_comp_basis", lambda nz: qi.pauli_to_comp_basis(n, nz, order=order, pauli_order=po), f"(z_pauli_to_comp_basis {pn} {o} {n}%nat)")]
                for fn, impl, model in fns:
                    try:
                        un, nm = np.asarray(impl(False)), np.asarray(impl(True))
                        val = ints(un)[0]
                    except Exception as e:  # noqa: BLE001
                        run.find(f"{fn}:order={order}:raises", f"{fn}(n={n}) raised {type(e).__name__}: {e}", rp)
                        continue
                    terms.append((f"b{len(terms)}", f"zmeqb {model} {lit(val)}"))
                    meta.append((f"{fn}:order={order}", rp))
                    err = float(np.abs(nm * np.sqrt(d) - un).max())
                    tcheck(f"{fn}:order={order},normalize=True", err < 1e-12,
                           f"{fn}(n={n}, normalize=True) * sqrt(2^n) differs from the un-normalised result by {err:.3g}", rp)
                    gram = nm @ nm.conj().T
                    tcheck(f"{fn}:order={order},normalize=True", float(np.abs(gram - np.eye(N)).max()) < 1e-12,
                           f"{fn}(n={n}, normalize=True) is not unitary: max|B B^dagger - I| = {float(np.abs(gram - np.eye(N)).max()):.3g}", rp)
                    if fn == "pauli_basis" and order == "row":
                        for nz, vecd in ((False, un), (True, nm)):
                            tcheck("pauli_basis:vectorize=False", np.array_equal(plain[nz].reshape(N, d * d), vecd),
                                   f"pauli_basis(n={n}, normalize={nz}, vectorize=False) is not the un-vectorised row form", rp)
        if n == 3:
            X = rand_mat(rng, N, lo=-2, hi=2)
            for order in ("row", "system"):
                po = pos[-1]
                back = qi.pauli_to_liouville(qi.liouville_to_pauli(X.copy(), True, order, po), True, order, po)
                tcheck(f"liouville_to_pauli:order={order},normalize=True:roundtrip", float(np.abs(back - X).max()) < 1e-9,
                       f"pauli_to_liouville(liouville_to_pauli(X, normalize=True), normalize=True) != X at n=3 (max error "
                       f"{float(np.abs(back - X).max()):.3g})", {"n": n, "order": order, "pauli_order": po})
                back = qi.pauli_to_liouville(qi.liouville_to_pauli(X.copy(), False, order, po), False, order, po)
                tcheck(f"liouville_to_pauli:order={order}:roundtrip", np.array_equal(back, X * N),
                       "un-normalised round trip at n=3 is not 4^n * X", {"n": n, "order": order, "pauli_order": po})
    # one file per ~4 matrices, in parallel
    jobs = [list(range(i, min(i + 4, len(terms)))) for i in range(0, len(terms), 4)]

    def work(idxs):
        out, _ = run.coq_bools(f"C17_basis_{idxs[0]}.v", HEADER, [terms[i] for i in idxs], timeout=900)
        return idxs, out
    with ThreadPoolExecutor(max_workers=8) as ex:
        for idxs, out in ex.map(work, jobs):
            for i in idxs:
                key, rp = meta[i]
                run.case({"basis_probe": key, **rp}, True)
                if out is None:
                    run.find(f"coq:{key}", "generated Coq file did not compile", rp, concrete=False)
                elif not out[terms[i][0]]:
                    run.find(key, f"{key} at n={rp['n']} (pauli_order={rp['pauli_order']}) differs from the Coq model of the Pauli basis", rp)


# ----------------------------------------------------------------------------- histories (C17/History.v, PropsHistory.v)
CONCRETE = ("history_vs_fresh", "fresh_vs_spec", "fresh_vs_verified_value", "input_mutated", "returned_array_changed",
            "constructor_input_mutated", "call_history")


def case_spec(c):
    from qibo import gates
    K = c["kraus"]
    return H.Spec(f"KrausChannel:{c['tag']}", "KrausChannel",
                  (lambda K=K: gates.KrausChannel([q for q, _ in K], [M.copy() for _, M in K])), c["n"],
                  H.oracle_terms(0.0, [(1.0, q, M) for q, M in K]), exact=True, info={"case": c["tag"], "n": c["n"]})


def object_specs(seed, pl):
    return [case_spec(c) for (c, *_r) in pl if not c["tag"].endswith("_real")] + H.irrational_specs(random.Random(f"c17obj:{seed}"))


def object_histories(run, pl, ctxs, only=None):
    """ONE gate-level channel object asked for its representations in every order (interleaved with executions in registers
    of two sizes): each answer == a fresh object's == the documented map; for the integer cases also == the value the main
    stream verified against C17/Model.v"""
    rng = random.Random(f"c17hist:{run.seed}")
    verified = {}
    for ctx in ctxs or []:
        verified[f"KrausChannel:{ctx.c['tag']}"] = ({it.key: it.value for it in ctx.items}, ctx.n)
    found, nobs = {}, 0
    for sp in object_specs(run.seed, pl):
        if only is not None:
            if sp.name != only[0]:
                continue
            hists = [only[1]]
        else:
            nmax = min(4, sp.m + 1) if sp.m < 3 else sp.m
            hists = [H.gen_history(rng, sp, nmax, 10, flavour=fl) for fl in (("orders", "random") if run.tier == "quick" else ("orders", "random", "random", "sizes"))]
        for ops in hists:
            problems, records = H.run_history(sp, ops, run.seed)
            nobs += len(records)
            run.case({"object_history": sp.name, "ops": ops}, True)
            ver = verified.get(sp.name)
            if ver:
                vals, n = ver
                for j, (op, r) in enumerate(records):
                    key = None
                    nq = op[-1] if op[-1] is not None else sp.m
                    if nq != n:
                        continue
                    if op[0] == "choi":
                        key = f"Channel.to_choi:order={op[1]}"
                    elif op[0] == "liouville":
                        key = f"Channel.to_liouville:order={op[1]}"
                    elif op[0] == "pauli" and not op[1]:
                        key = f"Channel.to_pauli_liouville:order=row,pauli_order={op[2]}"
                    if key in vals:
                        try:
                            same = ints(r)[0] == vals[key]
                        except ValueError:
                            same = False
                        if not same:
                            problems.append({"step": ops.index(op), "op": op, "what": "fresh_vs_verified_value",
                                             "detail": f"{key} of a fresh object differs from the value verified against the Coq model"})
            for pb in problems:
                key = f"history:{sp.cls}:{pb['what']}:{pb['op'][0]}"
                conc = pb["what"] in CONCRETE
                if key not in found or (conc and not found[key][2]):
                    found[key] = (f"{sp.name}: step {pb['step']} {pb['op']} of a history on ONE channel object: {pb['detail']}"
                                  + (f" (max difference {pb['max_diff']:.3g})" if pb.get("max_diff") is not None else ""),
                                  {"stream": "object_history", "spec": sp.name, **sp.info, "history": ops[:pb["step"] + 1],
                                   "step": pb["step"], "what": pb["what"]}, conc)
    has_concrete = {k.split(":")[1] for k, v in found.items() if v[2]}
    for key, (what, rp, conc) in found.items():
        if not conc and key.split(":")[1] in has_concrete:
            continue
        run.find(key, what, rp, concrete=conc)
    run.oblige("object_histories_every_answer_equals_fresh_object_and_verified_value", not found, "correspondence")
    run.notes["object_histories"] = {"observations": nobs}


class KrausList(list):
    """list of (qubits, operator) pairs whose operators are looked up in the (recording) table when the list is iterated"""

    def __iter__(self):
        return iter([(q, sh[k]) for q, sh, k in list.__iter__(self)])

    def __getitem__(self, i):
        q, sh, k = list.__getitem__(self, i)
        return (q, sh[k])


class RecDict(dict):
    """dict that records which entries a thunk read"""
    read = ()

    def __getitem__(self, k):
        if isinstance(self.read, set):
            self.read.add(k)
        return dict.__getitem__(self, k)


def functional_table(c, orders, pos, rep=None):
    """(fn, order, pauli_order|None) -> thunk calling the converter on SHARED arrays (never copied); label of the main stream.
    `rep(name, array)`: hand every input over in another representation of the same numbers (stream `representation`)"""
    import qibo.quantum_info as qi
    n, d = c["n"], 2 ** c["n"]
    sh = {"U": c["U"].copy(), "rho": c["rho"].copy(), "psi": c["psi"].copy(), "v0": c["v0"].copy(), "X": c["X"].copy(),
          "vec": c["X"][0].copy()}
    K = [(q, M.copy()) for q, M in c["kraus"]]
    for i, (_, M) in enumerate(K):
        sh[f"K{i}"] = M
    D = len(K)
    sh["st"] = np.asarray(qi.kraus_to_stinespring(K, nqubits=n, initial_state_env=sh["v0"]))
    for o in orders:
        sh[f"choi_{o}"] = np.asarray(qi.kraus_to_choi(K, order=o))
        if o != "system":
            sh[f"liou_{o}"] = np.asarray(qi.kraus_to_liouville(K, order=o))
        for po in pos:
            sh[f"chi_{o}_{po}"] = np.asarray(qi.kraus_to_chi(K, False, order=o, pauli_order=po))
            if o != "system":
                sh[f"pl_{o}_{po}"] = np.asarray(qi.kraus_to_pauli(K, False, order=o, pauli_order=po))
    if rep is not None:
        sh = RecDict({k: rep(k, v) for k, v in sh.items()})
        K = KrausList((q, sh, f"K{i}") for i, (q, _) in enumerate(K))
    calls = {}

    def B(fn, f, rc=False):
        for o in orders:
            if rc and o == "system":
                continue
            calls[(fn, o, None)] = (lambda o=o: f(o))
    senv = dict(initial_state_env=sh["v0"], nqubits=n)
    B("vectorization", lambda o: qi.vectorization(sh["rho"], order=o))
    B("vectorization_statevector", lambda o: qi.vectorization(sh["psi"], order=o))
    B("unvectorization", lambda o: qi.unvectorization(sh["vec"], order=o))
    B("to_choi", lambda o: qi.to_choi(sh["U"], order=o))
    B("kraus_to_choi", lambda o: qi.kraus_to_choi(K, order=o))
    B("stinespring_to_choi", lambda o: qi.stinespring_to_choi(sh["st"], D, order=o, **senv))
    B("to_liouville", lambda o: qi.to_liouville(sh["U"], order=o), True)
    B("kraus_to_liouville", lambda o: qi.kraus_to_liouville(K, order=o), True)
    B("choi_to_liouville", lambda o: qi.choi_to_liouville(sh[f"choi_{o}"], order=o), True)
    B("liouville_to_choi", lambda o: qi.liouville_to_choi(sh[f"liou_{o}"], order=o), True)
    B("stinespring_to_liouville", lambda o: qi.stinespring_to_liouville(sh["st"], D, order=o, **senv), True)

    def Pt(fn, f, rc=False):
        for o in orders:
            if rc and o == "system":
                continue
            for po in pos:
                calls[(fn, o, po)] = (lambda o=o, po=po: f(o, po, dict(order=o, pauli_order=po)))
    Pt("pauli_basis_vectorized", lambda o, po, kw: qi.pauli_basis(n, False, vectorize=True, **kw))
    Pt("comp_basis_to_pauli", lambda o, po, kw: qi.comp_basis_to_pauli(n, False, **kw))
    Pt("pauli_to_comp_basis", lambda o, po, kw: qi.pauli_to_comp_basis(n, False, **kw))
    Pt("to_chi", lambda o, po, kw: qi.to_chi(sh["U"], False, **kw))
    Pt("kraus_to_chi", lambda o, po, kw: qi.kraus_to_chi(K, False, **kw))
    Pt("choi_to_chi", lambda o, po, kw: qi.choi_to_chi(sh[f"choi_{o}"], False, **kw))
    Pt("stinespring_to_chi", lambda o, po, kw: qi.stinespring_to_chi(sh["st"], D, normalize=False, **senv, **kw))
    Pt("liouville_to_pauli", lambda o, po, kw: qi.liouville_to_pauli(sh["X"], False, **kw))
    Pt("pauli_to_liouville", lambda o, po, kw: qi.pauli_to_liouville(sh["X"], False, **kw))
    Pt("chi_to_choi", lambda o, po, kw: qi.chi_to_choi(sh[f"chi_{o}_{po}"], False, **kw))
    Pt("to_pauli_liouville", lambda o, po, kw: qi.to_pauli_liouville(sh["U"], False, **kw), True)
    Pt("kraus_to_pauli", lambda o, po, kw: qi.kraus_to_pauli(K, False, **kw), True)
    Pt("choi_to_pauli", lambda o, po, kw: qi.choi_to_pauli(sh[f"choi_{o}"], False, **kw), True)
    Pt("liouville_to_pauli_channel", lambda o, po, kw: qi.liouville_to_pauli(sh[f"liou_{o}"], False, **kw), True)
    Pt("liouville_to_chi", lambda o, po, kw: qi.liouville_to_chi(sh[f"liou_{o}"], False, **kw), True)
    Pt("stinespring_to_pauli", lambda o, po, kw: qi.stinespring_to_pauli(sh["st"], D, normalize=False, **senv, **kw), True)
    Pt("pauli_to_liouville_channel", lambda o, po, kw: qi.pauli_to_liouville(sh[f"pl_{o}_{po}"], False, **kw), True)
    Pt("pauli_to_choi", lambda o, po, kw: qi.pauli_to_choi(sh[f"pl_{o}_{po}"], False, **kw), True)
    Pt("pauli_to_chi", lambda o, po, kw: qi.pauli_to_chi(sh[f"pl_{o}_{po}"], False, **kw), True)
    Pt("chi_to_liouville", lambda o, po, kw: qi.chi_to_liouville(sh[f"chi_{o}_{po}"], False, **kw), True)
    Pt("chi_to_pauli", lambda o, po, kw: qi.chi_to_pauli(sh[f"chi_{o}_{po}"], False, **kw), True)
    return sh, calls


def label_of(call):
    fn, o, po = call
    return f"{fn}:order={o}" + (f",pauli_order={po}" if po else "")


def functional_history(run, c, expected, orders, pos, calls_seq=None, rng=None):
    """the converters of quantum_info called again and again on the SAME arrays with varying order / pauli_order: inputs are
    never written, every result is the first-call result on fresh copies (= the main-stream value verified against the model)"""
    sh, calls = functional_table(c, orders, pos)
    if calls_seq is None:
        seq = sorted(calls, key=lambda k: (k[0], k[1], k[2] or ""))
        rng.shuffle(seq)
        seq = seq + rng.sample(seq, len(seq) // 2)
    else:
        seq = [tuple(x) for x in calls_seq]
    snap = {k: v.tobytes() for k, v in sh.items()}
    cj = case_json(c)
    done = []
    out = []
    for call in seq:
        if call not in calls:
            continue
        lab = label_of(call)
        done.append(list(call))
        run.case({"functional_history": c["tag"], "call": lab, "position": len(done)}, True)
        rp = {"stream": "functional_history", "case": cj, "calls": list(done), "function": call[0], "args": lab.partition(":")[2]}
        try:
            with warnings.catch_warnings():
                warnings.simplefilter("ignore")
                val = calls[call]()
            got = ints(val)[0]
        except Exception as e:  # noqa: BLE001
            out.append((f"history:{call[0]}:raises", f"{lab} raised {type(e).__name__}: {e} when called on arrays used before (case {c['tag']})", rp, True))
            continue
        if lab in expected and got != expected[lab]:
            out.append((f"history:{call[0]}:call_history",
                        f"{lab}: result number {len(done)} of a sequence of conversions on the same arrays differs from the result of the "
                        f"first call on fresh copies (case {c['tag']})", rp, True))
        for k, v in sh.items():
            if v.tobytes() != snap[k]:
                out.append((f"history:{call[0]}:input_mutated", f"{lab} wrote its input array '{k}' (case {c['tag']})", rp, True))
                snap[k] = v.tobytes()
    return out


def network_history(run, c, ops, pure):
    """ONE QuantumChannel object applied to several states, asked for full()/operator(), composed on both sides, linked with a
    state, in a seeded order: every observation equals the one of a fresh object built from fresh copies, apply equals
    sum K rho K^dagger exactly, the arrays handed in are never written"""
    import qibo.quantum_info as qi
    from qibo.quantum_info.quantum_networks import QuantumChannel
    n, d = c["n"], 2 ** c["n"]
    K = [(q, M.copy()) for q, M in c["kraus"]]
    Es = [c["U"]] if pure else [embed_full(n, q, M) for q, M in K]
    Fs = [embed_full(n, q, M).conj().T for q, M in K[:1]]           # the partner channel (one Kraus operator)
    src = c["U"].copy() if pure else np.asarray(qi.kraus_to_choi(K, order="row"))
    src2 = np.asarray(qi.kraus_to_choi([(tuple(range(n)), Fs[0])], order="row"))

    def mk(a, b):
        N = QuantumChannel.from_operator(a, (d, d), pure=True, inverse=True) if pure else QuantumChannel.from_operator(a, (d, d), inverse=True)
        return N, QuantumChannel.from_operator(b, (d, d), inverse=True)

    def rho_of(rid):
        return H.rho_for(f"net:{c['tag']}", n, rid)

    def act(ops_, rho):
        return sum(E @ rho @ E.conj().T for E in ops_)

    def obs(N, M, op):
        k = op[0]
        if k == "apply":
            return np.asarray(N.apply(rho_of(op[1])))
        if k == "copy_apply":
            return np.asarray(N.copy().apply(rho_of(op[1])))
        if k == "full":
            return np.asarray(N.full())
        if k == "full_update":
            return np.asarray(N.full(update=True))
        if k == "operator":
            return np.array(N.operator(full=op[1]))
        if k == "matmul_left":      # N first, then M
            return np.asarray((N @ M).full()) if pure else np.asarray((N @ M)._tensor)
        if k == "matmul_right":
            return np.asarray((M @ N).full()) if pure else np.asarray((M @ N)._tensor)
        if k == "link_state":
            return np.asarray(QuantumChannel.from_operator(rho_of(op[1])).link_product("ij,jk -> ik", N).matrix())
        raise KeyError(k)
    a, b = src.copy(), src2.copy()
    N, M = mk(a, b)
    snap = (a.tobytes(), b.tobytes())
    out, last = [], None
    cj = case_json(c)
    for i, op in enumerate(ops):
        rp = {"stream": "network_history", "case": cj, "ops": ops[:i + 1], "pure": pure}
        run.case({"network_history": c["tag"], "pure": pure, "op": op, "position": i}, True)
        if op[0] == "scribble":
            if last is not None and last.flags.writeable:
                last[...] = 5 + 2j
            continue
        fresh = mk(src.copy(), src2.copy())
        if any(o[0] == "full_update" or (o[0] == "operator" and o[1]) for o in ops[:i]):
            # same abstract state: full(update=True) replaces the internal representation of a pure network by the full tensor
            # (documented); operator(full=True) does the same silently (it calls self.full(backend), i.e. update=backend) --
            # the network stays the same channel, is_pure() turns False
            fresh[0].full(update=True)
        try:
            with warnings.catch_warnings():
                warnings.simplefilter("ignore")
                got, ref = obs(N, M, op), obs(*fresh, op)
        except Exception as e:  # noqa: BLE001
            out.append((f"history:QuantumChannel.{op[0]}:raises", f"{op} raised {type(e).__name__}: {e} on a network object used before", rp, True))
            continue
        if got.shape != ref.shape or not np.array_equal(got, ref):
            out.append((f"history:QuantumChannel.{op[0]}:history_vs_fresh",
                        f"step {i} {op} on ONE QuantumChannel object ({'pure' if pure else 'Choi'}, case {c['tag']}) differs from the same call on a "
                        "fresh object", rp, True))
        want = None
        if op[0] in ("apply", "copy_apply", "link_state"):
            want = act(Es, rho_of(op[1]))
        if want is not None and not np.array_equal(ref, want):
            out.append((f"history:QuantumChannel.{op[0]}:fresh_vs_spec", f"{op} of a fresh QuantumChannel differs from sum K rho K^dagger (case {c['tag']})", rp, True))
        if (a.tobytes(), b.tobytes()) != snap:
            out.append((f"history:QuantumChannel.{op[0]}:input_mutated", f"{op} wrote the operator the network was built from", rp, True))
            snap = (a.tobytes(), b.tobytes())
        last = got if op[0] not in ("operator", "full_update") else None     # those may be views of the object's own tensor
    return out


def gen_network_ops(rng, length):
    ops = []
    for _ in range(length):
        k = rng.choice(["apply", "apply", "copy_apply", "full", "operator", "matmul_left", "matmul_right", "link_state", "scribble", "full_update"])
        if k in ("apply", "copy_apply", "link_state"):
            ops.append([k, rng.randrange(3)])
        elif k == "operator":
            ops.append([k, rng.random() < 0.5])
        else:
            ops.append([k])
    return ops


def history_streams(run, pl, ctxs):
    rng = random.Random(f"c17fn:{run.seed}")
    object_histories(run, pl, ctxs)
    found = {}
    for ctx, (c, orders, pos, _norm, nets, _sp) in zip(ctxs, pl):
        if ctx.n > 2 or c["tag"].endswith("_real"):
            continue
        expected = {it.key: it.value for it in ctx.items}
        pos2 = list(pos[:1]) + ([rng.choice(list(pos[1:]))] if len(pos) > 1 else [])
        res = functional_history(run, c, expected, orders, pos2, rng=rng)
        if nets:
            for pure in (False, True):
                res += network_history(run, c, gen_network_ops(rng, 14 if run.tier == "quick" else 40), pure)
        for key, what, rp, conc in res:
            found.setdefault(key, (what, rp, conc))
    for key, (what, rp, conc) in found.items():
        run.find(key, what, rp, concrete=conc)
    run.oblige("functional_and_network_histories_equal_first_call_on_fresh_data", not found, "correspondence")



# ----------------------------------------------------------------------------- input representation invariance (family F)
def _is_real(v):
    return not np.iscomplexobj(v) or not np.any(np.asarray(v).imag)


def _strided(v):
    big = np.zeros(tuple(2 * x for x in v.shape), dtype=v.dtype)
    view = big[tuple(slice(None, None, 2) for _ in v.shape)]
    view[...] = v
    return view


def _readonly(v):
    w = v.copy()
    w.setflags(write=False)
    return w


REPS = {   # name -> (needs real data, converter)
    "fortran": (False, lambda v: np.asfortranarray(v)),
    "strided_view": (False, _strided),
    "readonly": (False, _readonly),
    "complex64": (False, lambda v: v.astype(np.complex64)),
    "list": (False, lambda v: v.tolist()),
    "float64": (True, lambda v: np.ascontiguousarray(v.real, dtype=np.float64)),
    "float64_fortran": (True, lambda v: np.asfortranarray(v.real.astype(np.float64))),
    "float32": (True, lambda v: v.real.astype(np.float32)),
    "int64": (True, lambda v: np.rint(v.real).astype(np.int64)),
    "int_list": (True, lambda v: np.rint(v.real).astype(np.int64).tolist()),
}
# containers other than ndarray are outside the documented argument types: a refusal (exception) is not a finding, a wrong answer is
LENIENT = ("list", "int_list")


def real_variant(c, tag):
    """the same case with real (integer) data only: every converter then has real-valued inputs"""
    r = dict(c)
    r["tag"] = tag
    r["kraus"] = [(q, np.array(M.real, dtype=complex)) for q, M in c["kraus"]]
    for k in ("U", "rho", "psi", "v0", "X"):
        r[k] = np.array(c[k].real, dtype=complex)
    if not np.any(r["v0"]):
        r["v0"][0] = 1
    return r


def representation_case(run, c, expected, orders, pos, reps, only=None):
    """every converter of the table on the SAME numbers handed over as int / float / complex64 / Fortran order / strided view /
    read-only / list: the answer must be the canonical (complex128, C order) one -- for the cases of the plan that is the value the
    main stream verified against C17/Model.v"""
    out = []
    cj = case_json(c)
    can_sh, can_calls = functional_table(c, orders, pos, rep=lambda k, v: v)
    canon, reads = {}, {}
    for call in sorted(can_calls, key=lambda k: (k[0], k[1], k[2] or "")):
        if only is not None and list(call) != list(only[0]):
            continue
        can_sh.read = set()
        try:
            with warnings.catch_warnings():
                warnings.simplefilter("ignore")
                canon[call] = ints(can_calls[call]())[0]
        except Exception:  # noqa: BLE001
            continue
        reads[call] = set(can_sh.read)
        lab = label_of(call)
        if lab in expected and canon[call] != expected[lab]:
            canon[call] = expected[lab]
    for rname in reps:
        if only is not None and rname != only[1]:
            continue
        need_real, conv = REPS[rname]
        changed = {k for k, v in can_sh.items() if (not need_real or _is_real(v)) and np.asarray(v).size}
        sh, calls = functional_table(c, orders, pos, rep=lambda k, v: conv(v) if k in changed else v)
        snap = {k: np.array(v).tobytes() for k, v in sh.items()}
        for call, want in canon.items():
            hit = reads[call] & changed
            if not hit:
                continue
            lab = label_of(call)
            run.case({"representation": c["tag"], "call": lab, "rep": rname}, True)
            rp = {"stream": "representation", "case": cj, "call": list(call), "rep": rname, "function": call[0], "args": lab.partition(":")[2],
                  "inputs_retyped": sorted(hit)}
            try:
                with warnings.catch_warnings():
                    warnings.simplefilter("ignore")
                    val = calls[call]()
                got = ints(val)[0]
            except Exception as e:  # noqa: BLE001
                if rname not in LENIENT:
                    out.append((f"representation:{call[0]}:{rname}:raises",
                                f"{lab} raised {type(e).__name__}: {str(e)[:160]} when its input(s) {sorted(hit)} were handed over as {rname} (same numbers; "
                                f"the complex128 C-order call succeeds; case {c['tag']})", rp, True))
                continue
            if got != want:
                out.append((f"representation:{call[0]}:{rname}",
                            f"{lab}: the result changes when the input(s) {sorted(hit)} are handed over as {rname} instead of complex128 C order (the same "
                            f"real / integer numbers; case {c['tag']}): an input representation must not change the channel", rp, True))
            for k, v in sh.items():
                if np.array(v).tobytes() != snap[k]:
                    out.append((f"representation:{call[0]}:{rname}:input_mutated", f"{lab} wrote its {rname} input '{k}' (case {c['tag']})", rp, True))
                    snap[k] = np.array(v).tobytes()
    return out


def network_representation(run, c, reps):
    """QuantumChannel built from a retyped Choi operator / applied to a retyped state == the complex128 answer == sum K rho K^dagger"""
    import qibo.quantum_info as qi
    from qibo.quantum_info.quantum_networks import QuantumChannel
    n, d = c["n"], 2 ** c["n"]
    K = [(q, M.copy()) for q, M in c["kraus"]]
    choi = np.asarray(qi.kraus_to_choi(K, order="row"))
    rho = c["rho"]
    want = sum(embed_full(n, q, M) @ rho @ embed_full(n, q, M).conj().T for q, M in K)
    out = []
    cj = case_json(c)
    for rname in reps:
        need_real, conv = REPS[rname]
        if rname in LENIENT:
            continue
        for which in ("operator", "state"):
            a = conv(choi) if which == "operator" and (not need_real or _is_real(choi)) else choi.copy()
            b = conv(rho) if which == "state" and (not need_real or _is_real(rho)) else rho.copy()
            if (which == "operator" and need_real and not _is_real(choi)) or (which == "state" and need_real and not _is_real(rho)):
                continue
            run.case({"representation": c["tag"], "call": f"QuantumChannel.apply:{which}", "rep": rname}, True)
            rp = {"stream": "network_representation", "case": cj, "rep": rname, "which": which}
            try:
                with warnings.catch_warnings():
                    warnings.simplefilter("ignore")
                    got = np.asarray(QuantumChannel.from_operator(a, (d, d), inverse=True).apply(b))
                same = got.shape == want.shape and np.array_equal(got, want)
            except Exception as e:  # noqa: BLE001
                out.append((f"representation:QuantumChannel.apply:{rname}:raises", f"QuantumChannel.from_operator(choi).apply(rho) raised {type(e).__name__}: "
                            f"{str(e)[:160]} with the {which} handed over as {rname} (case {c['tag']})", rp, True))
                continue
            if not same:
                out.append((f"representation:QuantumChannel.apply:{rname}", f"QuantumChannel.from_operator(choi, inverse=True).apply(rho) differs from sum K rho K^dagger "
                            f"when the {which} is handed over as {rname} (same numbers; case {c['tag']})", rp, True))
    return out


def representation_stream(run, pl, ctxs):
    rng = random.Random(f"c17rep:{run.seed}")
    found = {}
    ncalls = 0
    allreps = list(REPS)
    for ctx, (c, orders, pos, _norm, nets, _sp) in zip(ctxs, pl):
        if ctx.n > 2:
            continue
        expected = {it.key: it.value for it in ctx.items}
        pos2 = list(pos[:1]) + ([rng.choice(list(pos[1:]))] if len(pos) > 1 else [])
        if run.tier == "quick" and ctx.n == 2:
            reps = ["float64", "int64"] + rng.sample([r for r in allreps if r not in ("float64", "int64")], 3)
            orders2 = tuple(orders)
        else:
            reps, orders2 = allreps, tuple(orders)
        res = representation_case(run, c, expected, orders2, pos2, reps)
        res += network_representation(run, c, reps)
        for key, what, rp, conc in res:
            found.setdefault(key, (what, rp, conc))
    for key, (what, rp, conc) in found.items():
        run.find(key, what, rp, concrete=conc)
    run.oblige("input_representation_invariance:every_converter_on_retyped_inputs_equals_the_verified_complex128_value", not found, "correspondence")

# ----------------------------------------------------------------------------- driver
def coq_check(run, ctxs, jobs=8):
    """evaluate, per case, model==impl and spec(impl) inside Coq; returns {(ci, idx): (eq, spec)}"""
    files = []
    for ci, ctx in enumerate(ctxs):
        chunk, size = [], 0
        for idx, it in enumerate(ctx.items):
            sz = sum(len(r) for r in it.value) if it.value and isinstance(it.value[0], list) else len(it.value)
            if chunk and (size + sz > 60000 or len(chunk) >= 120):
                files.append((ci, chunk))
                chunk, size = [], 0
            chunk.append(idx)
            size += sz
        if chunk:
            files.append((ci, chunk))
    res = {}

    def work(fi):
        ci, chunk = files[fi]
        ctx = ctxs[ci]
        body = HEADER + ctx.prelude
        terms = []
        for idx in chunk:
            it = ctx.items[idx]
            nm = f"out{idx}"
            ty = "list (mat Zi)" if (it.value and it.value[0] and isinstance(it.value[0][0], list)) else (
                "mat Zi" if (it.value and isinstance(it.value[0], list)) else "vec Zi")
            body += f"Definition {nm} : {ty} := {lit(it.value)}.\n"
            if ty == "list (mat Zi)":
                eq = f"(forallb (fun ab => zmeqb (fst ab) (snd ab)) (combine {it.model} {nm}) && Nat.eqb (length {it.model}) (length {nm}))"
            elif ty == "mat Zi":
                eq = f"zmeqb {it.model} {nm}"
            else:
                eq = f"zveqb {it.model} {nm}"
            if it.alt and ty == "mat Zi":
                eq = f"({eq} || zmeqb {it.alt} {nm})"
            terms.append((f"{idx}:eq", eq))
            if it.spec:
                terms.append((f"{idx}:spec", "(" + it.spec.replace("OUT", nm) + ")"))
        out, log = run.coq_bools(f"C17_case{ci}_{fi}.v", body, terms, timeout=900)
        return ci, chunk, out, log

    with ThreadPoolExecutor(max_workers=jobs) as ex:
        for ci, chunk, out, log in ex.map(work, range(len(files))):
            for idx in chunk:
                if out is None:
                    res[(ci, idx)] = (None, None)
                else:
                    res[(ci, idx)] = (out[f"{idx}:eq"], out.get(f"{idx}:spec"))
    return res


def plan(tier, rng):
    """[(case, orders, pauli orders, with_norm, with_networks, with_spectral)]"""
    P = PAULI_ORDERS
    pl = []
    pl.append((make_case(rng, 1, 1, "full", "n1_rank1"), ORDERS, P, True, True, True))
    pl.append((make_case(rng, 1, 3, "full", "n1_rank3"), ORDERS, P[:1] + rng.sample(P[1:], 3), True, True, True))
    pl.append((make_case(rng, 2, 2, "perm", "n2_rank2_permuted_qubits"), ORDERS, P, True, True, True))
    pl.append((make_case(rng, 2, 3, "sub", "n2_rank3_subsets"), ORDERS, P[:1] + rng.sample(P[1:], 2), True, True, True))
    # a size where 2^n != 2n and 4^n != n^2: every dimension-dependent factor of the Pauli table, also in quick
    pl.append((make_case(rng, 3, 1, "perm", "n3_rank1_dimension_factors"), ("column", "system"), ["XZIY"], True, False, False))
    # real integer data: every converter has real-valued inputs (the representation stream re-types them to int / float)
    pl.append((real_variant(pl[1][0], "n1_rank3_real"), ORDERS, P[:1] + rng.sample(P[1:], 1), False, False, False))
    pl.append((real_variant(pl[3][0], "n2_rank3_subsets_real"), ("row", "column"), rng.sample(P[1:], 1), False, False, False))
    if tier == "thorough":
        pl.append((make_case(rng, 2, 1, "full", "n2_rank1"), ORDERS, P, True, True, True))
        pl.append((make_case(rng, 2, 4, "sub", "n2_rank4_subsets"), ORDERS, rng.sample(P, 6), True, True, True))
        pl.append((make_case(rng, 3, 2, "sub", "n3_rank2_subsets"), ORDERS, ["IXYZ"] + rng.sample(P[1:], 2), True, True, True))
        pl.append((make_case(rng, 3, 1, "perm", "n3_rank1_permuted"), ("column",), rng.sample(P, 2), True, False, False))
    return pl


RULE = ("seeded integer Kraus sets (asymmetric: K != K^T, K != K^dagger; on permuted / proper-subset qubits), "
        "n<=2 (plus one n=3 case and an n=3/n=4 Pauli-basis probe) quick / n<=3 thorough, orders row/column/system x pauli orders (all 24 at n<=2) ; one case = one "
        "(function, order, pauli_order, channel) output compared entry-for-entry with the Coq model and, where the "
        "output is a channel representation, through its textbook action on an asymmetric integer rho; a case is "
        "non-trivial when the output matrix is not symmetric under the index permutation being tested "
        "(counted: output differs from its transpose); plus seeded histories on one channel object / one QuantumChannel / "
        "one set of shared arrays (every observation vs a fresh object, the documented map and the main-stream value)")


def check_plan(run, pl, only_key=None, beside=None):
    ctxs = []
    for (c, orders, pos, norm, nets, spectral) in pl:
        ctx = CaseCtx(c)
        run_basic(ctx, orders)
        run_pauli(ctx, orders, pos, norm)
        if nets:
            run_networks(ctx)
        if spectral:
            run_spectral(ctx, orders)
        if only_key is not None:
            ctx.items = [it for it in ctx.items if it.key.split(":")[0] == only_key.split(":")[0]]
        ctxs.append(ctx)
    side = None
    if beside is not None:            # python-only streams that need the observed values run beside the Coq evaluation
        side_pool = ThreadPoolExecutor(max_workers=1)
        side = side_pool.submit(beside, ctxs)
    res = coq_check(run, ctxs)
    if side is not None:
        side.result()
        side_pool.shutdown()
    n_norm_exact = n_norm_tol = 0
    for ci, ctx in enumerate(ctxs):
        cj = case_json(ctx.c)
        for idx, it in enumerate(ctx.items):
            eq, spec = res[(ci, idx)]
            V = np.array([[complex(*e) for e in row] for row in it.value]) if (it.value and isinstance(it.value[0], list) and not isinstance(it.value[0][0], list)) else None
            nontrivial = V is not None and V.shape[0] == V.shape[1] and not np.array_equal(V, V.T)
            run.case({"case": ctx.c["tag"], "key": it.key, "v": it.value}, nontrivial=nontrivial)
            if idx < 2 and ci < 3:
                run.sample({"case": ctx.c["tag"], "n": ctx.n, "function": it.fn, "args": it.label,
                            "kraus_qubits": [list(q) for q, _ in ctx.c["kraus"]], "model_equal": eq, "spec_ok": spec})
            rp = {"case": cj, "function": it.fn, "args": it.label, "model_term": it.model, "spec_term": it.spec}
            if eq is None:
                run.find(f"coq:{it.key}", "the generated Coq file did not compile", rp, concrete=False)
                continue
            bad_spec = (spec is False)
            if bad_spec:
                run.find(f"{it.fn}:{strip_po(it.label)}",
                         f"{it.fn}({it.label}) is not a representation of the channel it was given: its action on rho "
                         f"differs from sum_k K rho K^dagger (case {ctx.c['tag']})", rp)
            if not eq:
                if not bad_spec:
                    run.find(f"model:{it.fn}:{strip_po(it.label)}",
                             f"implementation and Coq model of {it.fn}({it.label}) disagree, but no input violating the Spec was found",
                             rp, concrete=False)
        for key, ok, detail in ctx.test_items:
            run.case({"case": ctx.c["tag"], "key": key}, nontrivial=True)
            if "normalize=True" in key:
                if "tolerance" in detail:
                    n_norm_tol += 1
                else:
                    n_norm_exact += 1
            if not ok:
                fn, _, lab = key.partition(":")
                run.find(f"{fn}:{strip_po(lab)}", f"{key}: {detail} (case {ctx.c['tag']})",
                         {"case": cj, "function": fn, "args": lab, "detail": detail})
        for key, text in ctx.crashes:
            fn, _, lab = key.partition(":")
            run.find(f"{fn}:{strip_po(lab)}:raises", f"{key} raised {text} (case {ctx.c['tag']})",
                     {"case": cj, "function": fn, "args": lab, "error": text})
    seen, uniq = set(), []
    for f in run.findings:          # one finding per key (the first failing case is the replay)
        if f.key not in seen:
            seen.add(f.key)
            uniq.append(f)
    run.notes["failing_cases_per_key"] = {k: sum(1 for f in run.findings if f.key == k) for k in seen}
    run.findings = uniq
    run.notes["normalised_vs_unnormalised"] = {"exact": n_norm_exact, "within_1e-9_labelled_test": n_norm_tol}
    return ctxs


def strip_po(label):
    """finding keys do not depend on the particular pauli_order / normalisation"""
    return ",".join(p for p in label.split(",") if not p.startswith("pauli_order=") and not p.startswith("normalize="))


def main(run):
    rng = random.Random(run.seed)
    run.trusted += ["Coq 8.16.1 kernel, vm_compute", "numpy complex128 arithmetic on integers below 2^50 (exact)",
                    "Base/Mat.v embed as the meaning of a Kraus operator given on a qubit tuple",
                    "harness/c17.py (drives qibo, writes integer literals)"]
    run.assumptions += ["exact arithmetic (rounding of the 1/sqrt(d) normalisation is not modelled; normalised results "
                        "are compared with the un-normalised ones after scaling)",
                        "eigh/svd/minimize are oracles: choi_to_kraus is proved only under the contract of eigh"]
    run.not_proved += ["*_to_kraus / *_to_stinespring through eigh, kraus_to_unitaries (scipy minimize): test only",
                       "link_product for general subscripts (only the channel patterns 'ij,jk->ik' and '@')",
                       "normalize=True variants: the theorems are about the un-normalised basis (factor 2^n per basis change); the "
                       "normalised functions are tied to them by the scaling comparison of every run",
                       "system order for the functions through _reshuffling (NotImplementedError in the code)"]
    ok, pa = vcore.static_assumptions("C17/Props")
    for name in vcore.props_theorems("C17/Props.v"):
        run.oblige(name, ok and name in pa, "static theorem")
        if ok and name in pa and "Closed under the global context" not in pa[name]:
            import re
            for ax in re.findall(r"([A-Z]\w*(?:\.\w+)+)\s*:", pa[name]):
                run.axioms.add(ax)
    run.checker_cmds.append("make -C coq theories/C17/Props.vo")
    okh, pah = vcore.static_assumptions("C17/PropsHistory")
    for name in vcore.props_theorems("C17/PropsHistory.v"):
        run.oblige(name, okh and name in pah, "static theorem (query histories on one channel object)")
    okr, par = vcore.static_assumptions("C17/PropsRepr")
    for name in vcore.props_theorems("C17/PropsRepr.v"):
        run.oblige(name, okr and name in par and "Closed under the global context" in par[name], "static theorem (real Pauli-Liouville vs complex Liouville form)")
    class Side:                      # collects the probe's results apart, merged after both parts are done
        def __init__(self):
            self.cases, self.found = [], []

        def case(self, c, nontrivial=True):
            self.cases.append((c, nontrivial))

        def find(self, *a, **k):
            self.found.append((a, k))

        def coq_bools(self, *a, **k):
            return run.coq_bools(*a, **k)
    side_run = Side()
    with ThreadPoolExecutor(max_workers=1) as side:      # the n=3/n=4 basis probe runs beside the conversion table
        fut = side.submit(run_basis_probe, side_run, random.Random(run.seed + 1))
        pl = plan(run.tier, rng)
        check_plan(run, pl, beside=lambda ctxs: (history_streams(run, pl, ctxs), representation_stream(run, pl, ctxs)))
        fut.result()
    for c, nt in side_run.cases:
        run.case(c, nt)
    seen = {f.key for f in run.findings}
    for a, k in side_run.found:
        if a[0] not in seen:
            seen.add(a[0])
            run.find(*a, **k)
    run_unitaries_probe(run)
    run.notes["historical_lemmas"] = ("C17/Historical.v keeps labelled lemmas about the pre-repair formulas of to_pauli_liouville "
                                    "and QuantumChannel.apply; they are not statements about the current tree")
    return run.finish(level="proof", rule=RULE)


def replay(run, data):
    rp = data.get("replay", {})
    if "case" not in rp and data.get("key", "").split(":")[0] in ("pauli_basis", "comp_basis_to_pauli", "pauli_to_comp_basis", "liouville_to_pauli"):
        run_basis_probe(run, random.Random(data.get("seed", 0) + 1))
        run.findings = [f for f in run.findings if f.key == data["key"]][:1]
        return run.finish(rule="replay of the n=3 / n=4 Pauli-basis probe")
    if data.get("key", "").startswith("kraus_to_unitaries"):
        run_unitaries_probe(run)
        run.findings = [f for f in run.findings if f.key == data["key"]][:1]
        return run.finish(rule="replay of the kraus_to_unitaries row/column probe")
    if rp.get("stream") == "object_history":
        run.seed = int(data.get("seed", run.seed))
        run.tier = data.get("tier", run.tier)
        object_histories(run, plan(run.tier, random.Random(run.seed)), None, only=(rp["spec"], rp["history"]))
        run.findings = [f for f in run.findings if f.key == data["key"]][:1] or run.findings[:1]
        return run.finish(rule="replay of one recorded history on one channel object")
    if rp.get("stream") == "functional_history":
        c = case_from_json(rp["case"])
        calls = [tuple(x) for x in rp["calls"]]
        orders = tuple(o for o in ORDERS if any(x[1] == o for x in calls))
        pos = sorted({x[2] for x in calls if x[2]}) or ["IXYZ"]
        ctx = CaseCtx(c)                       # first-call values on fresh copies (this process has no history yet)
        run_basic(ctx, orders)
        run_pauli(ctx, orders, pos, False)
        for key, what, r2, conc in functional_history(run, c, {it.key: it.value for it in ctx.items}, orders, pos, calls_seq=calls):
            run.find(key, what, r2, concrete=conc)
        run.findings = [f for f in run.findings if f.key == data["key"]][:1] or run.findings[:1]
        return run.finish(rule="replay of one recorded sequence of conversions on shared arrays")
    if rp.get("stream") in ("representation", "network_representation"):
        c = case_from_json(rp["case"])
        if rp["stream"] == "representation":
            call = rp["call"]
            res = representation_case(run, c, {}, (call[1],), [call[2]] if call[2] else ["IXYZ"], [rp["rep"]], only=(call, rp["rep"]))
        else:
            res = network_representation(run, c, [rp["rep"]])
        for key, what, r2, conc in res:
            run.find(key, what, r2, concrete=conc)
        run.findings = [f for f in run.findings if f.key == data["key"]][:1] or run.findings[:1]
        return run.finish(rule="replay of one converter call on re-typed inputs")
    if rp.get("stream") == "network_history":
        for key, what, r2, conc in network_history(run, case_from_json(rp["case"]), rp["ops"], rp["pure"]):
            run.find(key, what, r2, concrete=conc)
        run.findings = [f for f in run.findings if f.key == data["key"]][:1] or run.findings[:1]
        return run.finish(rule="replay of one recorded history on one QuantumChannel object")
    if "case" not in rp:
        return run.finish(rule="replay: nothing to re-execute")
    c = case_from_json(rp["case"])
    args = rp.get("args", "")
    order = next((p.split("=")[1] for p in args.split(",") if p.startswith("order=")), None)
    po = next((p.split("=")[1] for p in args.split(",") if p.startswith("pauli_order=")), "IXYZ")
    orders = (order,) if order in ORDERS else ORDERS
    ctxs = check_plan(run, [(c, orders, [po], True, True, True)], only_key=rp.get("function"))
    want = data["key"]
    run.findings = [f for f in run.findings if f.key == want][:1]
    return run.finish(rule="replay of one recorded case")
