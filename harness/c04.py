"""C04  Noise channels act as the completely positive trace-preserving map they declare.

 * static theorems coq/theories/C04/Props.v (all parameter values): the documented Kraus lists of
   Reset / AmplitudeDamping / PhaseDamping / Depolarizing(1q) / ThermalRelaxation(t1>=t2) are trace
   preserving and equal the documented closed forms (and, for thermal, the fast path's formula) on
   every one-qubit operator; CP holds by the Kraus form.
 * the Kraus operators the real constructors build are compared with those documented lists;
 * exact correspondence (Gaussian-integer density matrices, dyadic probabilities, every target
   position, non-ascending qubit tuples): real density-matrix execution of Kraus / Unitary / Pauli /
   Reset / Depolarizing channels vs the Coq spec  w0 rho + sum w_k E_k rho E_k^dagger  and the
   index-level closed forms of C04/ChannelSpec.v evaluated by vm_compute;
 * channel.to_choi / to_liouville (row, column) / to_pauli_liouville describe that same map;
 * histories interleaving representation queries and executions: every execution gives the same map;
 * histories WITH ARGUMENTS on one long-lived object (harness/chan_hist.py, model C04/History.v, theorems C04/PropsHistory.v):
   every class / thermal regime / constructor form, executed in registers of sizes m..4 (directly, in circuits, twice in one
   queue, in copied / added circuits, state-vector sampling) interleaved with to_choi / to_liouville / to_pauli_liouville for
   every order x nqubits x normalize x pauli_order; each observation == the fresh object's (exact) == the documented closed
   form (Coq spec by vm_compute on the exact classes); object attribute tree, constructor inputs, input states and arrays
   returned earlier stay untouched.
 * representation invariance (round 5; harness/repr_inv.py, theorems C01/PropsLayout.v: a view denotes its logical array, a
   memory-order flattening does not): every class / regime / constructor form as the FIRST operation of a circuit (also through
   apply_density_matrix and after a layout-preserving Pauli channel) with the initial density matrix as C / Fortran / transposed /
   strided / sliced views, read-only, big-endian, single precision, float / int arrays, lists; operator matrices, probability tables
   and parameter lists in these representations at construction.  Equality with the canonical run (exact on the dyadic classes,
   1e-12 otherwise), itself compared with the documented closed form; inputs not written, results not aliased.
"""
STATIC = ["C04/LiftTP", "C04/LiftFast", "C04/Object", "C04/Props", "C04/PropsHistory", "C01/PropsLayout"]
import itertools
import math
import random

import numpy as np

from lib import vcore
from harness import chan_hist as H

HEADER = ("From Coq Require Import ZArith List Bool.\nFrom QV Require Import Base.Mat Base.Zi C04.ChannelSpec.\n"
          "Import ListNotations.\nLocal Open Scope Z_scope.\n")
D = 64  # common denominator of the dyadic probabilities


def zi(x):
    x = complex(x)
    return f"({int(round(x.real))}, {int(round(x.imag))})"


def zmat(M):
    M = np.asarray(M)
    return "[" + "; ".join("[" + "; ".join(zi(x) for x in r) + "]" for r in M) + "]"


def nats(xs):
    xs = list(xs)
    return "(@nil nat)" if not xs else "[" + "; ".join(f"{int(x)}%nat" for x in xs) + "]"


def rand_rho(rng, n, hermitian):
    d = 2 ** n
    A = np.array([[rng.randint(-4, 4) + 1j * rng.randint(-4, 4) for _ in range(d)] for _ in range(d)])
    if hermitian:
        A = A + A.conj().T
    return A


def rand_gint(rng, k):
    d = 2 ** k
    return np.array([[rng.randint(-2, 2) + 1j * rng.randint(-2, 2) for _ in range(d)] for _ in range(d)])


def parse_zmat(s):
    import re
    vals = [complex(int(a), int(b)) for a, b in re.findall(r"\(\s*(-?\d+)\s*,\s*(-?\d+)\s*\)", s)]
    d = int(round(len(vals) ** 0.5))
    assert d * d == len(vals), "not a square matrix"
    return np.array(vals).reshape(d, d)


def obj_state(ch):
    """the attributes of a channel object that the executions read (C04/Object.v: coefficients, gates, coefficient_sum)"""
    from qibo.backends import _check_backend
    be = _check_backend(None)

    def gsig(g):
        try:
            m = np.asarray(g.matrix(be))
            return (type(g).__name__, tuple(g.qubits), m.shape, m.tobytes())
        except Exception:  # noqa: BLE001
            return (type(g).__name__, tuple(g.qubits))
    return (tuple(float(c) for c in ch.coefficients), tuple(gsig(g) for g in ch.gates),
            float(getattr(ch, "coefficient_sum", 0.0)), tuple(ch.target_qubits))


def run_dm(channel, n, rho):
    from qibo import Circuit
    c = Circuit(n, density_matrix=True)
    c.add(channel)
    return np.asarray(c(initial_state=rho.astype(complex)).state())


def make_cases(rng, tier):
    """each case: dict(kind, n, build() -> channel, coq expression of D*E(rho) (or E(rho) for Kraus), scale)"""
    from qibo import gates
    cases = []
    nmax = 3
    reps = 6 if tier == "quick" else 40
    for _ in range(reps):
        n = rng.randint(1, nmax)
        # A: KrausChannel, operators on (possibly different, non-ascending) qubit tuples
        nops = rng.randint(1, 3)
        qts = [tuple(rng.sample(range(n), rng.randint(1, min(2, n)))) for _ in range(nops)]
        mats = [rand_gint(rng, len(q)) for q in qts]
        terms = "[" + "; ".join(f"(1, {nats(q)}, {zmat(M)})" for q, M in zip(qts, mats)) + "]"
        cases.append(dict(kind="KrausChannel", n=n, scale=1, qubits=qts, w0=0, terms=terms, np=(0.0, [(1.0, q, M) for q, M in zip(qts, mats)]),
                          build=(lambda qts=qts, mats=mats: gates.KrausChannel(list(qts), [m.astype(complex) for m in mats])),
                          coq=lambda rho, n=n, terms=terms: f"apply_kraus {n}%nat 0 {terms} {zmat(rho)}"))
        # B: UnitaryChannel with dyadic probabilities
        nops = rng.randint(1, 3)
        ws = [rng.randint(1, D // 4) for _ in range(nops)]
        qts = [tuple(rng.sample(range(n), rng.randint(1, min(2, n)))) for _ in range(nops)]
        mats = [rand_gint(rng, len(q)) for q in qts]
        terms = "[" + "; ".join(f"({w}, {nats(q)}, {zmat(M)})" for w, q, M in zip(ws, qts, mats)) + "]"
        cases.append(dict(kind="UnitaryChannel", n=n, scale=D, qubits=qts, w0=D - sum(ws), terms=terms,
                          np=((D - sum(ws)) / D, [(w / D, q, M) for w, q, M in zip(ws, qts, mats)]),
                          build=(lambda qts=qts, mats=mats, ws=ws: gates.UnitaryChannel(list(qts), [(w / D, m.astype(complex)) for w, m in zip(ws, mats)])),
                          coq=lambda rho, n=n, terms=terms, ws=ws: f"apply_kraus {n}%nat {D - sum(ws)} {terms} {zmat(rho)}"))
        # C: PauliNoiseChannel
        k = rng.randint(1, min(2, n))
        qs = tuple(rng.sample(range(n), k))
        strings = rng.sample(["".join(p) for p in itertools.product("IXYZ", repeat=k)][1:], rng.randint(1, 3))
        ws = [rng.randint(1, D // 4) for _ in strings]
        P = {"I": np.eye(2), "X": np.array([[0, 1], [1, 0]]), "Y": np.array([[0, -1j], [1j, 0]]), "Z": np.diag([1, -1])}
        def pmat(s):
            M = np.array([[1]])
            for ch in s:
                M = np.kron(M, P[ch])
            return M
        terms = "[" + "; ".join(f"({w}, {nats(qs)}, {zmat(pmat(s))})" for w, s in zip(ws, strings)) + "]"
        cases.append(dict(kind="PauliNoiseChannel", n=n, scale=D, qubits=[qs], w0=D - sum(ws), terms=terms,
                          np=((D - sum(ws)) / D, [(w / D, qs, pmat(st)) for w, st in zip(ws, strings)]),
                          build=(lambda qs=qs, strings=strings, ws=ws: gates.PauliNoiseChannel(qs, [(s, w / D) for s, w in zip(strings, ws)])),
                          coq=lambda rho, n=n, terms=terms, ws=ws: f"apply_kraus {n}%nat {D - sum(ws)} {terms} {zmat(rho)}"))
    # F: every documented constructor input form of KrausChannel / UnitaryChannel, with GATE operators re-placed on a
    #    per-operator qubits list (two operators sharing their original qubit go to DIFFERENT targets; a two-qubit gate
    #    given on (1,0) goes to a permuted target pair).  Declared semantics: operator k acts on qubits[k], its i-th
    #    original qubit -> qubits[k][i].
    def forms(n):
        A, B, M = rand_gint(rng, 1), rand_gint(rng, 1), rand_gint(rng, 2)
        U = lambda mat, *q: gates.Unitary(mat.astype(complex), *q)  # noqa: E731
        out = []
        t = rng.sample(range(n), 2) if n >= 2 else [0, 0]
        if n >= 2:
            out.append(("gates_shared_origin", lambda: ([(t[0],), (t[1],)], [U(A, 0), U(B, 0)]), [((t[0],), A), ((t[1],), B)]))
            out.append(("gates_tuple", lambda: ((t[1], t[0]), [U(M, 0, 1), U(M.T.copy(), 1, 0)]), [((t[1], t[0]), M), ((t[1], t[0]), M.T.copy())]))
            out.append(("matrices_tuple", lambda: ((t[1], t[0]), [M, M.T.copy()]), [((t[1], t[0]), M), ((t[1], t[0]), M.T.copy())]))
        if n >= 3:
            p3 = rng.sample(range(n), 3)
            out.append(("gates_permuted_2q", lambda: ([(p3[0], p3[1]), (p3[2],), (p3[1],)], [U(M, 1, 0), U(A, 0), U(B, 1)]),
                        [((p3[0], p3[1]), M), ((p3[2],), A), ((p3[1],), B)]))
            out.append(("gates_empty_qubits", lambda: ([], [U(A, p3[2]), U(M, p3[1], p3[0])]), [((p3[2],), A), ((p3[1], p3[0]), M)]))
        q = rng.randrange(n)
        out.append(("matrices_int", lambda: (q, [A, B]), [((q,), A), ((q,), B)]))
        out.append(("gates_int", lambda: (q, [U(A, 0), U(B, (q + 1) % max(n, 1))]), [((q,), A), ((q,), B)]))
        return out
    for n in range(1, nmax + 1):
        for form, mk, decl in forms(n):
            ws = [rng.randint(1, D // 4) for _ in decl]
            termsK = "[" + "; ".join(f"(1, {nats(qq)}, {zmat(Mk)})" for qq, Mk in decl) + "]"
            termsU = "[" + "; ".join(f"({w}, {nats(qq)}, {zmat(Mk)})" for w, (qq, Mk) in zip(ws, decl)) + "]"
            cases.append(dict(kind="KrausChannel", form=form, decl=decl, n=n, scale=1, qubits=[qq for qq, _ in decl], w0=0, terms=termsK,
                              np=(0.0, [(1.0, qq, Mk) for qq, Mk in decl]),
                              build=(lambda mk=mk: gates.KrausChannel(*mk())),
                              coq=lambda rho, n=n, terms=termsK: f"apply_kraus {n}%nat 0 {terms} {zmat(rho)}"))
            cases.append(dict(kind="UnitaryChannel", form=form, decl=decl, n=n, scale=D, qubits=[qq for qq, _ in decl], w0=D - sum(ws), terms=termsU,
                              np=((D - sum(ws)) / D, [(w / D, qq, Mk) for w, (qq, Mk) in zip(ws, decl)]),
                              build=(lambda mk=mk, ws=ws: (lambda qo: gates.UnitaryChannel(qo[0], [(w / D, o) for w, o in zip(ws, qo[1])]))(mk())),
                              coq=lambda rho, n=n, terms=termsU, ws=ws: f"apply_kraus {n}%nat {D - sum(ws)} {terms} {zmat(rho)}"))
    # D: ResetChannel at every position
    for n in range(1, nmax + 1):
        for q in range(n):
            w0, w1 = rng.randint(0, D // 2), rng.randint(0, D // 2)
            cases.append(dict(kind="ResetChannel", n=n, scale=D, qubits=[(q,)], sup=((q,), H.super_reset(w0 / D, w1 / D)),
                              build=(lambda q=q, w0=w0, w1=w1: gates.ResetChannel(q, [w0 / D, w1 / D])),
                              coq=lambda rho, n=n, q=q, w0=w0, w1=w1: f"reset_closed {n}%nat {q}%nat {D - w0 - w1} {w0} {w1} {zmat(rho)}"))
    # E: DepolarizingChannel on 1 and 2 qubits, every ordered placement
    for n in range(1, nmax + 1):
        for k in (1, 2):
            if k > n:
                continue
            for qs in itertools.permutations(range(n), k):
                if tier == "quick" and rng.random() < 0.4 and n == 3:
                    continue
                wl = rng.randint(1, 12)            # lam = wl * 2^k / D
                lamD = wl * 2 ** k
                cases.append(dict(kind="DepolarizingChannel", n=n, scale=D, qubits=[qs], sup=(qs, H.super_depol(k, lamD / D)),
                                  build=(lambda qs=qs, lamD=lamD: gates.DepolarizingChannel(qs, lamD / D)),
                                  coq=lambda rho, n=n, qs=qs, lamD=lamD, wl=wl: f"depol_closed {n}%nat {nats(qs)} {D - lamD} {wl} {zmat(rho)}"))
    # G: DepolarizingChannel as the documented Pauli mixture, k = 1, 2, 3 target qubits (3 of n = 3 and of n = 4, unsorted /
    #    non-adjacent): every non-identity Pauli string exactly once with weight lam/4^k, identity weight 1 - lam (4^k-1)/4^k.
    #    Scale Dk = 4 * 4^k so that all weights are integers.
    P1 = {"I": np.eye(2), "X": np.array([[0, 1], [1, 0]]), "Y": np.array([[0, -1j], [1j, 0]]), "Z": np.diag([1, -1])}

    def pkron(st):
        M = np.array([[1]])
        for ch in st:
            M = np.kron(M, P1[ch])
        return M
    places = [(1, (0,)), (2, (1, 0)), (3, (2, 0, 1)), (4, (3, 0, 2))]
    if tier == "thorough":
        places += [(3, (0, 1, 2)), (3, (1, 2, 0)), (4, (1, 3, 0)), (4, (0, 2, 3)), (4, (2, 0)), (3, (2, 0))]
    for n, qs in places:
        k = len(qs)
        Dk = 4 * 4 ** k
        wp = rng.randint(1, 4)                       # D*lam/4^k ; lam = wp*4^k/Dk <= 1
        strings = ["".join(p) for p in itertools.product("IXYZ", repeat=k)][1:]
        decl = [(qs, pkron(st)) for st in strings]
        terms = "[" + "; ".join(f"({wp}, {nats(qs)}, {zmat(M)})" for _, M in decl) + "]"
        w0 = Dk - wp * (4 ** k - 1)
        cases.append(dict(kind="DepolarizingChannel", form="pauli_mixture", n=n, scale=Dk, qubits=[qs], w0=w0, terms=terms,
                          sup=(qs, H.super_depol(k, wp * 4 ** k / Dk)),
                          mixture=dict(strings=strings, weight=wp / Dk, decl=decl),
                          build=(lambda qs=qs, lam=wp * 4 ** k / Dk: gates.DepolarizingChannel(qs, lam)),
                          coq=lambda rho, n=n, qs=qs, k=k, wp=wp, Dk=Dk:
                              f"depol_closed {n}%nat {nats(qs)} {Dk - wp * 4 ** k} {wp * 2 ** k} {zmat(rho)}"))
    return cases


def embed_np(n, qs, M):
    """the 2^n operator of M acting on qubits qs (qubit 0 most significant), exact"""
    d, k = 2 ** n, len(qs)
    out = np.zeros((d, d), dtype=complex)
    for r in range(d):
        rb = [(r >> (n - 1 - q)) & 1 for q in range(n)]
        for c in range(d):
            cb = [(c >> (n - 1 - q)) & 1 for q in range(n)]
            if all(rb[q] == cb[q] for q in range(n) if q not in qs):
                ri = sum(rb[q] << (k - 1 - t) for t, q in enumerate(qs))
                ci = sum(cb[q] << (k - 1 - t) for t, q in enumerate(qs))
                out[r, c] = M[ri, ci]
    return out


def mixture_checks(run, rng, cases):
    """(a) the object's own (coefficients, gates) are the documented Pauli mixture; (b) apply_kraus over the declared list is the
    closed form depol_closed (exact, Coq) -- the Kraus list the views and the state-vector sampling use IS the fast-path map"""
    from qibo.gates.special import FusedGate
    from qibo.backends import _check_backend
    be = _check_backend(None)
    exprs, meta = [], []
    for cs in cases:
        mx = cs.get("mixture")
        if not mx:
            continue
        n, qs = cs["n"], cs["qubits"][0]
        ch = cs["build"]()
        info = {"class": cs["kind"], "n": n, "qubits": list(qs), "weight": mx["weight"], "nterms_declared": len(mx["strings"]),
                "nterms_constructed": len(ch.gates)}
        ok = len(ch.gates) == len(mx["strings"]) == len(ch.coefficients)
        ok = ok and all(float(c) == mx["weight"] for c in ch.coefficients)
        ok = ok and float(ch.coefficient_sum) == mx["weight"] * len(mx["strings"])
        if ok:
            for g, (dq, dm), st in zip(ch.gates, mx["decl"], mx["strings"]):
                fg = FusedGate(*range(n))
                fg.append(g)
                if not np.array_equal(np.asarray(fg.matrix(be)), embed_np(n, dq, dm)):
                    ok = False
                    info["first_wrong_string"] = st
                    break
        check(run, f"construction:DepolarizingChannel:pauli_mixture:k={len(qs)}", ok, info)
        rho = rand_rho(rng, n, False)
        exprs.append(f"apply_kraus {n}%nat {cs['w0']} {cs['terms']} {zmat(rho)}")
        exprs.append(cs["coq"](rho))
        meta.append((cs, rho))
    if not exprs:
        return
    vals = run.coq_eval("C04_mixture.v", HEADER, exprs, timeout=900)
    for i, (cs, rho) in enumerate(meta):
        good = vals is not None and np.array_equal(parse_zmat(vals[2 * i]), parse_zmat(vals[2 * i + 1]))
        check(run, f"pauli_mixture_is_depol_closed:k={len(cs['qubits'][0])}", good,
              {"class": cs["kind"], "n": cs["n"], "qubits": list(cs["qubits"][0]), "rho": zmat(rho), "coq_compiled": vals is not None})


def views_exact(run, cases):
    """Channel.to_choi / to_liouville / to_pauli_liouville of the real objects (dyadic coefficients, scaled by D) against the
    models chan_choi / chan_liouville / chan_pauli of C04/Views.v -- the ones channel_views_describe_apply_kraus is about"""
    ok = True
    try:
        vcore.ensure_static_build(["C04/Views"])
    except Exception as e:  # noqa: BLE001
        ok = False
        run.notes["Views_build_error"] = str(e)[-600:]
    for name in vcore.props_theorems("C04/Views.v"):
        run.oblige("Views." + name, ok, "static theorem (views of the channel object describe apply_kraus, every n)")
    if not ok:
        run.find("coq:C04/Views", "C04/Views.v (or the C17 theories it uses) does not build", {}, concrete=False)
        return
    hdr = ("From Coq Require Import ZArith List Bool.\nFrom QV Require Import Base.Mat Base.Zi C17.Alg C17.Model C17.ZiInst "
           "C04.ChannelSpec C04.Views.\nImport ListNotations. Open Scope Z_scope.\n")
    sel = [c for c in cases if "terms" in c and c["n"] <= 2][:8]
    sel += [c for c in cases if c.get("form") == "pauli_mixture" and c not in sel and
            (c["n"] <= 2 or (run.tier == "thorough" and c["n"] == 3))][:3]
    items, meta = [], []
    for cs in sel:
        n, d, sc = cs["n"], 2 ** cs["n"], cs["scale"]
        for order, o, col in (("row", f"(Row {d}%nat)", "false"), ("column", f"(Col {d}%nat)", "true"), ("system", f"(Sys {n}%nat)", None)):
            C = np.asarray(cs["build"]().to_choi(nqubits=n, order=order)) * sc
            items.append(f"zmeqb (chan_choi {o} {n}%nat {cs['w0']} {cs['terms']}) {zmat(C)}")
            meta.append((cs, f"to_choi({order})"))
            if col is not None:
                L = np.asarray(cs["build"]().to_liouville(nqubits=n, order=order)) * sc
                items.append(f"zmeqb (chan_liouville {col} {n}%nat {cs['w0']} {cs['terms']}) {zmat(L)}")
                meta.append((cs, f"to_liouville({order})"))
        for po in ("IXYZ", "ZXIY"):
            Pm = np.asarray(cs["build"]().to_pauli_liouville(nqubits=n, normalize=False, pauli_order=po)) * sc
            pn = "[" + ";".join(str("IXYZ".index(ch)) for ch in po) + "]%nat"
            items.append(f"zmeqb (chan_pauli {pn} {n}%nat {cs['w0']} {cs['terms']}) {zmat(Pm)}")
            meta.append((cs, f"to_pauli_liouville({po})"))
    out, log = run.coq_bools("C04_views.v", hdr, [(f"v{i}", t) for i, t in enumerate(items)], timeout=900)
    for i, (cs, view) in enumerate(meta):
        good = out is not None and out[f"v{i}"]
        check(run, f"view_model:{cs['kind']}:{view.split('(')[0]}", good,
              {"class": cs["kind"], "n": cs["n"], "qubits": [list(q) for q in cs["qubits"]], "view": view,
               "coq_compiled": out is not None})


def superop_views(ch, n, rho, expect, scale):
    """the channel's own representations must describe the map `expect/scale` (exact: dyadic data)"""
    bad = []
    d = 2 ** n
    want = expect / scale
    for order in ("row", "column"):
        L = np.asarray(ch.to_liouville(nqubits=n, order=order))
        v = rho.reshape(-1) if order == "row" else rho.T.reshape(-1)
        out = L @ v
        out = out.reshape(d, d) if order == "row" else out.reshape(d, d).T
        if np.abs(out - want).max() > 1e-9:
            bad.append(f"to_liouville({order})")
        Cm = np.asarray(ch.to_choi(nqubits=n, order=order))
        # Choi = sum |K)(K| ; E(rho)[i,k] = sum_{j,l} Choi[(i,j),(k,l)] rho[j,l]   (row)   /  [(j,i),(l,k)] (column)
        C4 = Cm.reshape(d, d, d, d)
        out = np.einsum("ijkl,jl->ik", C4, rho) if order == "row" else np.einsum("jilk,jl->ik", C4, rho)
        if np.abs(out - want).max() > 1e-9:
            bad.append(f"to_choi({order})")
    from qibo.quantum_info.basis import comp_basis_to_pauli
    for normalize in (True, False):
        Pm = np.asarray(ch.to_pauli_liouville(nqubits=n, normalize=normalize))
        U = np.asarray(comp_basis_to_pauli(n, normalize))
        f = 1.0 if normalize else float(d)
        Lback = U.conj().T @ Pm @ U / (f * f)
        out = (Lback @ rho.reshape(-1)).reshape(d, d)
        if np.abs(out - want).max() > 1e-9:
            bad.append(f"to_pauli_liouville(normalize={normalize})")
    return bad


def kraus_lists(run, rng):
    """constructor-built Kraus operators vs the documented lists the Coq theorems are about; numeric TP"""
    from qibo import gates
    s = math.sqrt

    def mats(ch):
        return [np.asarray(g.matrix()) for g in ch.gates]

    def tp_dev(ch):
        return float(np.abs(sum(c * (K.conj().T @ K) for c, K in zip(ch.coefficients, mats(ch))) - np.eye(2 ** len(ch.target_qubits))).max())

    def same(A, B):
        return len(A) == len(B) and all(np.abs(a - np.asarray(b, dtype=complex)).max() < 1e-14 for a, b in zip(A, B))
    for i in range(12):
        p0, p1 = rng.uniform(0, 0.4), rng.uniform(0, 0.4)
        g = rng.uniform(0.01, 0.99)
        ch = gates.ResetChannel(0, [p0, p1])
        doc = [[[s(p0), 0], [0, 0]], [[0, s(p0)], [0, 0]], [[0, 0], [s(p1), 0]], [[0, 0], [0, s(p1)]], [[s(1 - p0 - p1), 0], [0, s(1 - p0 - p1)]]]
        check(run, "kraus_list:ResetChannel", same(mats(ch), doc) and tp_dev(ch) < 1e-12, {"p0": p0, "p1": p1})
        ch = gates.AmplitudeDampingChannel(0, g)
        check(run, "kraus_list:AmplitudeDampingChannel", same(mats(ch), [[[1, 0], [0, s(1 - g)]], [[0, s(g)], [0, 0]]]) and tp_dev(ch) < 1e-12, {"gamma": g})
        ch = gates.PhaseDampingChannel(0, g)
        check(run, "kraus_list:PhaseDampingChannel", same(mats(ch), [[[1, 0], [0, s(1 - g)]], [[0, 0], [0, s(g)]]]) and tp_dev(ch) < 1e-12, {"gamma": g})
        t1, t2, t, ex = rng.uniform(1, 3), rng.uniform(0.2, 0.99), rng.uniform(0.1, 2), rng.uniform(0, 0.5)
        ch = gates.ThermalRelaxationChannel(0, [t1, t2, t, ex])
        pr = 1 - math.exp(-t / t1)
        q0, q1 = pr * (1 - ex), pr * ex
        pz = (math.exp(-t / t1) - math.exp(-t / t2)) / 2
        doc = [[[s(q0), 0], [0, 0]], [[0, s(q0)], [0, 0]], [[0, 0], [s(q1), 0]], [[0, 0], [0, s(q1)]],
               [[s(pz), 0], [0, -s(pz)]], [[s(1 - q0 - q1 - pz), 0], [0, s(1 - q0 - q1 - pz)]]]
        check(run, "kraus_list:ThermalRelaxationChannel:t1>=t2", same(mats(ch), doc) and tp_dev(ch) < 1e-12, {"t1": t1, "t2": t2, "time": t, "excited": ex})
        # t1 < t2 regime: trace preservation of the channel's own Kraus list, and Choi vs simulation
        t1b = rng.uniform(1, 2)
        t2b = rng.uniform(t1b * 1.05, t1b * 1.9)
        ch = gates.ThermalRelaxationChannel(0, [t1b, t2b, t, ex])
        rho = rand_rho(rng, 1, True).astype(complex)
        sim = run_dm(gates.ThermalRelaxationChannel(0, [t1b, t2b, t, ex]), 1, rho)
        kr = sum(K @ rho @ K.conj().T for K in mats(ch))
        check(run, "thermal_t1<t2:kraus_not_tp", tp_dev(ch) < 1e-9, {"t1": t1b, "t2": t2b, "time": t, "excited": ex, "tp_deviation": tp_dev(ch)})
        check(run, "thermal_t1<t2:choi_vs_simulation", np.abs(sim - kr).max() < 1e-9,
              {"t1": t1b, "t2": t2b, "time": t, "excited": ex, "max_diff": float(np.abs(sim - kr).max())})
        # readout error channel: TP for row-stochastic probabilities
        a, b = rng.uniform(0, 1), rng.uniform(0, 1)
        ch = gates.ReadoutErrorChannel(0, [[a, 1 - a], [b, 1 - b]])
        check(run, "kraus_list:ReadoutErrorChannel", tp_dev(ch) < 1e-12, {"probabilities": [[a, 1 - a], [b, 1 - b]]})


_checks = {}


def check(run, key, ok, info):
    run.case([key, info])
    st = _checks.setdefault(key, {"n": 0, "bad": None})
    st["n"] += 1
    if not ok and st["bad"] is None:
        st["bad"] = info


def fast_vs_kraus(run, rng, tier):
    """fast paths with irrational coefficients (thermal, both regimes) vs. the generic Kraus sum of the
    channel's own operators, at every target position (tolerance test for the placement glue)"""
    from qibo import gates
    from qibo.backends import NumpyBackend
    be = NumpyBackend()
    for n in (1, 2, 3):
        for q in range(n):
            for regime in ("ge", "lt"):
                t1 = rng.uniform(1, 2)
                t2 = rng.uniform(0.3, 0.9) if regime == "ge" else rng.uniform(t1 * 1.05, t1 * 1.9)
                params = [t1, t2, rng.uniform(0.2, 1.5), rng.uniform(0, 0.4)]
                ch = gates.ThermalRelaxationChannel(q, params)
                rho = rand_rho(rng, n, True).astype(complex)
                fast = run_dm(ch, n, rho)
                ref = np.zeros_like(rho)
                if regime == "ge":
                    for g in ch.gates:
                        ref = ref + np.asarray(be.apply_gate_density_matrix(g, rho.copy(), n))
                    key = f"thermal_fast_path:t1>=t2:q={q}" if q else "thermal_fast_path:t1>=t2:q=0"
                    check(run, "thermal_fast_path:t1>=t2", np.abs(fast - ref).max() < 1e-10,
                          {"n": n, "qubit": q, "params": params, "max_diff": float(np.abs(fast - ref).max())})
                else:
                    # documented superoperator of the t1<t2 regime acting on (q, q+n): trace must be preserved
                    check(run, "thermal_fast_path:t1<t2:trace", abs(np.trace(fast) - np.trace(rho)) < 1e-10,
                          {"n": n, "qubit": q, "params": params})


# ----------------------------------------------------------------------------- histories with arguments (C04/History.v)
CONCRETE = ("history_vs_fresh", "fresh_vs_spec", "input_mutated", "returned_array_changed", "constructor_input_mutated")


def history_specs(rng, cases, tier):
    """exact specs (one per class / constructor form, from make_cases) + the sqrt/exp classes of chan_hist"""
    specs, seen = [], {}
    for i, cs in enumerate(cases):
        tag = (cs["kind"], cs.get("form", "plain"))
        lim = 2 if tag[1] == "plain" and cs["kind"] in ("ResetChannel", "DepolarizingChannel") else 1
        if tier == "thorough":
            lim += 1
        if seen.get(tag, 0) >= lim or (tag[1] == "pauli_mixture" and len(cs["qubits"][0]) not in (2, 3)):
            continue
        if tag[1] == "plain" and cs["kind"] in ("ResetChannel", "DepolarizingChannel") and rng.random() < 0.5 and i + 4 < len(cases):
            continue                              # not always the first placement
        seen[tag] = seen.get(tag, 0) + 1
        m = 1 + max(q for qq in cs["qubits"] for q in qq)
        oracle = H.oracle_terms(*cs["np"]) if "np" in cs else H.oracle_super(*cs["sup"])
        specs.append(H.Spec(f"{cs['kind']}:{tag[1]}:{i}", cs["kind"], cs["build"], m, oracle, exact=True, coq=cs["coq"], scale=cs["scale"],
                            sv=cs["kind"] in ("UnitaryChannel", "PauliNoiseChannel", "DepolarizingChannel"),
                            info={"class": cs["kind"], "form": tag[1], "qubits": [list(q) for q in cs["qubits"]]}))
    return specs + H.irrational_specs(rng)


def history_stream(run, rng, cases, only=None):
    """one object per (spec, history); see harness/chan_hist.py.  only = (spec name, ops) for a replay."""
    specs = history_specs(rng, cases, run.tier)
    found, nobs, coq_items, coq_meta, seen_coq = {}, 0, [], [], set()
    nrand = 1 if run.tier == "quick" else 4
    per_class = {}
    for sp in specs:
        if only is not None:
            if sp.name != only[0]:
                continue
            hists = [("replay", only[1])]
        else:
            hists = [(fl, H.gen_history(rng, sp, 4, 10, flavour=fl)) for fl in ["sizes", "orders"] + ["random"] * nrand]
        for fl, ops in hists:
            problems, records = H.run_history(sp, ops, run.seed)
            nobs += sum(1 for o in ops if o[0] != "scribble")
            per_class[sp.cls] = per_class.get(sp.cls, 0) + 1
            run.case(["history", sp.name, ops])
            if len(run.samples) < 12 and fl != "sizes":
                run.sample({"stream": "history", "spec": sp.name, **sp.info, "history": ops[:8]})
            for pb in problems:
                key = f"history:{sp.cls}:{pb['what']}:{pb['op'][0]}"
                conc = pb["what"] in CONCRETE
                if key not in found or (conc and not found[key][2]):
                    found[key] = (f"{sp.name}: step {pb['step']} {pb['op']} of a history on ONE object: {pb['detail']}"
                                  + (f" (max difference {pb['max_diff']:.3g})" if pb.get("max_diff") is not None else ""),
                                  {"stream": "history", "spec": sp.name, **sp.info, "history": ops[:pb["step"] + 1], "step": pb["step"],
                                   "what": pb["what"]}, conc)
            if sp.exact:                         # fresh executions against the Coq spec, one per (spec, register size, rho)
                for op, val in records:
                    if op[0] != "exec" or op[2] not in ("circuit", "direct"):
                        continue
                    k = (sp.name, op[1])
                    if k in seen_coq:
                        continue
                    seen_coq.add(k)
                    rho = H.rho_for(run.seed, op[1], op[3])
                    coq_items.append(sp.coq(rho, n=op[1]))
                    coq_meta.append((sp, op, val, ops))
    # a model-level disagreement without a failing observation is reported as such (no failing input)
    has_concrete = {k.split(":")[1] for k, v in found.items() if v[2]}
    for key, (what, rp, conc) in found.items():
        if not conc and key.split(":")[1] in has_concrete:
            continue
        run.find(key, what, rp, concrete=conc)
    # exact part: ChannelSpec by vm_compute
    nbad = 0
    if coq_items:
        from concurrent.futures import ThreadPoolExecutor
        chunks = [list(range(i, len(coq_items), 4)) for i in range(4)]

        def work(j):
            idxs = chunks[j]
            return idxs, (run.coq_eval(f"C04_hist_{j}.v", HEADER, [coq_items[i] for i in idxs], timeout=900) if idxs else [])
        with ThreadPoolExecutor(max_workers=4) as ex:
            for idxs, vals in ex.map(work, range(4)):
                for pos, i in enumerate(idxs):
                    sp, op, val, ops = coq_meta[i]
                    run.case(["history_exec_vs_coq", sp.name, op])
                    if vals is None:
                        run.find("coq:C04_hist", "spec evaluation file of the history stream does not compile", concrete=False)
                        nbad += 1
                        break
                    want = parse_zmat(vals[pos])
                    got = np.asarray(val) * sp.scale
                    if got.shape != want.shape or np.abs(got - want).max() > 1e-7:
                        nbad += 1
                        run.find(f"history:{sp.cls}:fresh_vs_coq_spec:exec",
                                 f"{sp.name}: {op} on a fresh object differs from C04/ChannelSpec.v",
                                 {"stream": "history", "spec": sp.name, **sp.info, "history": [op], "step": 0, "what": "fresh_vs_coq_spec"})
    ok = not found
    run.oblige("history_every_observation_equals_fresh_object_and_closed_form", ok, "correspondence")
    run.oblige("history_fresh_executions_equal_ChannelSpec_every_register_size", nbad == 0, "correspondence")
    run.notes["history_stream"] = {"specs": len(specs), "histories_per_class": per_class, "observations": nobs,
                                   "coq_exec_evaluations": len(coq_items),
                                   "register_sizes": "m..4 (m = 1 + largest target)", "thermal_t1<t2_views_oracle":
                                   "the object's own Kraus list (known finding: it differs from the simulated closed form)"}
    return found


# ----------------------------------------------------------------------------- representation invariance (family F)
REPR_WRITES = ("input_written", "result_aliases_input", "constructor_input_written")


def repr_rho(seed, n, kind):
    r = random.Random(f"repr-rho:{seed}:{n}:{kind}")
    d = 2 ** n
    if kind == "real":                      # real and NOT symmetric
        A = np.array([[r.randint(-4, 4) for _ in range(d)] for _ in range(d)], dtype=complex)
        if d > 1:
            A[0, 1], A[1, 0] = 3, -2
        return A
    A = np.array([[r.randint(-4, 4) + 1j * r.randint(-4, 4) for _ in range(d)] for _ in range(d)], dtype=complex)
    if kind == "hermitian":
        A = A + A.conj().T
        if d > 1:
            A[0, 1] += 2j
            A[1, 0] -= 2j
    return A


def repr_tag(sp):
    parts = sp.name.split(":")
    return sp.cls + (":" + parts[1] if sp.cls == "ThermalRelaxationChannel" else "")


def repr_close(a, b, exact):
    a, b = np.asarray(a), np.asarray(b)
    if a.shape != b.shape:
        return False
    if exact:
        return bool(np.array_equal(a, b))
    return bool(np.abs(a - b).max() <= 1e-12 * max(1.0, float(np.abs(b).max())))


def repr_exec(sp, n, obj, entry):
    """entry: circuit (the channel is the FIRST and only operation) | direct (channel.apply_density_matrix(backend, state, n)) |
    after_pauli (a layout-preserving PauliNoiseChannel first, then the channel)"""
    from qibo import Circuit, gates
    from qibo.backends import _check_backend
    ch = sp.build()
    if entry == "direct":
        return np.asarray(ch.apply_density_matrix(_check_backend(None), obj, n))
    c = Circuit(n, density_matrix=True)
    if entry == "after_pauli":
        c.add(gates.PauliNoiseChannel(n - 1, [("Y", 0.25), ("Z", 0.125)]))
    c.add(ch)
    return np.asarray(c(initial_state=obj).state())


def repr_oracle(sp, n, rho, entry):
    if entry == "after_pauli":
        Y, Z = np.array([[0, -1j], [1j, 0]]), np.diag([1.0 + 0j, -1.0])
        EY, EZ = H.embed_np(n, (n - 1,), Y), H.embed_np(n, (n - 1,), Z)
        rho = 0.625 * rho + 0.25 * EY @ rho @ EY.conj().T + 0.125 * EZ @ rho @ EZ.conj().T
    return sp.oracle(n, rho)


def repr_one(sp, n, kind, label, entry, seed):
    """returns (problem or None, detail)"""
    from harness import repr_inv
    rho = repr_rho(seed, n, kind)
    ref = repr_exec(sp, n, rho.copy(), entry)
    if label == repr_inv.CANON:
        want = repr_oracle(sp, n, rho, entry)
        if np.abs(ref - want).max() > 1e-9 * max(1.0, float(np.abs(want).max())):
            return "canonical_vs_closed_form", f"max difference {float(np.abs(ref - want).max()):.3g}"
        return None, ""
    obj, guard = repr_inv.rebuild(label, rho)
    try:
        got = repr_exec(sp, n, obj, entry)
    except Exception as e:  # noqa: BLE001
        return "raises", f"{type(e).__name__}: {e}"
    if not repr_close(got, ref, sp.exact):
        return "differs", f"max difference from the canonical array's result {float(np.abs(got - ref).max()):.3g}"
    w = guard()
    if w:
        return "input_written", w
    if repr_inv.shares(got, obj):
        return "result_aliases_input", "the returned state shares memory with the caller's array"
    return None, ""


def ctor_repr_cases(rng):
    """constructor arguments (operator matrices, probability tables, parameter lists) in every representation"""
    from qibo import gates
    K1, K2 = rand_gint(rng, 2).astype(complex), rand_gint(rng, 2).astype(complex)
    K1[0, 3], K1[3, 0], K2[1, 2], K2[2, 1] = 1 + 2j, -2 + 1j, 2 - 1j, 1j          # never symmetric
    A = rand_gint(rng, 1).astype(complex)
    A[0, 1], A[1, 0] = 2 + 1j, -1j
    P1 = np.array([[0.75, 0.25], [0.125, 0.875]])
    P2 = np.array([[0.5, 0.25, 0.125, 0.125], [0.0, 0.75, 0.25, 0.0], [0.125, 0.125, 0.25, 0.5], [0.25, 0.0, 0.0, 0.75]])
    return [
        ("KrausChannel:operator", 2, K1, False, False, lambda M: gates.KrausChannel((1, 0), [M, K2.copy()])),
        ("KrausChannel:operator_1q", 2, A, False, False, lambda M: gates.KrausChannel([(1,), (0,)], [M, A.T.copy()])),
        ("UnitaryChannel:operator", 2, K2, False, False, lambda M: gates.UnitaryChannel((1, 0), [(0.25, M), (0.5, K1.copy())])),
        ("ReadoutErrorChannel:probabilities_1q", 2, P1, True, True, lambda P: gates.ReadoutErrorChannel(1, P)),
        ("ReadoutErrorChannel:probabilities_2q", 2, P2, True, True, lambda P: gates.ReadoutErrorChannel((1, 0), P)),
        ("ThermalRelaxationChannel:t1<t2:parameters", 2, np.array([1.5, 2.25, 0.5, 0.25]), True, True,
         lambda v: gates.ThermalRelaxationChannel(1, v)),
        ("ThermalRelaxationChannel:t1>=t2:parameters", 2, np.array([1.5, 0.75, 0.5, 0.25]), True, True,
         lambda v: gates.ThermalRelaxationChannel(0, v)),
        ("ThermalRelaxationChannel:t1<t2:integer_parameters", 1, np.array([1.0, 2.0, 1.0, 0.0]), True, True,
         lambda v: gates.ThermalRelaxationChannel(0, v)),
        ("ResetChannel:probabilities", 2, np.array([0.25, 0.125]), True, True, lambda v: gates.ResetChannel(1, v)),
    ]


def ctor_repr_one(name, label, seed, rng_seed):
    from harness import repr_inv
    for nm, n, arr, real, containers, mk in ctor_repr_cases(random.Random(rng_seed)):
        if nm != name:
            continue
        rho = repr_rho(seed, n, "general")
        ref = run_dm(mk(np.array(arr, copy=True)), n, rho.copy())
        obj, guard = repr_inv.rebuild(label, arr, real=real)
        try:
            got = run_dm(mk(obj), n, rho.copy())
        except Exception as e:  # noqa: BLE001
            return "raises", f"{type(e).__name__}: {e}"
        if not repr_close(got, ref, False):
            return "differs", f"max difference from the canonical argument's result {float(np.abs(got - ref).max()):.3g}"
        w = guard()
        if w:
            return "constructor_input_written", w
        return None, ""
    raise KeyError(name)


SINGLE_SCALARS = ("single", "single_fortran")     # parameter lists in float32 are outside what qibo documents (floats)


def repr_stream(run, cases, only=None):
    """every channel class / regime / constructor form as the FIRST operation of a density-matrix circuit, the initial state in
    every representation of harness/repr_inv.py; equality with the canonical run (exact on the dyadic classes, 1e-12 else),
    which is compared with the documented closed form; inputs not written, results not aliased"""
    from harness import repr_inv
    seed = run.seed
    specs = history_specs(random.Random(f"repr:{seed}"), cases, run.tier)
    found, nexec = {}, 0
    light = ("fortran", "transposed_view", "strided_view", "single_fortran", "readonly", "list")
    for sp in specs:
        sizes = sorted({sp.m, min(3, max(sp.m, 3))}) if run.tier != "quick" or sp.m < 3 else [sp.m]
        if sp.m > 3:
            continue
        for n in sizes:
            for kind in (("general", "hermitian", "real") if n == sp.m else ("general",)):
                labels = [l for l, _, _ in repr_inv.variants(repr_rho(seed, n, kind))]
                for entry in ("circuit", "direct", "after_pauli"):
                    for label in labels:
                        if entry != "circuit" and label not in light and label != repr_inv.CANON:
                            continue
                        if entry == "direct" and label in ("list", "tuple"):
                            continue
                        if kind != "general" and entry != "circuit":
                            continue
                        if only is not None and only != (sp.name, n, kind, label, entry):
                            continue
                        nexec += 1
                        pb, detail = repr_one(sp, n, kind, label, entry, seed)
                        if pb:
                            key = f"repr:{repr_tag(sp)}:{entry}:{pb}:{label}"
                            if key not in found or n < found[key][1]["n"]:
                                found[key] = (f"{sp.name} as {'the first operation' if entry != 'after_pauli' else 'second operation after a PauliNoiseChannel'} "
                                              f"on {n} qubits ({entry}), initial density matrix ({kind}) given as <{label}>: {pb}: {detail}",
                                              {"stream": "repr", "spec": sp.name, **sp.info, "n": n, "rho_kind": kind, "variant": label,
                                               "entry": entry, "problem": pb})
        run.case(["repr", sp.name])
    if only is None or only[0].startswith("ctor:"):
        rs = f"ctor:{seed}"
        for nm, n, arr, real, containers, mk in ctor_repr_cases(random.Random(rs)):
            for label, _, _ in repr_inv.variants(arr, containers=containers, real=real):
                if label == repr_inv.CANON or (arr.ndim == 1 and label in SINGLE_SCALARS):
                    continue
                if label == "tuple" and nm.startswith("ReadoutErrorChannel"):
                    continue      # documented as "array"; a list is accepted, a tuple of tuples is rejected with a TypeError
                if only is not None and only != ("ctor:" + nm, label):
                    continue
                nexec += 1
                pb, detail = ctor_repr_one(nm, label, seed, rs)
                run.case(["repr_ctor", nm, label])
                if pb:
                    found.setdefault(f"repr:{nm}:constructor:{pb}:{label}",
                                     (f"{nm}: constructor argument given as <{label}>: {pb}: {detail}",
                                      {"stream": "repr", "spec": "ctor:" + nm, "variant": label, "problem": pb}))
    keys = sorted(found)
    for k in keys[:14]:
        run.find(k, found[k][0], found[k][1])
    if len(keys) > 14:
        run.notes["repr_more_findings"] = keys[14:]
    run.oblige("repr_channel_result_is_a_function_of_the_logical_array", not any(k.split(":")[-2] in ("differs", "raises", "canonical_vs_closed_form") for k in keys), "correspondence")
    run.oblige("repr_channel_inputs_not_written_results_not_aliased", not any(k.split(":")[-2] in REPR_WRITES for k in keys), "correspondence")
    run.notes["repr_stream"] = {"specs": len(specs), "executions": nexec}
    return found


RULE = ("channel class x qubit placement (every position, non-ascending tuples) x random Gaussian-integer rho "
        "(Hermitian and non-Hermitian) x dyadic probabilities; plus representation queries and query/execute histories; "
        "plus histories with arguments on one object per (class / regime / constructor form): register sizes m..4 x execution "
        "variants x orders x nqubits x normalize x pauli_order, each observation vs a fresh object and the closed form; "
        "plus representations (harness/repr_inv.py): every class / regime / constructor form as the FIRST operation (circuit, "
        "apply_density_matrix, after a layout-preserving Pauli channel) with the initial density matrix as C / Fortran / transposed / "
        "strided / sliced views, read-only, single precision, float / int, lists, and operator matrices / probability tables / "
        "parameter lists in these representations at construction; "
        "distinct = distinct (class, placement, weights, rho)")


def main(run):
    rng = random.Random(run.seed)
    _checks.clear()
    run.trusted += ["Coq 8.16.1 kernel, vm_compute", "Base/Mat.v embed as the meaning of 'operator on qubits'",
                    "C04/ChannelSpec.v executable spec (hand-written from the documented formulas)",
                    "numeric comparison (1e-14) of constructor-built Kraus operators with the documented lists: sqrt/exp are irreducibly real"]
    run.assumptions += ["exact real arithmetic in the theorems; correspondence data are integers/dyadics so floats are exact"]
    for t in vcore.props_theorems("C04/Props.v") + vcore.props_theorems("C04/Object.v") + vcore.props_theorems("C04/PropsHistory.v"):
        run.oblige(t, True, "static-theorem")
    for t in vcore.props_theorems("C01/PropsLayout.v"):      # layouts denote their logical array (used by repr_stream)
        run.oblige("PropsLayout." + t, True, "static-theorem")
    ok, pa = vcore.static_assumptions("C04/Props")
    run.notes["print_assumptions"] = {k: v[:200] for k, v in pa.items()}
    cases = make_cases(rng, run.tier)
    exprs, info = [], []
    for cs in cases:
        rho = rand_rho(rng, cs["n"], rng.random() < 0.5)
        exprs.append(cs["coq"](rho))
        info.append((cs, rho))
    vals = run.coq_eval("C04_cases.v", HEADER, exprs, timeout=900)
    if vals is None:
        run.find("coq:C04_cases", "spec evaluation file does not compile", concrete=False)
        return run.finish(rule=RULE)
    nbad = 0
    for (cs, rho), v in zip(info, vals):
        want = parse_zmat(v)
        ch = cs["build"]()
        hist = []
        if "decl" in cs:        # the object's gates must be the declared (targets, matrix) pairs, in order
            from qibo.backends import _check_backend
            be = _check_backend(None)
            got = [(tuple(g.target_qubits), np.asarray(g.matrix(be))) for g in ch.gates]
            okd = len(got) == len(cs["decl"]) and all(gq == tuple(dq) and gm.shape == dm.shape and np.array_equal(gm, dm)
                                                      for (gq, gm), (dq, dm) in zip(got, cs["decl"]))
            check(run, f"construction:{cs['kind']}:{cs['form']}", okd,
                  {"class": cs["kind"], "form": cs["form"], "n": cs["n"], "declared": [[list(dq), zmat(dm)] for dq, dm in cs["decl"]],
                   "constructed_targets": [list(gq) for gq, _ in got]})
        # history: optionally query representations before / between executions
        script = rng.choice([["exec"], ["choi", "exec"], ["exec", "liouville", "exec"], ["pauli", "choi", "exec", "exec"],
                             ["sv", "choi", "sv", "exec"], ["liouville", "pauli", "sv", "exec"]])
        okc, detail = True, None
        st0 = obj_state(ch)
        mutated = None
        for step in script:
            try:
                if step == "sv":        # state-vector sampling path (UnitaryChannel family only)
                    from qibo.backends import _check_backend
                    psi = np.zeros(2 ** cs["n"], dtype=complex)
                    psi[0] = 1.0
                    try:
                        ch.apply(_check_backend(None), psi, cs["n"])
                    except NotImplementedError:
                        pass
                    hist.append(step)
                    if mutated is None and obj_state(ch) != st0:
                        mutated = step
                    continue
                if step == "exec":
                    got = run_dm(ch, cs["n"], rho) * cs["scale"]
                    if got.shape != want.shape or np.abs(got - want).max() > 1e-7:
                        okc, detail = False, {"step": "exec", "history": hist + [step], "max_diff": float(np.abs(got - want).max())}
                        break
                elif step == "choi":
                    ch.to_choi(nqubits=cs["n"])
                elif step == "liouville":
                    ch.to_liouville(nqubits=cs["n"])
                else:
                    ch.to_pauli_liouville(nqubits=cs["n"])
            except Exception as e:
                okc, detail = False, {"step": step, "history": hist + [step], "error": f"{type(e).__name__}: {e}"}
                break
            hist.append(step)
            if mutated is None and obj_state(ch) != st0:
                mutated = step
        # attribute-level comparison with the state machine C04/Object.v: no operation writes the object
        check(run, f"object_state:{cs['kind']}", mutated is None,
               {"class": cs["kind"], "n": cs["n"], "qubits": [list(q) for q in cs["qubits"]], "history": script,
                "first_mutating_operation": mutated})
        views_bad = []
        if okc and cs["kind"] != "KrausChannel" or (okc and cs["kind"] == "KrausChannel"):
            try:
                views_bad = superop_views(cs["build"](), cs["n"], rho.astype(complex), want, cs["scale"])
            except Exception as e:
                views_bad = [f"representation query raises {type(e).__name__}: {e}"]
        run.case([cs["kind"], cs["n"], [list(q) for q in cs["qubits"]], script, zmat(rho)])
        run.sample({"class": cs["kind"], "n": cs["n"], "qubits": [list(q) for q in cs["qubits"]], "history": script})
        if not okc:
            nbad += 1
            hist_key = "after_query" if any(s != "exec" for s in detail.get("history", [])[:-1]) else "plain"
            run.find(f"dm_map:{cs['kind']}:{hist_key}", f"density-matrix execution of {cs['kind']} differs from the declared map",
                     {"class": cs["kind"], "n": cs["n"], "qubits": [list(q) for q in cs["qubits"]], "rho": zmat(rho), **detail})
        for vb in views_bad:
            nbad += 1
            run.find(f"representation:{cs['kind']}:{vb.split('(')[0]}", f"{vb} of {cs['kind']} does not describe the simulated map",
                     {"class": cs["kind"], "n": cs["n"], "qubits": [list(q) for q in cs["qubits"]], "view": vb})
    run.oblige("correspondence_dm_execution_equals_declared_map", nbad == 0, "correspondence")
    views_exact(run, cases)
    mixture_checks(run, rng, cases)
    history_stream(run, random.Random(f"hist:{run.seed}"), cases)
    repr_stream(run, cases)
    kraus_lists(run, rng)
    fast_vs_kraus(run, rng, run.tier)
    for key, stt in _checks.items():
        if stt["bad"] is None:
            run.oblige(key.replace(":", "_").replace("<", "lt").replace(">=", "ge"), True, "correspondence")
        else:
            run.refuted.append(key)
            run.find(key, f"{key}: failed on {stt['bad']}", stt["bad"])
    run.not_proved += ["n-qubit lift of the one-qubit CLOSED FORMS (reset/depolarizing: C18/LiftC04.v proves closed form = weights (x) "
                       "partial-trace model; the other channels are tied by exact correspondence at every position n<=3)",
                       "ThermalRelaxation t1<t2 Kraus list is refuted (known finding)"]
    run.notes["lift_theorems"] = ("C04/LiftTP.v (in Props.v): for every register size n and every duplicate-free in-range target list, "
                                  "apply_kraus is trace preserving when the small operator sum is (kraus_tp_lifts, unitary_mixture_trace), "
                                  "maps Gram forms to Gram forms also on extended registers (complete positivity), preserves Hermiticity")
    return run.finish(rule=RULE)


def replay(run, data):
    rp = data.get("replay") or {}
    if rp.get("stream") == "history":
        # the corpus is a function of the seed: rebuild it, pick the recorded constructor call, re-run the recorded history
        run.seed = int(data.get("seed", run.seed))
        run.tier = data.get("tier", run.tier)
        _checks.clear()
        cases = make_cases(random.Random(run.seed), run.tier)
        found = history_stream(run, random.Random(f"hist:{run.seed}"), cases, only=(rp["spec"], rp["history"]))
        run.findings = [f for f in run.findings if f.key == data.get("key")][:1] or run.findings[:1]
        return run.finish(rule="replay of one recorded history on one channel object")
    if rp.get("stream") == "repr":
        run.seed = int(data.get("seed", run.seed))
        run.tier = data.get("tier", run.tier)
        _checks.clear()
        cases = make_cases(random.Random(run.seed), run.tier)
        only = (rp["spec"], rp["variant"]) if rp["spec"].startswith("ctor:") else (rp["spec"], rp["n"], rp["rho_kind"], rp["variant"], rp["entry"])
        repr_stream(run, cases, only=only)
        return run.finish(rule="replay of one recorded representation case")
    return main(run)
