"""C15 extension streams (gap families A-E of STRENGTHEN_GUIDE.md); every stream compares the real objects with PLAIN MATRIX
ARITHMETIC (numpy on small Gaussian integers: exact) and with the same operation on fresh, uncached objects.

  hist_dense   long-lived dense Hamiltonians whose eigenvalue / eigenvector / exp caches were filled through the PUBLIC API
               (eigenvalues(), eigenvectors(), ground_state(), exp(a)), then * + - @ with scalars of both signs, zero,
               floats, complex (where the result is only observed through its matrix), other Hamiltonians; chains of
               operations; then eigenvalues() (ascending), eigenvectors() (eigenpairs in that order), ground_state() (lowest),
               exp(a), expectation, matrix -- against numpy on the arithmetic result
  hist_symbolic long-lived SymbolicHamiltonians (dense cache, terms cache, eigen caches filled; nqubits larger than the highest
               qubit used; symbols shared between forms), algebra between them; results and SOURCES observed afterwards;
               `form` reassigned through the setter (open finding on the unchanged tree)
  primitives   every primitive of the term-by-term application on state vectors AND density matrices: HamiltonianTerm /
               SymbolicTerm calls and backend.apply_gate_half_density_matrix with every Pauli, complex non-Hermitian custom
               matrices, two-qubit terms on permuted qubits; SymbolicHamiltonians over custom `Symbol`s (repeated factors on
               one qubit in both orders, identity factors, constants, powers): dense / h @ psi / h @ rho / expectation
  circuit      expectation_from_circuit on product eigenstates (every term deterministic) with X/Y/Z bases on permuted qubits
Inputs (states, density matrices, frequency tables, qubit maps) are snapshotted before every public call and compared after.
"""
import itertools
import random

import numpy as np

P2 = {"I": np.eye(2, dtype=complex), "X": np.array([[0, 1], [1, 0]], dtype=complex),
      "Y": np.array([[0, -1j], [1j, 0]], dtype=complex), "Z": np.array([[1, 0], [0, -1]], dtype=complex)}
CUSTOM = {"A": np.array([[1, 2j], [0, 3]], dtype=complex), "B": np.array([[0, 1], [1j, 1]], dtype=complex),
          "C": np.array([[2, -1], [1j, -1j]], dtype=complex), "D": np.array([[0, 0], [2, 1 + 1j]], dtype=complex)}
MAXREP = 4


def embed(M, qs, n):
    """operator M on the ordered qubit tuple qs (qubit 0 = most significant) of an n-qubit register"""
    k = len(qs)
    rest = [q for q in range(n) if q not in qs]
    full = np.kron(M, np.eye(2 ** (n - k), dtype=complex)).reshape([2] * (2 * n))
    order = list(qs) + rest
    perm = [order.index(q) for q in range(n)]
    full = np.transpose(full, perm + [n + p for p in perm])
    return full.reshape(2 ** n, 2 ** n)


def herm(rng, n):
    N = 2 ** n
    A = np.array([[complex(rng.randrange(-3, 4), rng.randrange(-2, 3)) for _ in range(N)] for _ in range(N)])
    M = A + A.conj().T
    if rng.random() < 0.25:          # degenerate / diagonal specials
        M = np.diag([float(rng.randrange(-4, 5)) for _ in range(N)]).astype(complex)
    return M


def cstate(rng, n):
    return np.array([complex(rng.randrange(-3, 4), rng.randrange(-3, 4)) for _ in range(2 ** n)])


def cdm(rng, n):
    N = 2 ** n
    return np.array([[complex(rng.randrange(-2, 3), rng.randrange(-2, 3)) for _ in range(N)] for _ in range(N)])


def enc(a):
    a = np.asarray(a)
    return [[[float(x.real), float(x.imag)] for x in row] for row in a] if a.ndim == 2 else [[float(x.real), float(x.imag)] for x in a]


def dec(l):
    a = np.array(l, dtype=float)
    return a[..., 0] + 1j * a[..., 1]


class Guard:
    """snapshot of user inputs around a public call"""

    def __init__(self, **arrays):
        self.arrays = arrays
        self.snap = {k: (np.array(v, copy=True), np.asarray(v).dtype) if isinstance(v, np.ndarray) else (repr(v), None) for k, v in arrays.items()}

    def changed(self):
        out = []
        for k, v in self.arrays.items():
            s, dt = self.snap[k]
            if isinstance(v, np.ndarray):
                if v.dtype != dt or v.shape != s.shape or not np.array_equal(v, s):
                    out.append(k)
            elif repr(v) != s:
                out.append(k)
        return out


# ------------------------------------------------------------------ dense histories
SCALARS = [-4, -3, -2.5, -1, -1.0, -0.5, 0, 0.0, 0.5, 1, 2, 3.0]
CSCALARS = [1j, -1j, 2 - 1j, -1 + 2j]


def gen_dense_ops(rng):
    ops = []
    for _ in range(rng.randint(1, 4)):
        for _ in range(rng.randint(0, 2)):
            ops.append(rng.choice([["ev"], ["evec"], ["gs"], ["exp", rng.choice([0.5, -0.25, 1.0])]]))
        r = rng.random()
        if r < 0.55:
            c = rng.choice(SCALARS)
            if rng.random() < 0.5:
                c = rng.choice([x for x in SCALARS if x < 0])
            ops.append([rng.choice(["mul", "rmul"]), c])
        elif r < 0.7:
            ops.append([rng.choice(["addc", "subc", "rsubc"]), rng.choice(SCALARS)])
        elif r < 0.8:
            ops.append([rng.choice(["addh", "subh"]), rng.randrange(10 ** 6)])
        elif r < 0.87:
            ops.append(["neg"])
        elif r < 0.93:
            ops.append(["matmul", rng.randrange(10 ** 6)])
        else:
            ops.append(["cmul", rng.randrange(len(CSCALARS))])
    return ops


def play_dense(n, M0, ops, psi, rho, a_exp):
    """returns None or (observation, message)"""
    from scipy.linalg import expm
    from qibo.hamiltonians import Hamiltonian
    h = Hamiltonian(n, np.array(M0))
    M = np.array(M0)
    hermitian = True
    for op in ops:
        k = op[0]
        if k == "ev":
            h.eigenvalues()
        elif k == "evec":
            h.eigenvectors()
        elif k == "gs":
            h.ground_state()
        elif k == "exp":
            h.exp(op[1])
        elif k == "mul":
            h, M = h * op[1], M * op[1]
        elif k == "rmul":
            h, M = op[1] * h, M * op[1]
        elif k == "neg":
            h, M = -1 * h, -M
        elif k == "cmul":
            c = CSCALARS[op[1]]
            h, M = c * h, c * M
            hermitian = False
        elif k == "addc":
            h, M = h + op[1], M + op[1] * np.eye(2 ** n)
        elif k == "subc":
            h, M = h - op[1], M - op[1] * np.eye(2 ** n)
        elif k == "rsubc":
            h, M = op[1] - h, op[1] * np.eye(2 ** n) - M
        elif k in ("addh", "subh", "matmul"):
            M2 = herm(random.Random(op[1]), n)
            h2 = Hamiltonian(n, np.array(M2))
            h2.eigenvalues()
            h2.eigenvectors()
            if k == "addh":
                h, M = h + h2, M + M2
            elif k == "subh":
                h, M = h - h2, M - M2
            else:
                h, M = h @ h2, M @ M2
                hermitian = False
    # ---- observations on the final object
    if not np.array_equal(np.asarray(h.matrix), M):
        return "matrix", "the matrix of the result differs from plain matrix arithmetic"
    g = Guard(psi=psi, rho=rho)
    ev_s = h.expectation(psi)
    ev_d = h.expectation(rho)
    hp = h @ psi
    hr = h @ rho
    if g.changed():
        return "mutated", f"expectation / @ modified the user's {g.changed()}"
    if not np.array_equal(np.asarray(hp), M @ psi) or not np.array_equal(np.asarray(hr), M @ rho):
        return "matmul_state", "h @ psi or h @ rho differs from plain matrix arithmetic"
    if float(ev_s) != float(np.real(np.vdot(psi, M @ psi))) or float(ev_d) != float(np.real(np.trace(M @ rho))):
        return "expectation", f"expectation(psi)={float(ev_s)}, expectation(rho)={float(ev_d)}; matrix arithmetic gives {float(np.real(np.vdot(psi, M @ psi)))}, {float(np.real(np.trace(M @ rho)))}"
    if not hermitian:
        return None
    E = np.linalg.eigvalsh(M)
    scale = max(1.0, float(np.abs(E).max()))
    got = np.asarray(h.eigenvalues())
    if got.shape != E.shape or np.abs(got - E).max() > 1e-8 * scale:
        return "eigenvalues", (f"eigenvalues() of the result = {np.round(np.real(got), 6).tolist()}, but the ascending spectrum of its matrix is "
                               f"{np.round(E, 6).tolist()}")
    V = np.asarray(h.eigenvectors())
    got2 = np.asarray(h.eigenvalues())
    if np.abs(got2 - E).max() > 1e-8 * scale:
        return "eigenvalues", f"eigenvalues() after eigenvectors() = {np.round(np.real(got2), 6).tolist()}, ascending spectrum {np.round(E, 6).tolist()}"
    if V.shape != M.shape or np.abs(M @ V - V * E[None, :]).max() > 1e-7 * scale or np.abs(V.conj().T @ V - np.eye(len(E))).max() > 1e-7:
        return "eigenvectors", "column i of eigenvectors() is not an eigenvector for the i-th (ascending) eigenvalue of the result's matrix"
    gs = np.asarray(h.ground_state())
    if np.abs(M @ gs - E[0] * gs).max() > 1e-7 * scale or abs(np.linalg.norm(gs) - 1) > 1e-7:
        en = float(np.real(np.vdot(gs, M @ gs)))
        return "ground_state", f"ground_state() of the result has energy {en:.6g}, the lowest eigenvalue of its matrix is {E[0]:.6g} (highest {E[-1]:.6g})"
    ex = np.asarray(h.exp(a_exp))
    if np.abs(ex - expm(-1j * a_exp * M)).max() > 1e-8 * max(1.0, scale):
        return "exp", f"exp({a_exp}) of the result differs from expm(-i a M)"
    fresh = Hamiltonian(n, np.array(M))
    if np.abs(np.asarray(fresh.eigenvalues()) - got).max() > 1e-8 * scale:
        return "eigenvalues_fresh", "eigenvalues() differ from those of a fresh Hamiltonian with the same matrix"
    return None


def ops_str(ops):
    return ",".join(o[0] + ("(%s)" % o[1] if len(o) > 1 and o[0] not in ("addh", "subh", "matmul", "cmul") else "") for o in ops)


def sec_dense(run, rng):
    cnt = 200 if run.tier == "quick" else 1500
    corpus = [[["ev"], ["mul", -1.75]], [["evec"], ["rmul", -1]], [["gs"], ["neg"]], [["ev"], ["evec"], ["mul", -2], ["mul", -0.5]],
              [["exp", 0.5], ["evec"], ["mul", -3]], [["evec"], ["mul", 0]], [["ev"], ["mul", 0.0], ["addc", 2]], [["evec"], ["mul", 2], ["neg"]],
              [["ev"], ["rsubc", 1]], [["evec"], ["addc", -2], ["mul", -1]]]
    bad = {}
    for j in range(cnt):
        n = rng.choice([1, 2, 2, 3])
        M0 = herm(rng, n)
        ops = corpus[j] if j < len(corpus) else gen_dense_ops(rng)
        psi, rho, a = cstate(rng, n), cdm(rng, n), rng.choice([0.5, -0.25, 1.0])
        try:
            r = play_dense(n, M0, ops, psi, rho, a)
        except Exception as e:      # noqa: BLE001
            r = ("raises", f"{type(e).__name__}: {str(e)[:120]}")
        run.case(["hist_dense", n, enc(M0), ops])
        if j == 0:
            run.sample({"kind": "dense history", "ops": ops, "n": n})
        if r is not None:
            obs, msg = r
            bad[obs] = bad.get(obs, 0) + 1
            if bad[obs] <= MAXREP:
                run.find(f"hist_dense:{obs}:{ops_str(ops)}", f"dense Hamiltonian ({n} qubit(s)), history [{ops_str(ops)}] (ev/evec/gs/exp = caches filled "
                         f"through eigenvalues()/eigenvectors()/ground_state()/exp()): {msg}",
                         {"mechanism": "hist_dense", "n": n, "M": enc(M0), "ops": ops, "psi": enc(psi), "rho": enc(rho), "a": a})
    run.oblige(f"test:history == fresh (dense): caches filled through the public API, then scalar multiples of both signs / zero / sums / products: "
               f"eigenvalues ascending, eigenpairs, ground state lowest, exp, expectation, matrix == numpy on the arithmetic result ({cnt} histories)",
               not bad, "test")


# ------------------------------------------------------------------ symbolic histories
def ast_matrix(f, n, table=None):
    table = table or P2
    t = f[0]
    if t == "S":
        return embed(table[f[1]], (f[2],), n)
    if t == "N":
        return complex(f[1], f[2]) * np.eye(2 ** n, dtype=complex)
    if t == "A":
        return ast_matrix(f[1], n, table) + ast_matrix(f[2], n, table)
    if t == "M":
        return ast_matrix(f[1], n, table) @ ast_matrix(f[2], n, table)
    return np.linalg.matrix_power(ast_matrix(f[1], n, table), f[2])


def ast_sym(f, cache):
    """sympy expression through qibo symbols; `cache` shares ONE symbol object per (name, qubit) between forms"""
    import sympy
    from qibo import symbols
    t = f[0]
    if t == "S":
        key = (f[1], f[2])
        if key not in cache:
            cache[key] = getattr(symbols, f[1])(f[2]) if f[1] in P2 else symbols.Symbol(f[2], np.array(CUSTOM[f[1]]), name=f[1])
        return cache[key]
    if t == "N":
        return sympy.Integer(f[1]) if f[2] == 0 else sympy.sympify(complex(f[1], f[2]))
    if t == "A":
        return ast_sym(f[1], cache) + ast_sym(f[2], cache)
    if t == "M":
        return ast_sym(f[1], cache) * ast_sym(f[2], cache)
    return ast_sym(f[1], cache) ** f[2]


def check_sym_obs(h, M, n, psi, rho, label, tol=0.0):
    """all observation points of one SymbolicHamiltonian against the matrix M (exact; tol > 0 only for non-dyadic data)"""
    def same(a, b):
        a, b = np.asarray(a), np.asarray(b)
        if a.shape != b.shape:
            return False
        return np.array_equal(a, b) if tol == 0 else float(np.abs(a - b).max()) <= tol * max(1.0, float(np.abs(b).max()))

    def samef(a, b):
        return float(a) == float(b) if tol == 0 else abs(float(a) - float(b)) <= tol * max(1.0, abs(float(b)))
    if h.nqubits != n:
        return f"{label}.nqubits = {h.nqubits}, expected {n}"
    if not same(h.matrix, M):
        return f"{label}.matrix differs from plain matrix arithmetic"
    g = Guard(psi=psi, rho=rho)
    zero = (not h.terms) and (not h.constant)
    if zero:
        return None
    hp, hr = np.asarray(h @ psi), np.asarray(h @ rho)
    es, ed = h.expectation(psi), h.expectation(rho)
    if g.changed():
        return f"{label}: expectation / @ modified the user's {g.changed()}"
    if hp.shape != psi.shape or not same(hp, M @ psi):
        return f"{label} @ psi (term by term) differs from matrix arithmetic"
    if hr.shape != rho.shape or not same(hr, M @ rho):
        return f"{label} @ rho (term by term, density matrix) differs from matrix arithmetic"
    if not samef(es, np.real(np.vdot(psi, M @ psi))):
        return f"{label}.expectation(psi) = {float(es)}, matrix arithmetic gives {float(np.real(np.vdot(psi, M @ psi)))}"
    if not samef(ed, np.real(np.trace(M @ rho))):
        return f"{label}.expectation(rho) = {float(ed)}, matrix arithmetic gives {float(np.real(np.trace(M @ rho)))}"
    hd = h.dense
    if not samef(hd.expectation(rho), ed) or not same(hd @ rho, hr) or not same(hd @ psi, hp) or not samef(hd.expectation(psi), es):
        return f"{label}: dense route and symbolic (term-by-term) route disagree on a state / density matrix"
    return None


def play_symbolic(n, a1, a2, fills, op, c, psi, rho):
    from qibo.hamiltonians import SymbolicHamiltonian
    cache = {}
    h1 = SymbolicHamiltonian(ast_sym(a1, cache), nqubits=n)
    h2 = SymbolicHamiltonian(ast_sym(a2, cache), nqubits=n)
    M1, M2 = ast_matrix(a1, n), ast_matrix(a2, n)
    herm1 = np.array_equal(M1, M1.conj().T)
    for f in fills:
        for h in (h1, h2):
            if f == "matrix":
                h.matrix
            elif f == "terms":
                h.terms
            elif f == "ev" and herm1 and np.array_equal(M2, M2.conj().T):
                h.eigenvalues()
                h.eigenvectors()
            elif f == "apply":
                if h.terms or h.constant:
                    h @ psi
    I_ = np.eye(2 ** n)
    res = {"add": (lambda: h1 + h2, M1 + M2), "sub": (lambda: h1 - h2, M1 - M2), "addc": (lambda: h1 + c, M1 + c * I_),
           "subc": (lambda: h1 - c, M1 - c * I_), "rsubc": (lambda: c - h1, c * I_ - M1), "mul": (lambda: c * h1, c * M1),
           "rmul": (lambda: h1 * c, c * M1), "matmul": (lambda: h1 @ h2, M1 @ M2), "chain": (lambda: (c * h1 - h2) * c + h1, (c * M1 - M2) * c + M1)}
    mk, Mr = res[op]
    r = mk()
    msg = check_sym_obs(r, Mr, n, psi, rho, f"result of {op}")
    if msg:
        return msg
    if np.array_equal(Mr, Mr.conj().T) and np.abs(Mr).max() > 0:
        E = np.linalg.eigvalsh(Mr)
        got = np.asarray(r.eigenvalues())
        if np.abs(got - E).max() > 1e-8 * max(1.0, np.abs(E).max()):
            return f"eigenvalues() of the result of {op} are not the ascending spectrum of its matrix"
        gs = np.asarray(r.ground_state())
        if np.abs(Mr @ gs - E[0] * gs).max() > 1e-7 * max(1.0, np.abs(E).max()):
            return f"ground_state() of the result of {op} is not an eigenvector of the lowest eigenvalue"
    for lab, h, M in (("h1 (source, after the operation)", h1, M1), ("h2 (source, after the operation)", h2, M2)):
        msg = check_sym_obs(h, M, n, psi, rho, lab)
        if msg:
            return msg
    return None


def sec_symbolic(run, rng):
    from harness import c15 as base
    cnt = 120 if run.tier == "quick" else 600
    bad = 0
    for j in range(cnt):
        nq = rng.choice([1, 2, 2, 3])
        n = nq + rng.choice([0, 0, 1])           # register larger than the highest qubit used
        gen = rng.choice([lambda: base.rand_tfim_like(rng, nq) if nq > 1 else base.rand_form(rng, nq, 2), lambda: base.rand_form(rng, nq, rng.choice([2, 3])),
                          lambda: base.rand_product(rng, nq, rng.randrange(2, 5)), lambda: base.rand_pow_form(rng, nq)])
        a1, a2 = gen(), gen()
        fills = rng.sample(["matrix", "terms", "ev", "apply"], rng.randint(0, 4))
        op = rng.choice(["add", "sub", "addc", "subc", "rsubc", "mul", "rmul", "matmul", "chain"])
        c = rng.choice([-3, -2, -1, 0, 1, 2, 3, -2.0, 0.5, 2j, -1j, 1 - 1j])
        psi, rho = cstate(rng, n), cdm(rng, n)
        try:
            msg = play_symbolic(n, a1, a2, fills, op, c, psi, rho)
        except AssertionError:
            continue                # nested powers of one symbol are refused by SymbolicTerm (see harness/c15.py)
        except Exception as e:      # noqa: BLE001
            msg = f"raises {type(e).__name__}: {str(e)[:120]}"
        run.case(["hist_symbolic", n, base.ast_str(a1), base.ast_str(a2), fills, op, str(c)])
        if j == 0:
            run.sample({"kind": "symbolic history", "h1": base.ast_str(a1), "h2": base.ast_str(a2), "nqubits": n, "caches filled": fills, "op": op, "c": str(c)})
        if msg:
            bad += 1
            if bad <= MAXREP:
                run.find(f"hist_symbolic:{op}:{base.ast_str(a1)}|{base.ast_str(a2)}|{c}",
                         f"SymbolicHamiltonians h1 = {base.ast_str(a1)}, h2 = {base.ast_str(a2)} on {n} qubits (caches filled: {fills}), c = {c}, "
                         f"operation {op}: {msg}", {"mechanism": "hist_symbolic", "n": n, "a1": a1, "a2": a2, "fills": fills, "op": op,
                                                    "c": [complex(c).real, complex(c).imag], "psi": enc(psi), "rho": enc(rho)})
    run.oblige(f"test:history == fresh (symbolic): algebra between long-lived SymbolicHamiltonians with filled dense / terms / eigen caches, shared symbol "
               f"objects, nqubits beyond the highest qubit used: results and sources == matrix arithmetic on every route ({cnt} histories)", bad == 0, "test")
    sec_setters(run)


def sec_setters(run):
    """attributes reassigned through their public setters after the caches were filled (history == fresh)"""
    from qibo.hamiltonians import Hamiltonian, SymbolicHamiltonian
    from qibo.symbols import X, Y, Z
    cases = [("X0*Z1+2*Y0 -> Z0+3", lambda: X(0) * Z(1) + 2 * Y(0), 3, lambda: Z(0) + 3),
             ("Z0*Z1 -> X0*X1", lambda: Z(0) * Z(1), 2, lambda: X(0) * X(1))]
    for lab, f1, n, f2 in cases:
        h = SymbolicHamiltonian(f1(), nqubits=n)
        h.matrix
        h.terms
        h.form = f2()
        fresh = SymbolicHamiltonian(f2())
        run.case(["form_setter", lab])
        try:
            stale = h.nqubits != fresh.nqubits or np.asarray(h.matrix).shape != np.asarray(fresh.matrix).shape or \
                not np.array_equal(np.asarray(h.matrix), np.asarray(fresh.matrix)) or len(h.terms) != len(fresh.terms)
        except Exception:       # noqa: BLE001
            stale = True
        if stale:
            run.find(f"history:form_setter:{lab}", f"SymbolicHamiltonian.form setter after matrix/terms were computed ({lab}): h.matrix / h.terms still belong "
                     "to the OLD form (cached_property dense/terms are not invalidated) while h.form and h.nqubits are the new ones",
                     {"mechanism": "setters", "case": lab})
    M1 = np.diag([1.0, -1.0]).astype(complex)
    M2 = 2 * P2["X"]
    d = Hamiltonian(1, M1.copy())
    d.eigenvalues()
    d.eigenvectors()
    d.exp(0.5)
    d.matrix = M2.copy()
    run.case(["matrix_setter"])
    from scipy.linalg import expm
    if np.abs(np.asarray(d.eigenvalues()) - np.linalg.eigvalsh(M2)).max() > 1e-9 or np.abs(np.asarray(d.exp(0.5)) - expm(-0.5j * M2)).max() > 1e-9:
        run.find("history:matrix_setter:Z->2X", "Hamiltonian.matrix setter after eigenvalues()/eigenvectors()/exp(): the caches are not invalidated, "
                 f"eigenvalues() = {np.real(np.asarray(d.eigenvalues())).tolist()} for the matrix 2X (spectrum [-2, 2]), exp(0.5) is the old exponential",
                 {"mechanism": "setters", "case": "matrix"})


# ------------------------------------------------------------------ primitives of the term-by-term application
def sec_primitives(run, rng):
    from qibo import gates
    from qibo.backends import NumpyBackend
    from qibo.hamiltonians import SymbolicHamiltonian
    from qibo.hamiltonians.terms import HamiltonianTerm, SymbolicTerm
    from qibo.symbols import Symbol
    from harness import c15 as base
    nb = NumpyBackend()
    bad = {}

    def fail(key, what, rp):
        k0 = key.split(":")[1]
        bad[k0] = bad.get(k0, 0) + 1
        if bad[k0] <= MAXREP:
            run.find(key, what, rp)

    table = {**P2, **CUSTOM}
    # (1) one factor: HamiltonianTerm(matrix, q) on vectors and density matrices, every matrix, every qubit
    for n in (1, 2, 3):
        psi, rho = cstate(rng, n), cdm(rng, n)
        for name, P in table.items():
            for q in range(n):
                t = HamiltonianTerm(np.array(P), q, backend=nb)
                g = Guard(psi=psi, rho=rho)
                v = np.asarray(t(nb, np.array(psi), n))
                r = np.asarray(t(nb, np.array(rho), n, density_matrix=True))
                E = embed(P, (q,), n)
                run.case(["term1", name, q, n])
                if not np.array_equal(v, E @ psi):
                    fail(f"primitive:term_state:{name}({q})/n={n}", f"HamiltonianTerm({name}, {q}) applied to a state vector differs from ({name} on qubit {q}) psi",
                         {"mechanism": "primitive", "sub": "term1", "name": name, "q": [q], "n": n, "psi": enc(psi), "rho": enc(rho)})
                if not np.array_equal(r, E @ rho):
                    fail(f"primitive:term_dm:{name}({q})/n={n}", f"HamiltonianTerm({name}, {q})(..., density_matrix=True) differs from ({name} on qubit {q}) rho "
                         f"(matrix {name} = {table[name].tolist()})",
                         {"mechanism": "primitive", "sub": "term1", "name": name, "q": [q], "n": n, "psi": enc(psi), "rho": enc(rho)})
                if g.changed():
                    fail(f"primitive:mutated:{name}({q})", "HamiltonianTerm call modified its input", {"mechanism": "primitive", "sub": "term1", "name": name, "q": [q], "n": n,
                                                                                                   "psi": enc(psi), "rho": enc(rho)})
    # (2) two-qubit term matrices on ordered / permuted qubit pairs
    for j in range(12 if run.tier == "quick" else 80):
        n = rng.choice([2, 3])
        qs = rng.sample(range(n), 2)
        M4 = np.array([[complex(rng.randrange(-2, 3), rng.randrange(-2, 3)) for _ in range(4)] for _ in range(4)])
        psi, rho = cstate(rng, n), cdm(rng, n)
        t = HamiltonianTerm(M4.copy(), *qs, backend=nb)
        E = embed(M4, tuple(qs), n)
        v = np.asarray(t(nb, np.array(psi), n))
        r = np.asarray(t(nb, np.array(rho), n, density_matrix=True))
        run.case(["term2", qs, n, enc(M4)])
        if not np.array_equal(v, E @ psi) or not np.array_equal(r, E @ rho):
            fail(f"primitive:term2:{qs}/n={n}", f"two-qubit HamiltonianTerm on qubits {qs} ({'state' if not np.array_equal(v, E @ psi) else 'density matrix'} "
                 "application) differs from the embedded matrix product", {"mechanism": "primitive", "sub": "term2", "q": qs, "n": n, "M": enc(M4), "psi": enc(psi), "rho": enc(rho)})
    # (3) backend.apply_gate_half_density_matrix with gate objects (exact for integer matrices, 1e-12 otherwise)
    for n in (1, 2):
        rho = cdm(rng, n)
        for mkg in (lambda q: gates.X(q), lambda q: gates.Y(q), lambda q: gates.Z(q), lambda q: gates.I(q), lambda q: gates.H(q), lambda q: gates.S(q),
                    lambda q: gates.T(q), lambda q: gates.RY(q, 0.3), lambda q: gates.Unitary(np.array(CUSTOM["A"]), q, check_unitary=False),
                    lambda q: gates.Unitary(np.array(CUSTOM["D"]), q, check_unitary=False)):
            for q in range(n):
                g = mkg(q)
                r = np.asarray(nb.apply_gate_half_density_matrix(g, np.array(rho), n))
                E = embed(np.asarray(g.matrix(nb)), (q,), n)
                run.case(["half_dm", type(g).__name__, q, n])
                if np.abs(r - E @ rho).max() > 1e-12:
                    fail(f"primitive:half_dm:{type(g).__name__}({q})/n={n}", f"backend.apply_gate_half_density_matrix({type(g).__name__}({q}), rho) differs from U rho",
                         {"mechanism": "primitive", "sub": "half", "n": n})
    # (4) SymbolicTerm / SymbolicHamiltonian over Pauli and custom symbols: repeated factors in both orders, identity factors, constants, powers
    forms = []
    for n in (1, 2):
        for a, b_ in itertools.permutations(["X", "Y", "Z", "A", "B"], 2):
            forms.append((n, ("M", ("S", a, 0), ("S", b_, 0))))
        for a in ["Y", "A", "D"]:
            forms.append((n, ("A", ("M", ("N", 3, 0), ("S", a, n - 1)), ("N", 1, 0))))                       # 3*P + 1
            forms.append((n, ("M", ("S", "I", 0), ("S", a, n - 1))))                                          # identity factor
            forms.append((n, ("M", ("N", 0, 1), ("M", ("S", a, 0), ("M", ("S", "Y", n - 1), ("S", a, 0))))))   # 1j*P*Y*P
            forms.append((n, ("P", ("A", ("S", a, 0), ("N", 1, 0)), 3)))                                      # (P+1)**3
    for _ in range(80 if run.tier == "quick" else 500):
        n = rng.choice([1, 2, 3])
        f = rand_custom_form(rng, n)
        forms.append((n, f))
    for (n, f) in forms:
        try:
            M = ast_matrix(f, n, table)
            if np.abs(M).max() >= 2 ** 40:
                continue
            h = SymbolicHamiltonian(ast_sym(f, {}), nqubits=n)
            psi, rho = cstate(rng, n), cdm(rng, n)
            msg = check_sym_obs(h, M, n, psi, rho, "h")
            # every SymbolicTerm on its own, both modes
            if msg is None:
                tot_v = sum((np.asarray(t(nb, np.array(psi), n)) for t in h.terms), np.zeros_like(psi)) + h.constant * psi
                tot_r = sum((np.asarray(t(nb, np.array(rho), n, density_matrix=True)) for t in h.terms), np.zeros_like(rho)) + h.constant * rho
                if not np.array_equal(tot_v, M @ psi) or not np.array_equal(tot_r, M @ rho):
                    msg = "the sum of the SymbolicTerm calls differs from matrix arithmetic"
        except AssertionError:
            continue
        except Exception as e:      # noqa: BLE001
            msg = f"raises {type(e).__name__}: {str(e)[:120]}"
        run.case(["custom_form", base.ast_str(f), n])
        if msg:
            fail(f"primitive:form:{base.ast_str(f)}/n={n}", f"SymbolicHamiltonian({base.ast_str(f)}) on {n} qubit(s) (A, B, C, D = custom symbols with complex "
                 f"non-Hermitian matrices): {msg}", {"mechanism": "primitive", "sub": "form", "n": n, "form": f, "psi": enc(psi), "rho": enc(rho)})
    run.oblige(f"test:primitives of the term-by-term application (HamiltonianTerm / SymbolicTerm / apply_gate_half_density_matrix on state vectors and "
               f"density matrices; Paulis and complex non-Hermitian custom symbols; two-qubit terms on permuted qubits; {len(forms)} forms with repeated "
               "factors in both orders, identity factors, constants, powers) == matrix arithmetic (exact)", not bad, "test")


def rand_custom_form(rng, n):
    names = ["X", "Y", "Z", "I", "A", "B", "C", "D", "Y", "A"]

    def prod():
        f = ("S", rng.choice(names), rng.randrange(n))
        for _ in range(rng.randint(0, 3)):
            f = ("M", f, ("S", rng.choice(names), rng.randrange(n)))
        if rng.random() < 0.6:
            f = ("M", ("N", rng.choice([-2, -1, 1, 2, 3]), rng.choice([0, 0, 1, -1])), f)
        return f
    out = prod()
    for _ in range(rng.randint(0, 2)):
        out = ("A", out, prod())
    if rng.random() < 0.3:
        out = ("A", out, ("N", rng.choice([-2, 1, 3]), 0))
    if rng.random() < 0.15:
        out = ("P", out, 2)
    return out


# ------------------------------------------------------------------ expectation_from_circuit on product eigenstates
def sec_circuit(run, rng):
    from qibo import Circuit, gates
    from qibo.hamiltonians import SymbolicHamiltonian
    from qibo import symbols
    bad = dropped = 0
    cnt = 24 if run.tier == "quick" else 100
    for j in range(cnt):
        n = rng.choice([2, 3])
        bases = [rng.choice("XYZ") for _ in range(n)]
        signs = [rng.choice([0, 1]) for _ in range(n)]          # eigenvalue (-1)**s of the basis Pauli
        c = Circuit(n)
        for q in range(n):
            if signs[q]:
                c.add(gates.X(q))
            if bases[q] in "XY":
                c.add(gates.H(q))
            if bases[q] == "Y":
                c.add(gates.S(q))
        terms = []
        form = 0
        for _ in range(rng.randint(1, 4)):
            qs = rng.sample(range(n), rng.randint(1, n))         # permuted factor order
            co = rng.choice([-3, -2, -1, 1, 2, 3])
            t = co
            for q in qs:
                t = t * getattr(symbols, bases[q])(q)
            form = form + t
            terms.append((co, qs))
        const = rng.choice([0, 0, 2, -1])
        form = form + const
        want = got = None
        try:
            h = SymbolicHamiltonian(form, nqubits=n)
            want = float(sum(co * np.prod([(-1) ** signs[q] for q in qs]) for co, qs in terms) + const)
            got = float(np.real(h.expectation_from_circuit(c, nshots=16)))
            exact = float(h.expectation(np.asarray(c().state())))
            ok = abs(got - want) < 1e-9 and abs(exact - want) < 1e-9 and len(c.queue) == sum(signs) + sum(1 + (b == "Y") for b in bases if b in "XY")
            msg = f"expectation_from_circuit = {got}, expectation(state) = {exact}, expected {want}"
        except Exception as e:      # noqa: BLE001
            ok, msg = False, f"raises {type(e).__name__}: {str(e)[:120]}"
        run.case(["from_circuit", n, bases, signs, terms, const])
        if not ok and const and got is not None and abs(got - (want - const)) < 1e-9 and abs(exact - want) < 1e-9:
            dropped += 1
            if dropped <= 2:
                run.find(f"from_circuit:constant_dropped:{''.join(bases)}:{terms}+{const}", f"SymbolicHamiltonian.expectation_from_circuit ignores the constant "
                         f"of the form: product eigenstate of {bases} (signs {signs}), H = sum of {terms} + {const}: expectation_from_circuit = {got}, "
                         f"expectation(state) = {exact}", {"mechanism": "from_circuit", "n": n, "bases": bases, "signs": signs, "terms": terms, "const": const})
        elif not ok:
            bad += 1
            if bad <= 2:
                run.find(f"from_circuit:{''.join(bases)}:{terms}", f"product eigenstate of {bases} with eigenvalue signs {signs}; H = sum of {terms} + {const}: {msg} "
                         "(every term is deterministic on this state; the input circuit must not be modified)",
                         {"mechanism": "from_circuit", "n": n, "bases": bases, "signs": signs, "terms": terms, "const": const})
    if dropped:
        run.refuted.append("expectation_from_circuit adds the constant of the form (observed on the real code)")
    run.oblige(f"test:expectation_from_circuit on product eigenstates (X/Y/Z bases, permuted factor order; deterministic terms) == eigenvalue "
               f"products (+ constant: {'REFUTED, open finding' if dropped else 'holds'}) == expectation(state); input circuit unchanged ({cnt} cases)", bad == 0, "test")



# ------------------------------------------------------------------ built-in models in the algebra streams (families D/E/A)
def np_model(rec):
    """plain-numpy formula of a model recipe ["model", name, n, *params] (documented formulas of hamiltonians/models.py)"""
    name, n = rec[1], rec[2]
    one = lambda p, q: embed(P2[p], (q,), n)
    ring = [(k, (k + 1) % n) for k in range(n)]
    Z = np.zeros((2 ** n, 2 ** n), dtype=complex)

    def heis(J, hf):
        M = Z.copy()
        for (i, j) in ring:
            for c, p in zip(J, "XYZ"):
                M = M - c * (one(p, i) @ one(p, j))
        for q in range(n):
            for c, p in zip(hf, "XYZ"):
                M = M - c * one(p, q)
        return M
    if name == "TFIM":
        return -sum((one("Z", i) @ one("Z", j) + rec[3] * one("X", i) for (i, j) in ring), Z)
    if name in ("X", "Y", "Z"):
        return -sum((one(name, q) for q in range(n)), Z)
    if name == "Heisenberg":
        return heis(rec[3], rec[4])
    if name == "XXZ":
        return heis([-1, -1, -rec[3]], [0, 0, 0])
    if name == "XXX":
        return heis([rec[3]] * 3, rec[4])
    if name == "MaxCut":
        adj = rec[3] if rec[3] is not None else [[1] * n for _ in range(n)]
        return -sum((adj[i][j] * (np.eye(2 ** n) - one("Z", i) @ one("Z", j)) for i in range(n) for j in range(n)), Z) / 2
    raise ValueError(rec)


def qibo_model(rec):
    from qibo import hamiltonians as H
    name, n = rec[1], rec[2]
    if name == "TFIM":
        return H.TFIM(n, h=rec[3], dense=False)
    if name in ("X", "Y", "Z"):
        return getattr(H, name)(n, dense=False)
    if name == "Heisenberg":
        return H.Heisenberg(n, list(rec[3]), list(rec[4]), dense=False)
    if name == "XXZ":
        return H.XXZ(n, delta=rec[3], dense=False)
    if name == "XXX":
        return H.XXX(n, rec[3], list(rec[4]), dense=False)
    if name == "MaxCut":
        return H.MaxCut(n, dense=False) if rec[3] is None else H.MaxCut(n, dense=False, adj_matrix=rec[3])
    raise ValueError(rec)


def build_np(rec, n, leaves):
    """recipe -> (object built with the real operators, numpy matrix); `leaves` caches ONE long-lived object per leaf recipe"""
    from qibo.hamiltonians import SymbolicHamiltonian
    from harness import c15 as base
    k = rec[0]
    if k in ("model", "form"):
        key = repr(rec)
        if key not in leaves:
            if k == "model":
                leaves[key] = (qibo_model(rec), np_model(rec))
            else:
                a = base._tup(rec[1])
                leaves[key] = (SymbolicHamiltonian(base.ast_sympy(a), nqubits=n), ast_matrix(a, n))
        return leaves[key]
    if k in ("matmul", "add", "sub"):
        (h1, M1), (h2, M2) = build_np(rec[1], n, leaves), build_np(rec[2], n, leaves)
        return {"matmul": lambda: (h1 @ h2, M1 @ M2), "add": lambda: (h1 + h2, M1 + M2), "sub": lambda: (h1 - h2, M1 - M2)}[k]()
    h1, M1 = build_np(rec[2], n, leaves)
    c, I_ = rec[1], np.eye(2 ** n)
    return {"mul": lambda: (c * h1, c * M1), "rmul": lambda: (h1 * c, c * M1), "addc": lambda: (h1 + c, M1 + c * I_), "rsubc": lambda: (c - h1, c * I_ - M1)}[k]()


def rec_exact(rec):
    """True when every number of the recipe is an integer or a small dyadic rational (numpy arithmetic exact)"""
    if isinstance(rec, (list, tuple)):
        return all(rec_exact(x) for x in rec)
    if isinstance(rec, float):
        return float(rec * 8).is_integer()
    return True


def play_models(n, rec, fills, psi, rho):
    leaves = {}
    # the long-lived leaf objects first, caches filled through the public API
    build_np(rec, n, leaves)
    for key, (h, M) in leaves.items():
        if h.nqubits != n:
            return "skip"
        for f in fills:
            if f == "matrix":
                h.matrix
            elif f == "terms":
                h.terms
            elif f == "apply" and (h.terms or h.constant):
                h @ psi
    r, Mr = build_np(rec, n, leaves)
    tol = 0.0 if rec_exact(rec) else 1e-12
    msg = check_sym_obs(r, Mr, n, psi, rho, "the composite", tol)
    if msg:
        return msg
    for key, (h, M) in leaves.items():
        msg = check_sym_obs(h, M, n, psi, rho, f"the source {key} (after the operation)", tol)
        if msg:
            return msg
    return None


def rec_str(rec):
    k = rec[0]
    if k == "model":
        return f"{rec[1]}({','.join(str(x) for x in rec[2:])})"
    if k == "form":
        from harness import c15 as base
        return base.ast_str(base._tup(rec[1]))
    if k in ("matmul", "add", "sub"):
        return "(" + rec_str(rec[1]) + {"matmul": " @ ", "add": " + ", "sub": " - "}[k] + rec_str(rec[2]) + ")"
    return f"{k}[{rec[1]}]({rec_str(rec[2])})"


def gen_model_histories(run, rng):
    from harness import c15 as base
    quick = run.tier == "quick"
    P = lambda p, q: ["form", ["S", p, q]]
    out = []
    specials = {2: [["model", "TFIM", 2, 0.5], ["model", "XXZ", 2, 0.5], ["model", "XXX", 2, 1, [0.5, 0, 0]], ["model", "MaxCut", 2, None],
                    ["model", "Heisenberg", 2, [1, 2, -1], [1, 0, -1]], ["model", "Z", 2]],
                3: [["model", "TFIM", 3, 1], ["model", "XXZ", 3, 0.5], ["model", "MaxCut", 3, [[0, 1, 2], [1, 0, -1], [0.5, 1, 0]]],
                    ["model", "Heisenberg", 3, [1, -1, 2], [0, 1, 0]], ["model", "Y", 3], ["model", "XXX", 3, -1, [0, 0, 1]]],
                4: [["model", "TFIM", 4, 2], ["model", "MaxCut", 4, None]]}
    # every model, a single non-commuting symbol on either side and on both sides (the complete witness search for ONE mis-declared symbol)
    for n, ms in specials.items():
        for m in ms:
            qs = list(range(n)) if n == 2 else [rng.randrange(n)]
            for q in qs:
                for p in ("XYZ" if n < 4 else rng.choice("XY")):
                    out.append((n, ["matmul", P(p, q), m]))
                    if n < 4 and (quick is False or rng.random() < 0.4):
                        out.append((n, ["matmul", ["matmul", P(p, q), m], P(p, q)]))
            out.append((n, ["matmul", m, P(rng.choice("XY"), rng.randrange(n))]))
    for n in (2, 3):
        ms = specials[n]
        for _ in range(5 if quick else 40):
            a, b, c = rng.choice(ms), rng.choice(ms), rng.choice(ms)
            out.append((n, ["matmul", a, b]))
            if n == 2:
                out.append((n, ["matmul", ["matmul", a, b], c]))
            out.append((n, ["matmul", ["add", a, base.rand_hand_form(rng, n)], ["rsubc", 2, b]]))
    for _ in range(25 if quick else 250):
        n = rng.choice([2, 2, 3])
        m1, m2 = rng.choice([base.rand_model(rng, n), rng.choice(specials[n])]), base.rand_model(rng, n)
        m1 = ["model", "MaxCut"] + m1[2:] if m1[1] == "2MaxCut" else m1
        m2 = ["model", "MaxCut"] + m2[2:] if m2[1] == "2MaxCut" else m2
        f1, f2 = base.rand_hand_form(rng, n), base.rand_hand_form(rng, n)
        c = rng.choice([-3, -2, -1, 2, 0.5, -0.5])
        rec = rng.choice([["matmul", f1, m1], ["matmul", m1, f1], ["matmul", m1, m2], ["matmul", ["matmul", f1, m1], f2],
                          ["matmul", ["matmul", m1, f1], m2], ["matmul", ["add", m1, f1], m2], ["sub", ["mul", c, m1], f1],
                          ["add", ["matmul", f1, m1], ["rmul", c, m2]], ["matmul", ["rsubc", c, m1], ["sub", f1, m2]],
                          ["matmul", ["matmul", m1, m2], m1], ["add", m1, m2], ["sub", ["addc", c, m1], ["mul", c, m2]]])
        out.append((n, rec))
    return out


def sec_models(run, rng):
    recs = gen_model_histories(run, rng)
    bad = nrun = 0
    for j, (n, rec) in enumerate(recs):
        fills = rng.sample(["matrix", "terms", "apply"], rng.randint(0, 3))
        psi, rho = cstate(rng, n), cdm(rng, n)
        try:
            msg = play_models(n, rec, fills, psi, rho)
        except Exception as e:      # noqa: BLE001
            msg = f"raises {type(e).__name__}: {str(e)[:120]}"
        if msg == "skip":
            continue
        nrun += 1
        run.case(["models_algebra", n, rec, fills])
        if j == 0:
            run.sample({"kind": "model algebra history", "composite": rec_str(rec), "nqubits": n, "caches filled": fills})
        if msg:
            bad += 1
            if bad <= MAXREP:
                run.find(f"models:algebra:{rec_str(rec)}", f"{rec_str(rec)} on {n} qubits, built with the real operators from built-in symbolic models (dense=False; "
                         f"long-lived objects, caches filled: {fills}) and hand-written forms: {msg}",
                         {"mechanism": "models", "n": n, "recipe": rec, "fills": fills, "psi": enc(psi), "rho": enc(rho)})
    run.oblige(f"test:built-in symbolic models (TFIM, XXZ, XXX, Heisenberg, MaxCut, X, Y, Z; integer and default dyadic parameters; n = 2..4) through the algebra "
               f"streams: sums, scalar multiples, products @ of two and three factors with each other and with hand-written non-commuting forms; matrix, "
               f"@ psi, @ rho, expectation on both routes == numpy on the documented formulas; sources unchanged ({nrun} composites)", bad == 0, "test")


# ------------------------------------------------------------------ input representation invariance (family F)
def _strided(v):
    big = np.zeros(tuple(2 * x for x in v.shape), dtype=v.dtype)
    view = big[tuple(slice(None, None, 2) for _ in v.shape)]
    view[...] = v
    return view


def _ro(v):
    w = v.copy()
    w.setflags(write=False)
    return w


STATE_REPS = {"fortran": (False, np.asfortranarray), "strided_view": (False, _strided), "readonly": (False, _ro),
              "complex64": (False, lambda v: v.astype(np.complex64)),
              "float64": (True, lambda v: v.real.astype(np.float64)), "float64_fortran": (True, lambda v: np.asfortranarray(v.real.astype(np.float64))),
              "int64": (True, lambda v: np.rint(v.real).astype(np.int64)), "float32": (True, lambda v: v.real.astype(np.float32))}


def play_representation(n, rec, rep, real, psi, rho):
    """h @ x and h.expectation(x) on both routes with x handed over in another representation of the same numbers; the dense
    Hamiltonian built from a re-typed matrix"""
    from qibo.hamiltonians import Hamiltonian
    need_real, conv = STATE_REPS[rep]
    h, M = build_np(rec, n, {})
    if h.nqubits != n or (not h.terms and not h.constant):
        return "skip"
    if real:
        psi, rho = psi.real.astype(complex), rho.real.astype(complex)
    elif need_real:
        return "skip"
    p2, r2 = conv(psi), conv(rho)
    g = Guard(psi=p2, rho=r2)
    hd = h.dense
    want = {"h @ psi": M @ psi, "h @ rho": M @ rho, "expectation(psi)": np.real(np.vdot(psi, M @ psi)), "expectation(rho)": np.real(np.trace(M @ rho))}
    for route, obj in (("symbolic (term by term)", h), ("dense", hd)):
        got = {"h @ psi": obj @ p2, "h @ rho": obj @ r2, "expectation(psi)": obj.expectation(p2), "expectation(rho)": obj.expectation(r2)}
        for k, v in got.items():
            v, w = np.asarray(v), np.asarray(want[k])
            if v.shape != w.shape or not np.array_equal(v.astype(complex), w.astype(complex)):
                return f"{route} route: {k} changes when the state is handed over as {rep} (same numbers)"
    if g.changed():
        return f"the {rep} input was modified: {g.changed()}"
    Mr = np.asarray(hd.matrix)
    if (not need_real or not np.any(Mr.imag)) and rep != "readonly":
        d2 = Hamiltonian(n, conv(Mr))
        if not np.array_equal(np.asarray(d2.matrix).astype(complex), Mr) or not np.array_equal(np.asarray(d2 @ psi).astype(complex), M @ psi) \
                or float(d2.expectation(psi)) != float(want["expectation(psi)"]):
            return f"Hamiltonian(n, matrix as {rep}): matrix / @ psi / expectation differ from the complex128 C-order construction"
    return None


def sec_representation(run, rng):
    from harness import c15 as base
    cnt = 40 if run.tier == "quick" else 300
    bad = nrun = 0
    for j in range(cnt):
        n = rng.choice([1, 2, 2, 3])
        r = rng.random()
        if r < 0.35 and n > 1:
            m = base.rand_model(rng, n)
            rec = ["model", "MaxCut"] + m[2:] if m[1] == "2MaxCut" else m
            rec = rec if rng.random() < 0.5 else ["matmul", base.rand_hand_form(rng, n), rec]
        else:
            rec = ["form", base._lst(rng.choice([lambda: base.rand_form(rng, n, 2), lambda: base.rand_product(rng, n, rng.randrange(1, 4)),
                                                 lambda: base.rand_pow_form(rng, n)])())]
        rep = rng.choice(sorted(STATE_REPS))
        real = STATE_REPS[rep][0] or rng.random() < 0.3
        psi, rho = cstate(rng, n), cdm(rng, n)
        try:
            msg = play_representation(n, rec, rep, real, psi, rho)
        except AssertionError:
            continue
        except Exception as e:      # noqa: BLE001
            msg = f"raises {type(e).__name__}: {str(e)[:140]}"
        if msg == "skip":
            continue
        nrun += 1
        run.case(["representation", n, rec, rep, real])
        if msg:
            bad += 1
            if bad <= MAXREP:
                run.find(f"representation:{rep}:{rec_str(rec)}", f"H = {rec_str(rec)} on {n} qubits, state / density matrix handed over as {rep}: {msg}",
                         {"mechanism": "representation", "n": n, "recipe": rec, "rep": rep, "real": real, "psi": enc(psi), "rho": enc(rho)})
    run.oblige(f"test:input representation invariance: h @ psi, h @ rho, expectation on the symbolic and the dense route, and Hamiltonian(n, matrix), with the "
               f"same numbers as int64 / float64 / float32 / complex64 / Fortran order / strided view / read-only == the complex128 C-order answer ({nrun} cases)",
               bad == 0, "test")


def main_sections(run, rng):
    import time
    walls = {}
    for name, fn in (("hist_dense", sec_dense), ("hist_symbolic", sec_symbolic), ("primitives", sec_primitives), ("from_circuit", sec_circuit),
                     ("models", sec_models), ("representation", sec_representation)):
        t0 = time.time()
        fn(run, rng)
        walls[name] = round(time.time() - t0, 1)
    run.notes["extension_wall_s"] = walls


def replay(run, data):
    rp = data.get("replay", {})
    mech, key, what = rp.get("mechanism"), data.get("key", ""), data.get("what", "")
    if mech == "hist_dense":
        try:
            r = play_dense(rp["n"], dec(rp["M"]), rp["ops"], dec(rp["psi"]), dec(rp["rho"]), rp["a"])
        except Exception as e:      # noqa: BLE001
            r = ("raises", str(e))
        hit = r is not None
    elif mech == "hist_symbolic":
        tup = lambda x: tuple(tup(y) for y in x) if isinstance(x, list) else x
        c = complex(*rp["c"])
        c = c.real if c.imag == 0 else c
        try:
            hit = play_symbolic(rp["n"], tup(rp["a1"]), tup(rp["a2"]), rp["fills"], rp["op"], c, dec(rp["psi"]), dec(rp["rho"])) is not None
        except Exception:       # noqa: BLE001
            hit = True
    elif mech == "primitive" and rp.get("sub") == "form":
        from qibo.hamiltonians import SymbolicHamiltonian
        tup = lambda x: tuple(tup(y) for y in x) if isinstance(x, list) else x
        f, n = tup(rp["form"]), rp["n"]
        try:
            h = SymbolicHamiltonian(ast_sym(f, {}), nqubits=n)
            hit = check_sym_obs(h, ast_matrix(f, n, {**P2, **CUSTOM}), n, dec(rp["psi"]), dec(rp["rho"]), "h") is not None
        except Exception:       # noqa: BLE001
            hit = True
    elif mech == "primitive" and rp.get("sub") in ("term1", "term2"):
        from qibo.backends import NumpyBackend
        from qibo.hamiltonians.terms import HamiltonianTerm
        nb = NumpyBackend()
        n, qs = rp["n"], rp["q"]
        P = {**P2, **CUSTOM}[rp["name"]] if rp["sub"] == "term1" else dec(rp["M"])
        psi, rho = dec(rp["psi"]), dec(rp["rho"])
        t = HamiltonianTerm(np.array(P), *qs, backend=nb)
        E = embed(P, tuple(qs), n)
        hit = (not np.array_equal(np.asarray(t(nb, np.array(psi), n)), E @ psi)
               or not np.array_equal(np.asarray(t(nb, np.array(rho), n, density_matrix=True)), E @ rho))
    elif mech == "representation":
        try:
            hit = play_representation(rp["n"], rp["recipe"], rp["rep"], rp["real"], dec(rp["psi"]), dec(rp["rho"])) not in (None, "skip")
        except Exception:       # noqa: BLE001
            hit = True
    elif mech == "models":
        try:
            hit = play_models(rp["n"], rp["recipe"], rp["fills"], dec(rp["psi"]), dec(rp["rho"])) is not None
        except Exception:       # noqa: BLE001
            hit = True
    elif mech in ("setters", "primitive", "from_circuit"):
        rng = random.Random(0)
        {"setters": lambda: sec_setters(run), "primitive": lambda: sec_primitives(run, rng), "from_circuit": lambda: sec_circuit(run, rng)}[mech]()
        run.findings = [f for f in run.findings if f.key == key] or run.findings
        return True
    else:
        return False
    run.case(["replay", key])
    if hit:
        run.find(key, what, rp)
    return True
