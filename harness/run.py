"""entry point of every check:  python -m harness.run Cxx [--tier t] [--replay f]"""
import argparse
import importlib
import json
import os
import sys
import threading
import traceback

from lib import vcore


def main():
    ap = argparse.ArgumentParser()
    ap.add_argument("prop")
    ap.add_argument("--tier", default=os.environ.get("VERIF_TIER", "quick"))
    ap.add_argument("--replay", default=None)
    a = ap.parse_args()
    seed = int(os.environ.get("VERIF_SEED", "0") or 0)
    prop = a.prop.upper()
    mod = importlib.import_module(f"harness.{prop.lower()}")
    run = vcore.Run(prop, a.tier, seed)
    run.replay_mode = bool(a.replay)
    # watchdog: a check must end with a verdict. On the unchanged tree a quick check takes 0.5-3 minutes; a change to the
    # code under test can make the implementation (or a search of the harness) loop. When the limit is hit the findings
    # collected so far are reported together with a "timeout" finding (no-failing-input-found) and the exit code is 1.
    limit = int(os.environ.get("VERIF_WATCHDOG_S", "2400" if a.tier == "quick" else "21600"))

    def fire():
        try:
            run.find("timeout", f"the check did not finish within {limit} s (minutes on the unchanged tree): the code under "
                     "test or a search of the harness does not terminate", {"limit_s": limit, "tier": a.tier}, concrete=False)
            run.finish(rule="stopped by the watchdog")
        finally:
            sys.stdout.flush()
            os._exit(1)

    timer = threading.Timer(limit, fire)
    timer.daemon = True
    timer.start()
    try:
        vcore.ensure_static_build(getattr(mod, "STATIC", None))
        if a.tier == "thorough" and not a.replay and getattr(mod, "STATIC", None):
            props = [t for t in mod.STATIC if "Props" in t.split("/")[-1]] or list(mod.STATIC)
            okc, summ = vcore.coqchk(props)
            run.oblige("coqchk:" + ",".join(props), okc, "coqchk")
            run.notes["coqchk"] = summ
            run.checker_cmds.append("coqchk -silent -o -Q theories QV " + " ".join("QV." + t.replace("/", ".") for t in props))
            if not okc:
                run.find("coqchk", "coqchk rejects the compiled static theories", {"summary": summ}, concrete=False)
        if a.replay:
            data = json.load(open(a.replay))
            rc = mod.replay(run, data)
        else:
            rc = mod.main(run)
    except Exception:
        tb = traceback.format_exc()
        print(tb)
        run.find("harness-crash", "the check itself crashed: " + tb[-800:], {"traceback": tb}, concrete=False)
        rc = run.finish(rule="crashed")
    sys.exit(rc)


if __name__ == "__main__":
    main()
