"""C08 (second sentence): multi-controlled X decompositions borrowing free work qubits.

Static theorems  coq/theories/C08/MCXProps.v  (model C08/MCXModel.v, proofs C08/MCXProofs.v): for
EVERY number of controls m and every admissible number of free qubits the gate list computed by the
model of `X.decompose(*free, use_toffolis=True)` flips the target iff all controls are 1 and restores
every other bit -- in particular every borrowed work bit, whatever its value.

This module ties the model to the real code: for m = 0..8 controls and every number of free qubits
with n = m + 1 + nfree <= 11 (including the rejected case m >= 3, nfree = 0, and a small malformed
stream with overlapping qubits), on random non-ascending / sparse placements, the gate list of the
real  gates.X(t).controlled_by(*cs).decompose(*free, use_toffolis=True)  -- as (sorted controls,
target) pairs, in order -- is compared EXACTLY, inside Coq (vm_compute), with `mcx_decompose cs t free`.
An exception of the real code corresponds to `None`.

Use from harness/c08.py:   STATIC += c08_mcx_model.STATIC ;  c08_mcx_model.run_model_correspondence(run, rng)
                           (replay of a key "mcx_model:*":  c08_mcx_model.replay_model_case(run, data["replay"]))
"""
STATIC = ["C08/MCXProps"]

from lib import qtrace, vcore

HEADER = ("From Coq Require Import List Bool Arith.\n"
          "From QV Require Import Base.Mat C08.Reversible C08.MCXModel.\n"
          "Import ListNotations.\n")
GATESET = {"X": 0, "CNOT": 1, "TOFFOLI": 2}
NMAX = 11
CHUNK = 400


def real_decomposition(cs, t, free):
    """the real gate list as [(sorted controls, target)], or ("raises", ExceptionName), or
    ("gateset", description) if a gate outside X/CNOT/TOFFOLI appears"""
    gg = qtrace.mod("qibo.gates.gates")
    try:
        dec = gg.X(t).controlled_by(*cs).decompose(*free, use_toffolis=True)
    except Exception as e:  # the model's None
        return ("raises", type(e).__name__)
    out = []
    for g in dec:
        nm = type(g).__name__
        if nm not in GATESET or len(g.control_qubits) != GATESET[nm] or len(g.target_qubits) != 1:
            return ("gateset", f"{nm} controls={list(g.control_qubits)} targets={list(g.target_qubits)}")
        out.append((sorted(int(q) for q in g.control_qubits), int(g.target_qubits[0])))
    return out


def coq_gate_list(gl):
    if not gl:
        return "(@nil cx)"
    return "[" + "; ".join(f"({qtrace.nat_list(c)}, {t}%nat)" for c, t in gl) + "]"


def coq_model_call(cs, t, free):
    return f"mcx_decompose {qtrace.nat_list(cs)} {t}%nat {qtrace.nat_list(free)}"


def coq_expected(real):
    if isinstance(real, tuple):
        return "None"
    return f"(Some {coq_gate_list(real)})"


def placements(rng, m, nf, count):
    """random placements of m controls, a target and nf free qubits; never the ascending one,
    some with gaps (qubit ids drawn from a larger register)"""
    n = m + 1 + nf
    out = []
    for k in range(count):
        pool = list(range(n + (3 if k % 3 == 2 else 0)))
        rng.shuffle(pool)
        qs = pool[:n]
        cs, t, free = qs[:m], qs[m], qs[m + 1:]
        if len(cs) > 1 and cs == sorted(cs):
            cs = cs[::-1]
        if len(free) > 1 and free == sorted(free):
            free = free[::-1]
        out.append((cs, t, free))
    return out


def malformed(rng):
    """free qubits overlapping the gate's own qubits: ValueError for m = 0 and m >= 3; CNOT/TOFFOLI
    (m = 1, 2) ignore `free` altogether"""
    out = []
    for m in (0, 1, 2, 3, 4, 5):
        for nf in (1, 2, 4):
            n = m + 1 + nf
            pool = list(range(n))
            rng.shuffle(pool)
            cs, t, free = pool[:m], pool[m], pool[m + 1:]
            clash = rng.choice(cs + [t])
            free = list(free)
            free[rng.randrange(len(free))] = clash
            out.append((cs, t, free))
    return out


def classify_mismatch(run, idx, cs, t, free, real):
    """model and implementation differ: is the implementation wrong w.r.t. the specification?
    (boolean check of the real gate list on all 2^n inputs, Reversible.mcx_check, proved sound)"""
    info = {}
    mv = run.coq_eval(f"C08_mcxmodel_value_{idx}.v", HEADER, [coq_model_call(cs, t, free)], timeout=300)
    info["model"] = mv[0] if mv else None
    if isinstance(real, tuple):
        info["implementation"] = list(real)
        return info, None
    info["implementation"] = [[c, tt] for c, tt in real]
    n = max(cs + [t] + free) + 1
    if n <= 14:
        term = f"mcx_check {n}%nat {qtrace.nat_list(sorted(cs))} {t}%nat {coq_gate_list(real)}"
        res, _ = run.coq_bools(f"C08_mcxmodel_spec_{idx}.v", HEADER, [("spec", term)], timeout=600)
        if res is not None:
            return info, res["spec"]
    return info, None


def run_cases(run, cases, tag):
    """cases: list of (kind, cs, t, free).  Returns number of mismatches."""
    bad = 0
    for off in range(0, len(cases), CHUNK):
        chunk = cases[off:off + CHUNK]
        items, reals = [], []
        for i, (kind, cs, t, free) in enumerate(chunk):
            real = real_decomposition(cs, t, free)
            reals.append(real)
            items.append((f"{tag}{off + i}", f"same_result ({coq_model_call(cs, t, free)}) {coq_expected(real)}"))
        res, out = run.coq_bools(f"C08_mcxmodel_{tag}_{off // CHUNK}.v", HEADER, items, timeout=900)
        if res is None:
            run.find("coq:C08_mcxmodel", "MCX model correspondence file does not compile",
                     {"log": out[-1200:]}, concrete=False)
            return bad + 1
        for (lab, _), (kind, cs, t, free), real in zip(items, chunk, reals):
            m, nf = len(cs), len(free)
            nontrivial = not isinstance(real, tuple) and len(real) > 1
            run.case(["mcx_model", kind, cs, t, free], nontrivial=nontrivial or kind != "valid")
            if kind == "valid" and m >= 3:
                run.sample({"mcx_model": {"controls": cs, "target": t, "free": free,
                                          "ngates": len(real) if not isinstance(real, tuple) else list(real)}})
            expect_ok = kind == "valid" and (m < 3 or nf >= 1)
            ok = res[lab]
            if ok and expect_ok and isinstance(real, tuple):
                ok = False          # admissible input (theorem says Some): the real code must not raise
            if ok:
                continue
            bad += 1
            info, spec_ok = classify_mismatch(run, lab, cs, t, free, real)
            rep = {"kind": kind, "controls": cs, "target": t, "free": free, **info}
            if isinstance(real, tuple) and real[0] == "raises" and expect_ok:
                what = (f"X.decompose with {m} controls and {nf} free qubits raises {real[1]} on an admissible input "
                        "(the model returns a gate list)")
                concrete = True
            elif isinstance(real, tuple) and real[0] == "gateset":
                what = f"decomposition with use_toffolis=True contains a gate outside X/CNOT/TOFFOLI: {real[1]}"
                concrete = True
            elif spec_ok is False:
                what = ("gate list of X.decompose differs from the verified model AND is not the multi-controlled X "
                        "on all bit strings (or disturbs a work bit)")
                concrete = True
            else:
                what = ("gate list of X.decompose differs from the verified Coq model (the all-m theorem no longer "
                        "transfers to the implementation); boolean check of the real gate list: "
                        + ("passes" if spec_ok else "not evaluated"))
                concrete = False
            run.find(f"mcx_model:{m}:{nf}", what, rep, concrete=concrete)
    return bad


def run_model_correspondence(run, rng):
    try:
        vcore.ensure_static_build(STATIC)
        built = True
    except Exception as e:  # proof or model broke
        built = False
        run.find("coq:C08/MCXProps", "static theory C08/MCXProps does not build", {"log": str(e)[-1500:]}, concrete=False)
    thms = vcore.props_theorems("C08/MCXProps.v")
    pa = {}
    if built:
        ok, pa = vcore.static_assumptions("C08/MCXProps")
        run.notes["print_assumptions_mcx"] = pa
    for t in thms:
        closed = built and "Closed under the global context" in pa.get(t, "")
        run.oblige(t, closed, "static-theorem")
        if built and not closed:
            run.find(f"assumptions:{t}", f"theorem {t} of C08/MCXProps is not closed: {pa.get(t)}", {}, concrete=False)
    if not built:
        return
    per = 4 if run.tier == "quick" else 10
    cases = []
    for m in range(0, 9):
        for nf in range(0, NMAX - m):          # n = m + 1 + nf <= NMAX
            for cs, t, free in placements(rng, m, nf, per):
                cases.append(("valid", cs, t, free))
    nbad = run_cases(run, cases, "v")
    mal = [("malformed", cs, t, free) for cs, t, free in malformed(rng)]
    nbad += run_cases(run, mal, "x")
    run.notes["mcx_model"] = {"cases": len(cases), "malformed": len(mal), "mismatches": nbad,
                              "m": "0..8", "n_max": NMAX, "placements_per_shape": per}
    run.trusted += ["C08/MCXModel.v (hand-written model of X.decompose, tied by exact gate-list correspondence)",
                    "C08/Reversible.v run_cx/mcx_spec as the meaning of X/CNOT/TOFFOLI circuits on basis states; "
                    "linearity lifts the statement to all states of the work qubits"]
    run.not_proved += ["use_toffolis=False (congruent TOFFOLIs with relative phases) is outside the boolean model; "
                       "covered only by the bounded symbolic instances of mcx_items"]


def replay_model_case(run, rep):
    """re-execute one recorded case (replay dict of a finding 'mcx_model:<m>:<nfree>')"""
    cs, t, free = list(rep["controls"]), int(rep["target"]), list(rep["free"])
    run_cases(run, [(rep.get("kind", "valid"), cs, t, free)], "r")
