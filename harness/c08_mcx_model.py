"""C08 (second sentence): multi-controlled X decompositions borrowing free work qubits.

Static theorems  coq/theories/C08/MCXProps.v  (model C08/MCXModel.v, proofs C08/MCXProofs.v): for
EVERY number of controls m and every admissible number of free qubits the gate list computed by the
model of `X.decompose(*free, use_toffolis=True)` flips the target iff all controls are 1 and restores
every other bit -- in particular every borrowed work bit, whatever its value.

This module ties the model to the real code: for m = 0..8 controls and every number of free qubits
with n = m + 1 + nfree <= 11 (including the rejected case m >= 3, nfree = 0, and a small malformed
stream with overlapping qubits), on random non-ascending / sparse placements, the gate list of the
real  gates.X(t).controlled_by(*cs).decompose(*free, use_toffolis=True)  -- as (sorted controls,
target) pairs, in order -- is compared EXACTLY, inside Coq (vm_compute), with `mcx_decompose cs t free`.
An exception of the real code corresponds to `None`.

Variant use_toffolis=False (congruent Toffolis).  Static theorems `mcx_decompose_congruent_all_m` ...
of MCXProps.v (model C08/MCXSignedModel.v, signed-permutation semantics C08/Signed.v, proofs
C08/MCXSignedProofs.v): for every m the modelled gate list sends every basis state |b> to
+|mcx_spec b> (sign +, work bits restored).  Tie, on every run:
  (a) the real gate list of decompose(*free, use_toffolis=False) is tokenised -- X/CNOT/TOFFOLI stay,
      each seven-gate block  RY(t,-pi/4) CNOT(c1,t) RY(t,-pi/4) CNOT(c0,t) RY(t,pi/4) CNOT(c1,t) RY(t,pi/4)
      is checked LITERALLY (gate classes, no controls on the RYs, all on the same target, CNOT controls
      c1,c0,c1 with c0 != c1, the four angles read by the tracer's convention symtrace.snap_pi as
      -1/4,-1/4,1/4,1/4 of pi) and becomes one token CONG c0 c1 t; anything else is a finding --
      and compared EXACTLY, inside Coq, with `mcx_decompose_cong cs t free` (same shapes / placements /
      malformed stream as for use_toffolis=True); in the same files the erased model output is
      compared with the use_toffolis=True model (same skeleton);
  (b) generated TrigNF obligations `cong_block_is_signed_toffoli_*`: the product of the seven TRACED
      real gates of TOFFOLI(q0,q1,q2).congruent(use_toffolis=False) equals, entry by entry, the 8x8
      signed permutation matrix that C08/Signed.v assigns to the token (read from `cong_table`,
      evaluated in Coq on every run: -1 on |c0 c1 t> = |100>), embedded on the sorted controls.

Use from harness/c08.py:   STATIC += c08_mcx_model.STATIC ;  c08_mcx_model.run_model_correspondence(run, rng)
                           (replay of a key "mcx_model:*":  c08_mcx_model.replay_model_case(run, data["replay"]))
"""
STATIC = ["C08/MCXProps"]

import itertools
from fractions import Fraction

import numpy as np

from lib import qtrace, vcore, tables, symtrace as st
from lib.tables import Item

HEADER = ("From Coq Require Import List Bool Arith.\n"
          "From QV Require Import Base.Mat C08.Reversible C08.MCXModel C08.Signed C08.MCXSignedModel.\n"
          "Import ListNotations.\n")
GATESET = {"X": 0, "CNOT": 1, "TOFFOLI": 2}
NMAX = 11
CHUNK = 400
CHUNK_CONG = 250        # two booleans per case


def real_decomposition(cs, t, free):
    """the real gate list as [(sorted controls, target)], or ("raises", ExceptionName), or
    ("gateset", description) if a gate outside X/CNOT/TOFFOLI appears"""
    gg = qtrace.mod("qibo.gates.gates")
    try:
        dec = gg.X(t).controlled_by(*cs).decompose(*free, use_toffolis=True)
    except Exception as e:  # the model's None
        return ("raises", type(e).__name__)
    out = []
    for g in dec:
        nm = type(g).__name__
        if nm not in GATESET or len(g.control_qubits) != GATESET[nm] or len(g.target_qubits) != 1:
            return ("gateset", f"{nm} controls={list(g.control_qubits)} targets={list(g.target_qubits)}")
        out.append((sorted(int(q) for q in g.control_qubits), int(g.target_qubits[0])))
    return out


def coq_gate_list(gl):
    if not gl:
        return "(@nil cx)"
    return "[" + "; ".join(f"({qtrace.nat_list(c)}, {t}%nat)" for c, t in gl) + "]"


def coq_model_call(cs, t, free):
    return f"mcx_decompose {qtrace.nat_list(cs)} {t}%nat {qtrace.nat_list(free)}"


def coq_expected(real):
    if isinstance(real, tuple):
        return "None"
    return f"(Some {coq_gate_list(real)})"


def placements(rng, m, nf, count):
    """random placements of m controls, a target and nf free qubits; never the ascending one,
    some with gaps (qubit ids drawn from a larger register)"""
    n = m + 1 + nf
    out = []
    for k in range(count):
        pool = list(range(n + (3 if k % 3 == 2 else 0)))
        rng.shuffle(pool)
        qs = pool[:n]
        cs, t, free = qs[:m], qs[m], qs[m + 1:]
        if len(cs) > 1 and cs == sorted(cs):
            cs = cs[::-1]
        if len(free) > 1 and free == sorted(free):
            free = free[::-1]
        out.append((cs, t, free))
    return out


def malformed(rng):
    """free qubits overlapping the gate's own qubits: ValueError for m = 0 and m >= 3; CNOT/TOFFOLI
    (m = 1, 2) ignore `free` altogether"""
    out = []
    for m in (0, 1, 2, 3, 4, 5):
        for nf in (1, 2, 4):
            n = m + 1 + nf
            pool = list(range(n))
            rng.shuffle(pool)
            cs, t, free = pool[:m], pool[m], pool[m + 1:]
            clash = rng.choice(cs + [t])
            free = list(free)
            free[rng.randrange(len(free))] = clash
            out.append((cs, t, free))
    return out


def classify_mismatch(run, idx, cs, t, free, real):
    """model and implementation differ: is the implementation wrong w.r.t. the specification?
    (boolean check of the real gate list on all 2^n inputs, Reversible.mcx_check, proved sound)"""
    info = {}
    mv = run.coq_eval(f"C08_mcxmodel_value_{idx}.v", HEADER, [coq_model_call(cs, t, free)], timeout=300)
    info["model"] = mv[0] if mv else None
    if isinstance(real, tuple):
        info["implementation"] = list(real)
        return info, None
    info["implementation"] = [[c, tt] for c, tt in real]
    n = max(cs + [t] + free) + 1
    if n <= 14:
        term = f"mcx_check {n}%nat {qtrace.nat_list(sorted(cs))} {t}%nat {coq_gate_list(real)}"
        res, _ = run.coq_bools(f"C08_mcxmodel_spec_{idx}.v", HEADER, [("spec", term)], timeout=600)
        if res is not None:
            return info, res["spec"]
    return info, None


def run_cases(run, cases, tag):
    """cases: list of (kind, cs, t, free).  Returns number of mismatches."""
    bad = 0
    for off in range(0, len(cases), CHUNK):
        chunk = cases[off:off + CHUNK]
        items, reals = [], []
        for i, (kind, cs, t, free) in enumerate(chunk):
            real = real_decomposition(cs, t, free)
            reals.append(real)
            items.append((f"{tag}{off + i}", f"same_result ({coq_model_call(cs, t, free)}) {coq_expected(real)}"))
        res, out = run.coq_bools(f"C08_mcxmodel_{tag}_{off // CHUNK}.v", HEADER, items, timeout=900)
        if res is None:
            run.find("coq:C08_mcxmodel", "MCX model correspondence file does not compile",
                     {"log": out[-1200:]}, concrete=False)
            return bad + 1
        for (lab, _), (kind, cs, t, free), real in zip(items, chunk, reals):
            m, nf = len(cs), len(free)
            nontrivial = not isinstance(real, tuple) and len(real) > 1
            run.case(["mcx_model", kind, cs, t, free], nontrivial=nontrivial or kind != "valid")
            if kind == "valid" and m >= 3:
                run.sample({"mcx_model": {"controls": cs, "target": t, "free": free,
                                          "ngates": len(real) if not isinstance(real, tuple) else list(real)}})
            expect_ok = kind == "valid" and (m < 3 or nf >= 1)
            ok = res[lab]
            if ok and expect_ok and isinstance(real, tuple):
                ok = False          # admissible input (theorem says Some): the real code must not raise
            if ok:
                continue
            bad += 1
            info, spec_ok = classify_mismatch(run, lab, cs, t, free, real)
            rep = {"kind": kind, "controls": cs, "target": t, "free": free, **info}
            if isinstance(real, tuple) and real[0] == "raises" and expect_ok:
                what = (f"X.decompose with {m} controls and {nf} free qubits raises {real[1]} on an admissible input "
                        "(the model returns a gate list)")
                concrete = True
            elif isinstance(real, tuple) and real[0] == "gateset":
                what = f"decomposition with use_toffolis=True contains a gate outside X/CNOT/TOFFOLI: {real[1]}"
                concrete = True
            elif spec_ok is False:
                what = ("gate list of X.decompose differs from the verified model AND is not the multi-controlled X "
                        "on all bit strings (or disturbs a work bit)")
                concrete = True
            else:
                what = ("gate list of X.decompose differs from the verified Coq model (the all-m theorem no longer "
                        "transfers to the implementation); boolean check of the real gate list: "
                        + ("passes" if spec_ok else "not evaluated"))
                concrete = False
            run.find(f"mcx_model:{m}:{nf}", what, rep, concrete=concrete)
    return bad


# ====================================================================== use_toffolis=False
QUARTER = Fraction(1, 4)


def tokenise_cong(dec):
    """real gate list -> tokens ("SCX", sorted controls, target) / ("CONG", c0, c1, t); a seven-gate block
    becomes a CONG token only after it has been checked literally.  ("gateset", description) otherwise."""
    out, i = [], 0
    while i < len(dec):
        g = dec[i]
        nm = type(g).__name__
        if nm in GATESET:
            if len(g.control_qubits) != GATESET[nm] or len(g.target_qubits) != 1:
                return ("gateset", f"{nm} controls={list(g.control_qubits)} targets={list(g.target_qubits)}")
            out.append(("SCX", sorted(int(q) for q in g.control_qubits), int(g.target_qubits[0])))
            i += 1
            continue
        blk = dec[i:i + 7]
        names = [type(h).__name__ for h in blk]
        if names != ["RY", "CNOT", "RY", "CNOT", "RY", "CNOT", "RY"]:
            return ("gateset", f"position {i}: expected a 7-gate congruent block, found {names}")
        rys, cns = blk[0::2], blk[1::2]
        t = int(rys[0].target_qubits[0])
        if any(len(h.control_qubits) or h.is_controlled_by or tuple(h.target_qubits) != (t,) for h in rys):
            return ("gateset", f"position {i}: RY gates of the block are not plain RYs on one target")
        if any(len(h.control_qubits) != 1 or tuple(h.target_qubits) != (t,) for h in cns):
            return ("gateset", f"position {i}: CNOTs of the block do not target the RY qubit {t}")
        c1, c0, c1b = (int(h.control_qubits[0]) for h in cns)
        if c1 != c1b or c0 == c1 or t in (c0, c1):
            return ("gateset", f"position {i}: CNOT controls {[c1, c0, c1b]} target {t} are not of the form c1,c0,c1")
        angles = [st.snap_pi(float(h.parameters[0])) for h in rys]
        if angles != [-QUARTER, -QUARTER, QUARTER, QUARTER]:
            return ("gateset", f"position {i}: RY angles {[float(h.parameters[0]) for h in rys]} are not -pi/4,-pi/4,pi/4,pi/4")
        out.append(("CONG", c0, c1, t))
        i += 7
    return out


def real_decomposition_cong(cs, t, free):
    gg = qtrace.mod("qibo.gates.gates")
    try:
        dec = gg.X(t).controlled_by(*cs).decompose(*free, use_toffolis=False)
    except Exception as e:  # the model's None
        return ("raises", type(e).__name__)
    return tokenise_cong(dec)


def coq_sgate_list(toks):
    if not toks:
        return "(@nil sgate)"
    return "[" + "; ".join(f"SCX ({qtrace.nat_list(k[1])}, {k[2]}%nat)" if k[0] == "SCX"
                           else f"CONG {k[1]}%nat {k[2]}%nat {k[3]}%nat" for k in toks) + "]"


def coq_model_call_cong(cs, t, free):
    return f"mcx_decompose_cong {qtrace.nat_list(cs)} {t}%nat {qtrace.nat_list(free)}"


def coq_expected_cong(real):
    if isinstance(real, tuple):
        return "None"
    return f"(Some {coq_sgate_list(real)})"


def cong_witness(cs, t, free):
    """a basis state on which the real decomposition (use_toffolis=False), executed numerically by the real
    backend, is not +|mcx(b)>: wrong bits, a disturbed work qubit, or a relative phase"""
    gg = qtrace.mod("qibo.gates.gates")
    n = max(list(cs) + [t] + list(free)) + 1
    if n > 10:
        return {}
    try:
        U = qtrace.full_unitary(gg.X(t).controlled_by(*cs).decompose(*free, use_toffolis=False), n)
    except Exception as e:  # noqa: BLE001
        return {"error": f"{type(e).__name__}: {e}"}
    for j, bits in enumerate(itertools.product([0, 1], repeat=n)):
        want = list(bits)
        if all(bits[q] for q in cs):
            want[t] ^= 1
        k = int("".join(map(str, want)), 2)
        if abs(U[k, j] - 1) > 1e-8:
            i = int(np.argmax(np.abs(U[:, j])))
            return {"input_bits": list(bits), "expected_bits": want, "amplitude_on_expected": complex(U[k, j]),
                    "largest_output_index": i, "largest_output_amplitude": complex(U[i, j])}
    return {}


def classify_mismatch_cong(run, idx, cs, t, free, real):
    info = {}
    mv = run.coq_eval(f"C08_mcxcong_value_{idx}.v", HEADER, [coq_model_call_cong(cs, t, free)], timeout=300)
    info["model"] = mv[0] if mv else None
    if isinstance(real, tuple):
        info["implementation"] = list(real)
    else:
        info["implementation"] = [list(k) for k in real]
    spec_ok = None
    n = max(cs + [t] + free) + 1
    if not isinstance(real, tuple) and n <= 14:
        term = f"signed_check {n}%nat {qtrace.nat_list(sorted(cs))} {t}%nat {coq_sgate_list(real)}"
        res, _ = run.coq_bools(f"C08_mcxcong_spec_{idx}.v", HEADER, [("spec", term)], timeout=600)
        if res is not None:
            spec_ok = res["spec"]
    w = {}
    if spec_ok is not True and not (isinstance(real, tuple) and real[0] == "raises"):
        w = cong_witness(cs, t, free)
        if w:
            spec_ok = False
    return {**info, **w}, spec_ok


def run_cases_cong(run, cases, tag):
    """cases: list of (kind, cs, t, free), variant use_toffolis=False.  Returns number of mismatches."""
    bad = 0
    classified = set()
    for off in range(0, len(cases), CHUNK_CONG):
        chunk = cases[off:off + CHUNK_CONG]
        items, reals = [], []
        for i, (kind, cs, t, free) in enumerate(chunk):
            real = real_decomposition_cong(cs, t, free)
            reals.append(real)
            items.append((f"{tag}{off + i}", f"same_sresult ({coq_model_call_cong(cs, t, free)}) {coq_expected_cong(real)}"))
            items.append((f"{tag}{off + i}_skel", f"same_skeleton ({coq_model_call_cong(cs, t, free)}) ({coq_model_call(cs, t, free)})"))
        res, out = run.coq_bools(f"C08_mcxcong_{tag}_{off // CHUNK_CONG}.v", HEADER, items, timeout=900)
        if res is None:
            run.find("coq:C08_mcxcong", "MCX congruent-model correspondence file does not compile",
                     {"log": out[-1200:]}, concrete=False)
            return bad + 1
        for i, ((kind, cs, t, free), real) in enumerate(zip(chunk, reals)):
            lab = f"{tag}{off + i}"
            m, nf = len(cs), len(free)
            nontrivial = not isinstance(real, tuple) and len(real) > 1
            run.case(["mcx_model_cong", kind, cs, t, free], nontrivial=nontrivial or kind != "valid")
            if kind == "valid" and m >= 3 and nf >= 1:
                run.sample({"mcx_model_cong": {"controls": cs, "target": t, "free": free,
                                               "tokens": len(real) if not isinstance(real, tuple) else list(real)}})
            if not res[lab + "_skel"]:
                bad += 1
                run.find(f"mcx_model:cong_skeleton:{m}:{nf}",
                         "the two hand-written models disagree: erasing the signs of mcx_decompose_cong does not give mcx_decompose",
                         {"variant": "cong", "kind": kind, "controls": cs, "target": t, "free": free}, concrete=False)
            expect_ok = kind == "valid" and (m < 3 or nf >= 1)
            ok = res[lab]
            if ok and expect_ok and isinstance(real, tuple):
                ok = False
            if ok:
                continue
            bad += 1
            if (m, nf) in classified:       # one classified finding per shape; the others are counted
                continue
            classified.add((m, nf))
            info, spec_ok = classify_mismatch_cong(run, lab, cs, t, free, real)
            rep = {"variant": "cong", "kind": kind, "controls": cs, "target": t, "free": free, **info}
            if isinstance(real, tuple) and real[0] == "raises" and expect_ok:
                what = (f"X.decompose(use_toffolis=False) with {m} controls and {nf} free qubits raises {real[1]} on an "
                        "admissible input (the model returns a gate list)")
                concrete = True
            elif spec_ok is False:
                what = ("gate list of X.decompose(use_toffolis=False) differs from the verified model AND is not the "
                        "multi-controlled X (wrong bits, a disturbed work qubit or a relative phase on some basis state)")
                concrete = True
            elif isinstance(real, tuple) and real[0] == "gateset":
                what = ("decomposition with use_toffolis=False contains something other than X/CNOT/TOFFOLI and literal "
                        f"congruent blocks: {real[1]} (numerically still the multi-controlled X; the all-m theorem no longer transfers)")
                concrete = False
            else:
                what = ("gate list of X.decompose(use_toffolis=False) differs from the verified Coq model (the all-m theorem "
                        "no longer transfers to the implementation); signed check of the real gate list: "
                        + ("passes" if spec_ok else "not evaluated"))
                concrete = False
            run.find(f"mcx_model:cong:{m}:{nf}", what, rep, concrete=concrete)
    return bad


def cong_matrix_from_coq(run):
    """8x8 integer matrix of the token CONG c0 c1 t on (c0, c1, t) as C08/Signed.v defines it
    (`cong_table`, evaluated now): column |b> has its single entry (+1/-1) in row `bits`."""
    vals = run.coq_eval("C08_cong_table.v", HEADER, ["cong_table"], timeout=300)
    if not vals:
        return None
    bs = vcore.parse_bools(vals[0])
    if len(bs) != 56:
        return None
    M = np.zeros((8, 8), dtype=int)
    for k in range(8):
        e = bs[7 * k:7 * k + 7]
        col = int("".join("1" if x else "0" for x in e[0:3]), 2)
        row = int("".join("1" if x else "0" for x in e[3:6]), 2)
        M[row, col] = -1 if e[6] else 1
    return M


def cong_items(M):
    """TrigNF obligations: traced product of the seven real gates == signed TOFFOLI matrix, exactly"""
    gg = qtrace.mod("qibo.gates.gates")
    items = []
    for q0, q1, q2 in ((0, 1, 2), (3, 1, 0), (2, 0, 1)):
        n = max(q0, q1, q2) + 1
        lo, hi = sorted((q0, q1))

        def b(params, _q=(q0, q1, q2), _lo=lo, _hi=hi, _n=n):
            lhs = gg.TOFFOLI(*_q).congruent(use_toffolis=False)
            rhs = [gg.Unitary(np.array(M, dtype=complex), _lo, _hi, _q[2], check_unitary=False)]
            return lhs, rhs, _n
        items.append(Item(f"cong_block_is_signed_toffoli_{q0}{q1}{q2}", f"cong_block:{q0}:{q1}:{q2}", 0, b, mode="eq",
                          meta={"toffoli": [q0, q1, q2], "token": ["CONG", lo, hi, q2],
                                "signed_matrix_diag": [int(M[i, i]) for i in range(8)]}))
    return items


def run_model_correspondence(run, rng):
    try:
        vcore.ensure_static_build(STATIC)
        built = True
    except Exception as e:  # proof or model broke
        built = False
        run.find("coq:C08/MCXProps", "static theory C08/MCXProps does not build", {"log": str(e)[-1500:]}, concrete=False)
    thms = vcore.props_theorems("C08/MCXProps.v")
    pa = {}
    if built:
        ok, pa = vcore.static_assumptions("C08/MCXProps")
        run.notes["print_assumptions_mcx"] = pa
    for t in thms:
        closed = built and "Closed under the global context" in pa.get(t, "")
        run.oblige(t, closed, "static-theorem")
        if built and not closed:
            run.find(f"assumptions:{t}", f"theorem {t} of C08/MCXProps is not closed: {pa.get(t)}", {}, concrete=False)
    if not built:
        return
    per = 4 if run.tier == "quick" else 10
    cases = []
    for m in range(0, 9):
        for nf in range(0, NMAX - m):          # n = m + 1 + nf <= NMAX
            for cs, t, free in placements(rng, m, nf, per):
                cases.append(("valid", cs, t, free))
    nbad = run_cases(run, cases, "v")
    mal = [("malformed", cs, t, free) for cs, t, free in malformed(rng)]
    nbad += run_cases(run, mal, "x")
    run.notes["mcx_model"] = {"cases": len(cases), "malformed": len(mal), "mismatches": nbad,
                              "m": "0..8", "n_max": NMAX, "placements_per_shape": per}
    # ---- use_toffolis=False: same shapes, fresh placements, tokenised real gate lists
    ccases = []
    for m in range(0, 9):
        for nf in range(0, NMAX - m):
            for cs, t, free in placements(rng, m, nf, per):
                ccases.append(("valid", cs, t, free))
    cbad = run_cases_cong(run, ccases, "cv")
    cmal = [("malformed", cs, t, free) for cs, t, free in malformed(rng)]
    cbad += run_cases_cong(run, cmal, "cx")
    M = cong_matrix_from_coq(run)
    if M is None:
        run.find("coq:C08_cong_table", "cong_table of C08/Signed.v could not be evaluated", {}, concrete=False)
    else:
        run.notes["cong_signed_matrix"] = M.tolist()
        tables.run_items(run, cong_items(M), "C08_cong_block", rng)
    run.notes["mcx_model_cong"] = {"cases": len(ccases), "malformed": len(cmal), "mismatches": cbad,
                                   "m": "0..8", "n_max": NMAX, "placements_per_shape": per}
    run.trusted += ["C08/MCXModel.v, C08/MCXSignedModel.v (hand-written models of X.decompose with use_toffolis=True / False, "
                    "tied by exact gate-list correspondence; seven-gate congruent blocks are grouped into one CONG token "
                    "after a literal check of classes, qubits and angles)",
                    "C08/Reversible.v run_cx/mcx_spec as the meaning of X/CNOT/TOFFOLI circuits on basis states; "
                    "C08/Signed.v run_signed as the meaning of circuits with congruent Toffolis (signed permutations; the "
                    "matrix of the CONG token is tied to the traced real gates by obligations cong_block_is_signed_toffoli_*); "
                    "linearity lifts both statements to all states of the work qubits"]


def replay_model_case(run, rep):
    """re-execute one recorded case (replay dict of a finding 'mcx_model:<m>:<nfree>')"""
    cs, t, free = list(rep["controls"]), int(rep["target"]), list(rep["free"])
    if rep.get("variant") == "cong":
        run_cases_cong(run, [(rep.get("kind", "valid"), cs, t, free)], "cr")
    else:
        run_cases(run, [(rep.get("kind", "valid"), cs, t, free)], "r")
