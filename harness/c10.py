"""C10  Unrolling yields only native gates and the same operator up to global phase.

For every gate class of gates.py x every native set {GPI2|U3} x {CZ, iSWAP, CZ+iSWAP, CNOT}
(+ I, Z, RZ, M) the real translate_gate is executed on a gate with symbolic parameters on
non-ascending qubits.  Obligations per (class, set):
  * operator:  forall th, exists phi, U(translation) = e^{i phi} U(gate)      (TrigMat, kernel-checked)
  * natives :  every returned gate class belongs to the native set           (finite table, exhaustive)
  * classes for which translate_gate raises are 'rejected' (allowed by the property)
The conditional omissions of _u3_to_gpi2 (l = 0, t = -pi, p = -pi) are separate obligations.
Arbitrary one-/two-qubit unitaries (numerical ZYZ / KAK path) are exercised as a tolerance *test*
(labelled as such; magic_decomposition is outside the proof, see DESIGN.md).
harness/c10_streams.py: output stability / aliasing histories over every translation entry point, and the
near-degenerate corpus of the numerical path (both test level).
"""
STATIC = ["Base/TrigMat", "Spec/GateSpec"]
import itertools
import math
import random

import numpy as np

from lib import qtrace, tables, symtrace as st
from lib.tables import Item

PLACE = (2, 0, 1, 3)


def native_sets():
    from qibo.transpiler.unroller import NativeGates as N
    base = N.I | N.Z | N.RZ | N.M
    out = []
    for s1n, s1 in (("GPI2", N.GPI2), ("U3", N.U3)):
        for s2n, s2 in (("CZ", N.CZ), ("iSWAP", N.iSWAP), ("CZ+iSWAP", N.CZ | N.iSWAP), ("CNOT", N.CNOT)):
            out.append((f"{s1n}_{s2n}".replace("+", "_"), base | s1 | s2))
    return out


def allowed(natives, g):
    from qibo.transpiler.unroller import NativeGates as N
    try:
        # a native gate is a gate of a native CLASS acting as that class's documented operator: a gate that got extra
        # controls from the generic `controlled_by` keeps its class (Z(t).controlled_by(c0, c1) is still a `Z`) but is a
        # multi-controlled operator no device offers under that name
        return bool(N.from_gate(g) & natives) and not getattr(g, "is_controlled_by", False)
    except Exception:
        return False


SPECIAL_U3 = [  # (label, class, params-with-None-for-symbolic)
    ("U3_l0", "U3", (None, None, 0.0)),
    ("U3_tmpi", "U3", (-math.pi, None, None)),
    ("U3_pmpi", "U3", (None, -math.pi, None)),
    ("U3_all", "U3", (-math.pi, -math.pi, 0.0)),
    ("U2_l0", "U2", (None, 0.0)),
    ("U2_pmpi", "U2", (-math.pi, None)),
]


def build_items(run, tier):
    from qibo.transpiler.unroller import translate_gate
    items = []
    rejected, native_bad = [], []
    cat = qtrace.catalogue()
    for sname, natives in native_sets():
        for name, nq, ps in cat:
            qs = [PLACE[i] for i in range(nq)]
            n = max(qs) + 1
            # probe with numeric parameters: does translate_gate accept this class for this set?
            probe_vals = [0.37 + 0.21 * j for j in range(len(ps))]
            try:
                out = translate_gate(qtrace.make_gate(name, qs, probe_vals), natives)
                out = out if isinstance(out, list) else [out]
            except Exception as e:
                rejected.append((sname, name, type(e).__name__))
                run.case(["rejected", sname, name], nontrivial=False)
                continue
            bad = sorted({type(g).__name__ for g in out if not allowed(natives, g)})
            if bad:
                native_bad.append((sname, name, bad))
                run.refuted.append(f"natives_{sname}_{name}")
            else:
                run.oblige(f"natives_{sname}_{name}", True, "finite-table")

            def b(params, _name=name, _qs=qs, _n=n, _nat=natives):
                g = qtrace.make_gate(_name, _qs, params)
                out = translate_gate(g, _nat)
                out = out if isinstance(out, list) else [out]
                return out, [qtrace.make_gate(_name, _qs, params)], _n
            items.append(Item(f"translate_{sname}_{name}", f"translate:{sname}:{name}", len(ps), b,
                              meta={"native_set": sname, "class": name, "qubits": qs}))
        for lab, cls, pattern in SPECIAL_U3:
            k = sum(1 for p in pattern if p is None)

            def b(params, _cls=cls, _pat=pattern, _nat=natives):
                it = iter(params)
                vals = [next(it) if p is None else p for p in _pat]
                g = qtrace.make_gate(_cls, [0], vals)
                return translate_gate(g, _nat), [qtrace.make_gate(_cls, [0], vals)], 1
            items.append(Item(f"translate_{sname}_{lab}", f"translate:{sname}:{lab}", k, b,
                              meta={"native_set": sname, "class": cls, "special": lab}))
    return items, rejected, native_bad


def controlled_items(run, tier):
    """Gates made with `controlled_by` (one extra control; two for one-qubit classes): either the
    constructor specialises to a table class (X -> CNOT, RX -> CRX ...), or the gate is outside the
    documented tables and translate_gate must REPORT AN ERROR -- never return a circuit for another
    operator.  Whatever is returned is obliged like a table entry (operator up to phase, natives)."""
    from qibo.transpiler.unroller import translate_gate
    items = []
    sets = native_sets()
    if tier == "quick":
        sets = [sets[0], sets[2], sets[5], sets[7]]
    for sname, natives in sets:
        for name, nq, ps in qtrace.catalogue():
            for nc in ((1, 2) if nq == 1 else (1,)):
                if nq + nc > len(PLACE):
                    continue
                qs = [PLACE[i] for i in range(nq)]
                cs = [PLACE[nq + j] for j in range(nc)]
                n = max(qs + cs) + 1
                probe_vals = [0.37 + 0.21 * j for j in range(len(ps))]

                def mk(params, _name=name, _qs=qs, _cs=cs):
                    return qtrace.make_gate(_name, _qs, params).controlled_by(*_cs)
                try:
                    g0 = mk(probe_vals)
                except Exception:
                    continue                      # class cannot take (more) controls
                try:
                    out = translate_gate(g0, natives)
                    out = out if isinstance(out, list) else [out]
                except Exception as e:
                    run.case(["rejected_controlled", sname, name, nc], nontrivial=False)
                    continue
                bad = sorted({type(g).__name__ for g in out if not allowed(natives, g)})
                if bad:
                    run.refuted.append(f"natives_{sname}_{name}_c{nc}")
                    run.find(f"natives:{sname}:{name}:c{nc}", f"translate_gate({name}.controlled_by x{nc}) under {sname} returns non-native gates {bad}",
                             {"native_set": sname, "class": name, "controls": nc, "non_native": bad})
                else:
                    run.oblige(f"natives_{sname}_{name}_c{nc}", True, "finite-table")

                def b(params, _mk=mk, _n=n, _nat=natives):
                    out = translate_gate(_mk(params), _nat)
                    out = out if isinstance(out, list) else [out]
                    return out, [_mk(params)], _n
                items.append(Item(f"translate_{sname}_{name}_c{nc}", f"translate_controlled:{sname}:{name}:c{nc}", len(ps), b,
                                  meta={"native_set": sname, "class": name, "qubits": qs, "extra_controls": cs}))
    return items


def unitary_test(run, rng, count):
    """tolerance test of the numerical ZYZ/KAK path (not a proof)"""
    from qibo import gates
    from qibo.transpiler.unroller import translate_gate
    from scipy.stats import unitary_group
    bad = []

    def rand_u(d, kind):
        if kind == "haar":
            return unitary_group.rvs(d, random_state=rng.randrange(2 ** 31))
        if kind == "diag":
            return np.diag(np.exp(1j * np.array([rng.uniform(0, 6) for _ in range(d)])))
        if kind == "degenerate":
            u = unitary_group.rvs(d, random_state=rng.randrange(2 ** 31))
            ph = np.exp(1j * rng.uniform(0, 6))
            dg = np.diag([ph] * (d // 2) + [np.conj(ph)] * (d - d // 2))
            return u @ dg @ u.conj().T
        if kind == "kron":
            a = unitary_group.rvs(2, random_state=rng.randrange(2 ** 31))
            b = unitary_group.rvs(2, random_state=rng.randrange(2 ** 31))
            return np.kron(a, b)
        if kind == "named":
            g = rng.choice([gates.CNOT(0, 1), gates.SWAP(0, 1), gates.iSWAP(0, 1), gates.CZ(0, 1), gates.fSim(0, 1, 0.3, 0.7)])
            return np.asarray(g.matrix())
        if kind == "library":        # the matrix of ANY two-qubit class at random / special angles, either qubit order
            cat = [(nm, ps) for nm, nq_, ps in qtrace.catalogue() if nq_ == 2]
            nm, ps = cat[rng.randrange(len(cat))]
            vals = [rng.choice([0.0, math.pi / 2, math.pi, 0.6, round(rng.uniform(0.1, 1.4), 3)]) for _ in ps]
            if nm == "MS":
                vals[2] = min(abs(vals[2]), math.pi / 2)
            return np.asarray(qtrace.make_gate(nm, rng.sample([0, 1], 2), vals).matrix())
        if kind == "real_named":      # real / integer dtype, determinant -1 or +1
            M = rng.choice([gates.CNOT(0, 1), gates.SWAP(0, 1), gates.CZ(0, 1), gates.FSWAP(0, 1)]).matrix()
            return np.real(np.asarray(M)).astype(rng.choice([float, int]))
        if kind == "real_orthogonal":
            from scipy.stats import ortho_group
            Q = ortho_group.rvs(d, random_state=rng.randrange(2 ** 31))
            if rng.random() < 0.5:
                Q[:, 0] = -Q[:, 0]
            return Q
        return np.eye(d, dtype=complex)
    sets = native_sets()
    n_done = 0
    for i in range(count):
        d = rng.choice([2, 4])
        kind = rng.choice(["haar", "diag", "degenerate", "identity", "real_orthogonal"] + (["kron", "named", "real_named", "library", "library", "library"] if d == 4 else []))
        U = rand_u(d, kind)
        updated = (i % 3 == 0)        # matrix replaced after construction (parameters setter), then unrolled
        ctrl = (i % 5 == 4)           # Unitary(...).controlled_by(c): outside the tables -> must raise, or be right
        sname, natives = sets[i % len(sets)]
        if d == 4 and sname.endswith("CNOT"):
            continue
        qs = [1, 0] if d == 4 else [1]
        try:
            if updated:
                g = gates.Unitary(rand_u(d, "haar"), *qs)
                g.parameters = U
            else:
                g = gates.Unitary(U, *qs)
            if ctrl:
                g = g.controlled_by(2)
                try:
                    out = translate_gate(g, natives)
                except Exception:
                    run.case(["unitary_controlled_rejected", sname, d, i], nontrivial=False)
                    continue
                A = qtrace.full_unitary(out, 3)
                B = qtrace.full_unitary([gates.Unitary(U, *qs).controlled_by(2)], 3)
                kind = kind + ":controlled"
            else:
                out = translate_gate(g, natives)
                A = qtrace.full_unitary(out, 2)
                B = qtrace.full_unitary([gates.Unitary(U, *qs)], 2)
            dist = qtrace.phase_distance(A, B)
            nb = [type(g).__name__ for g in out if not allowed(natives, g)]
        except Exception as e:
            dist, nb = float("inf"), [f"{type(e).__name__}: {e}"]
            if "magic basis" in str(e) and not kind.startswith("kron"):
                kind = "kak_magic_basis:" + kind
        n_done += 1
        kind = kind + (":updated" if updated else "")
        run.case(["unitary", sname, d, kind, i])
        if dist > 1e-6 or nb:
            bad.append({"native_set": sname, "dim": d, "kind": kind, "distance": dist, "non_native": nb,
                        "matrix": [[[float(x.real), float(x.imag)] for x in r] for r in U]})
    run.notes["unitary_tolerance_test"] = {"cases": n_done, "failures": len(bad), "tolerance": 1e-6,
                                           "status": "test only; not a theorem"}
    seen = set()
    for bcase in bad:
        if (bcase['kind'], bcase['dim']) in seen:
            continue
        seen.add((bcase['kind'], bcase['dim']))
        run.find((f"{bcase['kind']}:{bcase['dim']}" if bcase['kind'].startswith("kak_magic_basis:") else f"unitary:{bcase['kind']}:{bcase['dim']}"),
                 "numerical translation of an arbitrary unitary is wrong or non-native", bcase)


def kak_core(run, rng):
    """cnot_decomposition / cnot_decomposition_light equal exp(-i(hx XX + hy YY + hz ZZ)) up to a global
    phase for ALL hx, hy, hz (the synthesis formula (6)/(24) of quant-ph/0307177 as coded), on both
    qubit orders.  exp(-i h PP) is written with the documented RXX/RYY/RZZ matrices of Spec/GateSpec.v."""
    from qibo.transpiler.unitary_decompositions import cnot_decomposition, cnot_decomposition_light
    header = qtrace.COQ_HEADER + "From QV Require Import Spec.GateSpec.\n"
    two = lambda j: f"(ascale (2 # 1) (avar {j}))"
    items = []
    with qtrace.patched():
        b = qtrace.fresh_sym_backend()
        for (q0, q1) in ((0, 1), (1, 0)):
            h = qtrace.setup_vars(3)
            gs = cnot_decomposition(q0, q1, h[0], h[1], h[2], b)
            spec = (f"(MMul (MLit (S_RXX {two(0)})) (MMul (MLit (S_RYY {two(1)})) (MLit (S_RZZ {two(2)}))))")
            items.append((f"kak_core_{q0}{q1}", f"mcheck_phase {qtrace.circ_coq(gs, 2)} {spec}"))
            h = qtrace.setup_vars(2)
            gs = cnot_decomposition_light(q0, q1, h[0], h[1], b)
            spec = f"(MMul (MLit (S_RXX {two(0)})) (MLit (S_RYY {two(1)})))"
            items.append((f"kak_light_{q0}{q1}", f"mcheck_phase {qtrace.circ_coq(gs, 2)} {spec}"))
            run.case(["kak_core", q0, q1])
    res, out = run.coq_bools("C10_kak_triage.v", header, items, timeout=900)
    if res is None:
        run.find("coq:C10_kak", "KAK core obligations do not compile", {"log": out[-1200:]}, concrete=False)
        return
    good = [(n, t) for n, t in items if res[n]]
    thms = [(f"ok_{n}", f"{t} = true", "vm_compute; reflexivity.") for n, t in good]
    ok, out2 = run.coq_theorems("C10_kak_theorems.v", header, thms, timeout=900) if thms else (True, "")
    for n, _ in good:
        run.oblige(n, ok, "kak-core")
    for n, t in items:
        if res[n]:
            continue
        # numeric witness through the real numeric backend
        from qibo.backends import NumpyBackend
        import scipy.linalg as sla
        be = NumpyBackend()
        X = np.array([[0, 1], [1, 0]]); Y = np.array([[0, -1j], [1j, 0]]); Z = np.diag([1, -1])
        found = None
        for _ in range(6):
            hx, hy, hz = (round(rng.uniform(0.1, 1.4), 3) for _ in range(3))
            q0, q1 = int(n[-2]), int(n[-1])
            if "light" in n:
                hz = 0.0
                gs = cnot_decomposition_light(q0, q1, hx, hy, be)
            else:
                gs = cnot_decomposition(q0, q1, hx, hy, hz, be)
            U = qtrace.full_unitary(gs, 2)
            V = sla.expm(-1j * (hx * np.kron(X, X) + hy * np.kron(Y, Y) + hz * np.kron(Z, Z)))
            d = qtrace.phase_distance(U, V)
            if d > 1e-8:
                found = {"hx": hx, "hy": hy, "hz": hz, "qubits": [q0, q1], "distance": d}
                break
        if found:
            run.refuted.append(n)
            run.find("kak_core:" + n, "cnot_decomposition does not implement exp(-i(hx XX+hy YY+hz ZZ))", found)
        else:
            run.oblige(n, False, "kak-core")
            run.find("unproved:" + n, f"obligation {n} no longer checks", concrete=False)


RULE = ("one obligation per (gate class x native set) with symbolic parameters, all classes of gates.py x 8 native sets; "
        "plus special parameter values of _u3_to_gpi2; plus random/degenerate unitaries as a tolerance test; "
        "plus near-degenerate two-qubit inputs (interaction angles 10^-k, pi/2-10^-k, near identity/SWAP/CNOT/product) with "
        "operator-Schmidt lower bound on two-qubit natives; plus translate -> edit the result -> translate again histories "
        "on canonical and non-ascending qubits with a deep snapshot of the module-level tables")


def main(run):
    rng = random.Random(run.seed)
    run.trusted += ["Coq 8.16.1 kernel, vm_compute", "Base/TrigNF.v, Base/TrigMat.v (proved sound)",
                    "lib/symtrace.py tracer; floats within 4 ulp of (p/q)*pi read as that multiple of pi",
                    "numerical KAK/ZYZ path (magic_decomposition, eig, qr): tolerance test only, outside the proof"]
    run.assumptions += ["exact real arithmetic (rounding not modelled)"]
    items, rejected, native_bad = build_items(run, run.tier)
    for sname, name, bad in native_bad:
        run.find(f"natives:{sname}:{name}", f"translate_gate({name}) under {sname} returns non-native gates {bad}",
                 {"native_set": sname, "class": name, "non_native": bad})
    run.notes["rejected_class_set_pairs"] = len(rejected)
    run.notes["rejected_sample"] = rejected[:10]
    tables.run_items(run, items, "C10_tables", rng)
    tables.run_items(run, controlled_items(run, run.tier), "C10_controlled", rng)
    kak_core(run, rng)
    unitary_test(run, rng, 160 if run.tier == "quick" else 2500)
    from harness import c10_streams as cs
    cs.h_vector_contract(run, rng)
    cs.near_degenerate(run, rng)
    cs.aliasing_stream(run, rng)          # last: it edits what the translations return
    return run.finish(rule=RULE)


def replay(run, data):
    rng = random.Random(0)
    key = data["key"]
    if key.startswith(("alias:", "translate_canonical:", "kak_near:", "kak_magic_basis:near", "kak_hvector:")):
        from harness import c10_streams as cs
        rep = data["replay"]
        if key.startswith(("kak_near:", "kak_magic_basis:near")):
            cs.replay_near(run, rep, key)
        elif key.startswith("kak_hvector:"):
            cs.h_vector_contract(run, rng)
        else:
            cs.aliasing_stream(run, rng, only=rep.get("class"))
        return run.finish(rule="replay of one recorded history / near-degenerate input")
    items, rejected, native_bad = build_items(run, "thorough")
    items = items + controlled_items(run, "thorough")
    for sname, name, bad in native_bad:
        if key == f"natives:{sname}:{name}":
            run.find(key, data["what"], data["replay"])
    for it in items:
        if it.key == key and data["replay"].get("params") is not None:
            lhs, rhs, n = it.builder(data["replay"]["params"])
            d = qtrace.phase_distance(qtrace.full_unitary(lhs, n), qtrace.full_unitary(rhs, n))
            if d > 1e-8:
                run.find(key, data["what"], {**data["replay"], "distance": d})
    return run.finish(rule="replay of one recorded case")
